#!/usr/bin/env python3
# Regenerates MANIFEST.json from the table below (kept next to the claims so they stay in sync).
import json
props=[json.loads(l) for l in open('/verif/properties.jsonl')]
TV="translation_validation"
TB_CLOSURE=("Trusted: govc (VC generator), pegspec (the PEG semantics table of DESIGN.md 4.2 rendered from the rule tree the real front end builds), the SMT solvers; "
  "contracts of the runtime closures add/matchDot/memoize/memoizedResult are used at call sites (they are proved separately where claimed); Go semantics as modelled (mathematical integers for token counts); "
  "program shapes are bounded (schema family depth<=2 + corpus), inputs and callee behaviour are not; termination is not proved.")
claims={
 "C16":dict(cat="proof",text="Every function of set/set.go (NewSet, Has, Add, AddRange, Len, Copy, Union, Intersects, Complement, Equal, String) is verified against a contract whose post-condition is the mathematical statement of the property (membership, sum of interval lengths, union, non-empty intersection, complement within [0,limit], extensional equality), over the representation invariant wf (sorted, non-touching interval list with sentinels, ghost node set), for lists of arbitrary length: loop invariants, frames (operands unchanged), nil/overflow safety. 980 obligations, all discharged; the verifier found three genuine defects (String on the empty set, Complement off-by-one, structural Equal) that are repaired by fix: commits.",ref="6.16, Appendix A",note="Trusted: govc, SMT solvers, three axioms of the spec function cardFrom (sum of interval lengths along the list; guarded unfolding, consistent for every heap), the assumed contract of fmt.Sprintf, the paper lemma that the sum of lengths of disjoint intervals is the cardinality. String's text (ascending element list) is not specified beyond memory safety. Complement requires every element <= limit+1 (how peg calls it). Termination only for the lemma function.",tech="contract-based deductive verification (pre/post, loop invariants, ghost sets/maps, frames) with self-written VC generator, z3/cvc5"),
 "C01":dict(cat=TV,text="Each emitted rule closure of the schema family and of peg.peg (thorough: all shipped grammars) is proved, for all inputs, to return OK(rule,p0) and to stop at END(rule,p0), where OK/END are the PEG semantics derived from the grammar (not from the emitter); callees are used through the same contract, so the proof is compositional over opaque sub-rules. A proof per generated program, not a proof of the generator.",ref="6.1, 4, 5",note=TB_CLOSURE,tech="deductive translation validation: per-closure VCs (weakest-precondition style, guarded passive form) against contracts synthesised from the grammar, discharged by z3/cvc5"),
 "C03":dict(cat=TV,text="Same closures: the live token sequence abs(tree,tokenIndex) after a successful rule equals APP(rule,p0,before) (post-order record: sub-derivation tokens, captures, actions, then the rule's own token with exact rune offsets), is unchanged on failure, and nothing at or below the saved token index is overwritten (quantified frame), for all inputs.",ref="6.3, 4.3, 4.4",note=TB_CLOSURE,tech="deductive translation validation with an abstract token-sequence theory (abs/snoc) and quantified frame clauses"),
 "C11":dict(cat=TV,text="Same closures: after any attempt (success or failure) the furthest-token register equals MX(rule,p0,before), the specification of 'first non-empty token that reached the furthest offset'. Message formatting (translatePositions/Error) is not yet under contract in this check.",ref="6.11",note=TB_CLOSURE+" The parse/Error/translatePositions part of the property is not covered by this check yet.",tech="deductive translation validation (register clause of the rule contract)"),
 "C13":dict(cat=TV,text="Same closures: every buffer[...] index, every call through _rules[...] and every runtime-closure precondition (the state invariant RT: 0<=position<=n, buffer is the input followed by the sentinel, tokenIndex<=len(tree)) is proved for all inputs; so no emitted closure reads outside the buffer or panics.",ref="6.13",note=TB_CLOSURE,tech="safety obligations (bounds, nil, callee preconditions) generated for every emitted closure"),
}
checks=[]
for pid,c in claims.items():
    checks.append({"property_id":pid,"quick_cmd":f"./check {pid} quick","thorough_cmd":f"./check {pid} thorough","evidence_file":f"/verif/evidence/{pid}.json",
      "replay_cmd_template":"cat {path}","engine":"govc","level_claimed":{"category":c["cat"],"text":c["text"],"design_ref":c["ref"]},"level_note":c["note"],"technique":c["tech"]})
na_reason={
 "C08":"the property is about the emitted text as a Go compilation unit (parses, type-checks, gofmt fixed point, imports) for all grammars; no function contract over integers/heaps/sequences expresses it and the VC generator cannot reason about text/template or go/printer (DESIGN.md section 9)",
}
na=[{"property_id":p["id"],"reason":na_reason.get(p["id"],"not yet claimed: machinery under construction (DESIGN.md section 11 build order)")} for p in props if p["id"] not in claims]
hooks=json.load(open('/verif/hooks.json'))
m={"version":1,"setup_cmd":"./setup.sh",
 "hooks":{"guard":"verif","enable":"govc loads /repo with -tags=verif; the hook files are comment-only contract files (//go:build verif), nothing executable is added",
  "baseline_off_cmd":"cd /repo && PATH=/opt/veriftools/go1.26.8/bin:$PATH GOFLAGS=-mod=mod GOPROXY=off GOSUMDB=off GOTOOLCHAIN=local go test -json -vet=off -count=1 -timeout 25m . ./set",
  "source_commits":hooks["source_commits"],"add_only":True},
 "engines":[{"name":"govc","path":"/verif/govc","serves_properties":sorted(claims),"kind_free_text":"self-written verification-condition generator for Go (typed AST -> CFG -> guarded passive form -> SMT-LIB); contracts as //@ comments in /repo behind //go:build verif; pegspec derives closure contracts from grammars; z3-new/z3/cvc5 portfolio"}],
 "checks":checks,
 "notes":"Checks are added as their obligations discharge on the unchanged tree; see DESIGN.md for the per-property status.",
 "not_applicable":na}
json.dump(m,open('/verif/MANIFEST.json','w'),indent=1)
print("claimed:",sorted(claims))
