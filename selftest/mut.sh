#!/bin/bash
# usage: mut.sh <file-rel> <old text> <new text> <funcs> [unit] [lines] [opts]
# Copies /repo to a scratch directory, applies one textual change, runs govc debug on it, removes the copy.
set -e
M=$(mktemp -d /var/tmp/govc-mut-XXXXXX)
trap 'rm -rf "$M"' EXIT
rsync -a --exclude .git /repo/ "$M/"
python3 - "$M/$1" "$2" "$3" <<'PY'
import sys
p=sys.argv[1]
s=open(p).read()
old,new=sys.argv[2],sys.argv[3]
assert s.count(old)>=1, "pattern not found"
s=s.replace(old,new,1)
open(p,'w').write(s)
PY
cd /verif
if [ -n "$7" ]; then
GOVC_REPO="$M" bin/govc debug ${5:-set} -f "$4" -o "$7" 2>&1 | grep -v "^FUNC" | cut -c1-150 | head -${6:-14}
else
GOVC_REPO="$M" bin/govc debug ${5:-set} -f "$4" 2>&1 | grep -v "^FUNC" | cut -c1-150 | head -${6:-14}
fi
