#!/bin/bash
# consolidated mutant suite: every mutant must trip at least one named obligation
cd "$(dirname "$0")"
run() { # name file old new funcs
  out=$(./mut.sh "$2" "$3" "$4" "$5" 2>&1)
  first=$(echo "$out" | grep -E "^(unknown|sat|error) " | grep -v canary | head -1 | awk '{print $2}')
  detail=$(echo "$out" | grep -E -A1 "^(unknown|sat|error) " | grep -v canary | sed -n 2p | sed 's/^ *//' | cut -c1-90)
  n=$(echo "$out" | grep -E "^(unknown|sat|error) " | grep -v canary | wc -l)
  if [ -z "$first" ]; then first="NOT-CAUGHT: $(echo "$out" | tail -1)"; fi
  printf "%-34s %-40s (%s failing) %s\n" "$1" "$first" "$n" "$detail"
}
run "Len: drop +1" set/set.go 'int(beginNode.Begin) + 1' 'int(beginNode.Begin)' Set.Len
run "Len: End+Begin" set/set.go 'size += int(beginNode.End) - int(beginNode.Begin) + 1' 'size += int(beginNode.End) + int(beginNode.Begin) + 1' Set.Len
run "Len: size starts at 1" set/set.go 'size := 0
	if s.Head.Forward == nil {' 'size := 1
	if s.Head.Forward == nil {' Set.Len
run "Len: skip first node" set/set.go '	beginNode := s.Head.Forward
	for beginNode.Forward != nil {
		size' '	beginNode := s.Head.Forward.Forward
	for beginNode.Forward != nil {
		size' Set.Len
run "Copy: share nodes (b.Forward=a)" set/set.go '		b.Forward = &node
		a = a.Forward
		b = b.Forward
	}
	b.Forward = &set.Tail
	set.Tail.Backward = b
	return set
}

// Add adds' '		b.Forward = &node
		b.Forward = a
		a = a.Forward
		b = b.Forward
	}
	b.Forward = &set.Tail
	set.Tail.Backward = b
	return set
}

// Add adds' Set.Copy
run "Copy: End: a.Begin" set/set.go 'Begin:    a.Begin,
			End:      a.End,
		}
		b.Forward = &node
		a = a.Forward' 'Begin:    a.Begin,
			End:      a.Begin,
		}
		b.Forward = &node
		a = a.Forward' Set.Copy
run "Copy: Tail.Backward not set" set/set.go '	b.Forward = &set.Tail
	set.Tail.Backward = b
	return set
}

// Add adds' '	b.Forward = &set.Tail
	return set
}

// Add adds' Set.Copy
run "Copy: skip first node" set/set.go 'a, b := s.Head.Forward, &set.Head
	for a.Forward != nil {
		node := Node{
			Backward: b,
			Begin:    a.Begin,' 'a, b := s.Head.Forward.Forward, &set.Head
	for a.Forward != nil {
		node := Node{
			Backward: b,
			Begin:    a.Begin,' Set.Copy
run "Copy: Backward not set" set/set.go '			Backward: b,
			Begin:    a.Begin,' '			Begin:    a.Begin,' Set.Copy
run "Union: AddRange into s" set/set.go '		set.AddRange(node.Begin, node.End)' '		s.AddRange(node.Begin, node.End)' Set.Union
run "Union: no copy (set := s)" set/set.go '	set := s.Copy()
	node := a.Head.Forward' '	set := s
	node := a.Head.Forward' Set.Union
run "Union: AddRange(Begin,Begin)" set/set.go '		set.AddRange(node.Begin, node.End)' '		set.AddRange(node.Begin, node.Begin)' Set.Union
run "Union: skip first node of a" set/set.go '	node := a.Head.Forward
	if node == nil {
		return set
	}' '	node := a.Head.Forward
	if node == nil {
		return set
	}
	node = node.Forward' Set.Union
run "Union: copies a instead of s" set/set.go '	set := s.Copy()
	node := a.Head.Forward' '	set := a.Copy()
	node := a.Head.Forward' Set.Union
run "Intersects: no second sweep" set/set.go '	x = b.Head.Forward
	if x == nil {
		return false
	}' '	if s != nil {
		return false
	}
	x = b.Head.Forward' Set.Intersects
run "Intersects: hit returns false" set/set.go '			if y.Begin >= x.Begin && y.Begin <= x.End {
				return true' '			if y.Begin >= x.Begin && y.Begin <= x.End {
				return false' Set.Intersects
run "Intersects: flipped >=" set/set.go '			if y.Begin >= x.Begin && y.Begin <= x.End {' '			if y.Begin <= x.Begin && y.Begin <= x.End {' Set.Intersects
run "Intersects: 2nd sweep over s,s" set/set.go '	x = b.Head.Forward
	if x == nil {' '	x = s.Head.Forward
	if x == nil {' Set.Intersects
run "Intersects: inner skips first" set/set.go '		y := b.Head.Forward
		if y == nil {
			return false
		}' '		y := b.Head.Forward
		if y == nil {
			return false
		}
		y = y.Forward' Set.Intersects
run "String: revert F1 fix" set/set.go 'for node != nil && node.Forward != nil {
		for code' 'for node.Forward != nil {
		for code' Set.String
run "String: node.Forward.Forward" set/set.go 'for node != nil && node.Forward != nil {
		for code' 'for node != nil && node.Forward.Forward != nil {
		for code' Set.String
run "String: start at 2nd node" set/set.go '	node := s.Head.Forward
	for node != nil' '	node := s.Head.Forward.Forward
	for node != nil' Set.String
run "String: code <= End+1" set/set.go 'code <= node.End; code++' 'code <= node.End+1; code++' Set.String
run "Complement: revert F2 (pre<end)" set/set.go 'if a.Backward.End < endSymbol {' 'if pre < endSymbol {' Set.Complement
run "Complement: no empty check(F3b)" set/set.go '	if b == &set.Head {
		return set
	}
' '' Set.Complement
run "Complement: a.Begin-1 -> a.Begin" set/set.go 'End:      a.Begin - 1,' 'End:      a.Begin,' Set.Complement
run "Complement: pre = a.End" set/set.go '			pre = a.End + 1
		}
		b.Forward' '			pre = a.End
		}
		b.Forward' Set.Complement
run "Complement: last gap End-1" set/set.go '			Begin:    pre,
			End:      endSymbol,
		}
		b.Forward' '			Begin:    pre,
			End:      endSymbol - 1,
		}
		b.Forward' Set.Complement
run "Complement: last gap on <=" set/set.go 'if a.Backward.End < endSymbol {' 'if a.Backward.End <= endSymbol {' Set.Complement
run "AddRange: revert begin-1 (F3)" set/set.go 'begin-1 > beginNode.Forward.End' 'begin > beginNode.Forward.End' Set.AddRange
run "AddRange: revert Begin-1 (F3)" set/set.go 'end < endNode.Backward.Begin-1' 'end < endNode.Backward.Begin' Set.AddRange
run "AddRange: begin-2" set/set.go 'begin-1 > beginNode.Forward.End' 'begin-2 > beginNode.Forward.End' Set.AddRange
run "Has: flipped comparison" set/set.go 'return begin >= beginNode.Forward.Begin' 'return begin > beginNode.Forward.Begin' Set.Has
run "Equal: compare Begin only" set/set.go 'if x.Begin != y.Begin || x.End != y.End {' 'if x.Begin != y.Begin {' Set.Equal
run "Equal: no Len comparison" set/set.go '	if lens != lena {
		return false
	} else if lens == 0 && lena == 0 {' '	if lens == 0 && lena == 0 {' Set.Equal
run "Equal: mismatch returns true" set/set.go 'if x.Begin != y.Begin || x.End != y.End {
			return false' 'if x.Begin != y.Begin || x.End != y.End {
			return true' Set.Equal
run "Equal: empty/empty false" set/set.go '	} else if lens == 0 && lena == 0 {
		return true' '	} else if lens == 0 && lena == 0 {
		return false' Set.Equal
run "Equal: && instead of ||" set/set.go 'if x.Begin != y.Begin || x.End != y.End {' 'if x.Begin != y.Begin && x.End != y.End {' Set.Equal
run "Equal: advance only x" set/set.go 'x, y = x.Forward, y.Forward' 'x, y = x.Forward, y' Set.Equal
run "contract: Equal without lemma" set/contracts_verif.go '//@   ghost after "lens, lena := s.Len(), a.Len()" : use lemmaCard(s, a)
' '' Set.Equal
run "contract: lemma claims card+1" set/contracts_verif.go 'imp(EQ(s, a), card(s) == card(a))' 'imp(EQ(s, a), card(s) == card(a) + 1)' lemmaCard
run "lemma: loop without progress" set/lemmas_verif.go 'x, y = x.Forward, y.Forward' 'x, y = x, y' lemmaCard
run "contract: wf not canonical" set/contracts_verif.go 'lo1(s, r) < hi(s, r.Forward) && r.Forward.Backward == r))' 'lo(s, r) < hi(s, r.Forward) && r.Forward.Backward == r))' lemmaCard
run "lemma: contains a call" set/lemmas_verif.go 'x, y = x.Forward, y.Forward' 'x, y = x.Forward, y.Forward
		s.Len()' lemmaCard
