package main

// Contract files: comment-only Go files (behind //go:build verif) holding //@ lines.
//
//   //@ ghostfield Set.nodes set
//   //@ ghostvar astN map                     (ghost variable of the unit: set | map | int | bool | strmap; written by ghost
//                                              statements, listed in `modifies var`)
//   //@ const INF = 1099511627776
//   //@ pred wf(s *Set) = expr ...            (macro, expanded at use)
//   //@ specfunc card(s *Set, r *Node) int    (uninterpreted function of its arguments AND the heap fields listed with `reads`)
//   //@ func Set.Has            |  //@ closure Init.add
//   //@   requires expr
//   //@   ensures expr
//   //@   ensures[K16_2 except region-expr] expr
//   //@   modifies Node.Forward, Node.Backward at r where cond
//   //@   modifies var position, tokenIndex
//   //@   overflow checked
//   //@   loop 0 invariant expr              (idx() = index of the enclosing range loop; cur() = cursor of a range over a
//                                              list iterator: the element the next iteration will receive, nil at the end)
//   //@   loop 0 decreases expr
//   //@   ghost after "stmt" : lhs = rhs
//   //@   ghost entry : lhs = rhs            (at function entry)
//   //@   ghost return : lhs = rhs           (at every return, `result` bound, before the postconditions are checked)
//   //@   ghost after "stmt" : use lemmaFn(args)   (ghost call of a verified lemma function: its requires become obligations
//                                                   here, its ensures are assumed; nothing is modified)
//   //@   lemmafunc                           (this function is a lemma: it must modify nothing, contain no calls, and every loop
//                                              needs a `decreases` clause, which is then checked: total correctness)
//   //@   let name = expr
//   //@   dead 3 : reason                     (the path ending at canary[3] is claimed infeasible: the canary becomes a
//                                              proof obligation `path condition is unsatisfiable` instead of a vacuity check)
//
// A line that does not start with a keyword continues the previous clause.
//
// Names: struct types declared inside a function body (`type element struct` in tokens.AST) are named like package-level
// types (`e * element`, `element.down`). A parameter or local variable of the function shadows a specification constant of
// the same name. In requires/ensures a parameter denotes its entry value; in loop invariants and ghost statements it denotes
// its current value (old(p) = entry value).
// Expression forms added for C05: idx() also in the invariant of a loop nested in a range loop and in ghost statements of
// its body (the index is already advanced there: the current element is idx() - 1); substr(s, lo, hi) = string([]rune(s)[lo:hi]); at(m, k) on a strmap yields a string.
// Assumed contracts of variadic external functions may name the variadic operands va0, va1, ...

import (
	"fmt"
	"go/ast"
	"go/parser"
	"go/token"
	"go/types"
	"os"
	"strings"
)

type Clause struct {
	Name   string   // ordinal-based name: requires[0], ensures[2], ...
	Tag    string   // optional tag in [..]
	Text   string   // source text
	Expr   ast.Expr // parsed
	Except string   // known-finding id this clause is carved by ("" if none)
	Region ast.Expr // region predicate for Except
	File   string
	Line   int
}

type ModClause struct {
	Vars   []string // modifies var a, b
	Fields []string // Type.field
	Bound  string   // quantified ref name
	Where  ast.Expr // nil = everywhere
	Text   string
}

type GhostStmt struct {
	After string // normalised statement text
	At    string // "entry" or ""
	LHS   ast.Expr
	RHS   ast.Expr
	Use   *ast.CallExpr // ghost use of a lemma function (instead of an assignment)
	Text  string
}

type LetClause struct {
	Name string
	Expr ast.Expr
}

type FuncContract struct {
	Key       string
	Requires  []*Clause
	Ensures   []*Clause
	Modifies  []*ModClause
	Overflow  bool
	LoopInv   map[int][]*Clause
	LoopDec   map[int]*Clause
	Ghosts    []*GhostStmt
	Lets      []*LetClause
	Lemma     bool           // lemma function (verified for total correctness, usable by `ghost ... : use f(args)`)
	Dead      map[int]string // canary ordinal -> reason: paths claimed (and then proved) infeasible
	Trusted   bool // contract is assumed, body not verified (listed in evidence)
	Pure      bool
	GhostArgs []string
	Uses      []string // explicit axiom groups (smt[name!]) this function's proofs need
	File      string
	Line      int
}

type PredDef struct {
	Name   string
	Params []ParamDecl
	Body   ast.Expr
	Text   string
}

type ParamDecl struct {
	Name string
	Type ast.Expr // may be nil (=> int)
	Sort Sort     // explicit sort for programmatically declared spec functions
}

type SpecFunc struct {
	Name   string
	Params []ParamDecl
	Result string   // "int", "bool", "set", or a sort
	Reads  []string // heap cells it depends on (Type.field) - passed implicitly
	ResultTy types.Type
	Declared bool // declared by the unit's own prelude
	Body     ast.Expr // defining body (defpred): asserted as a patterned axiom
}

type Axiom struct {
	Name string
	Expr ast.Expr
	Text string
}

type ContractSet struct {
	Funcs       map[string]*FuncContract
	Preds       map[string]*PredDef
	SpecFuncs   map[string]*SpecFunc
	Consts      map[string]string // name -> integer literal text
	GhostFields map[string]string // "Set.nodes" -> "set" | "int"
	GhostVars   map[string]Sort   // ghost variables of the unit (shared with Unit.ExtraCells)
	Axioms      []*Axiom
	Lemmas      []*Axiom
	Files       []string
	Raw         []string // all //@ lines, for the assumption scan
	SMTGroup    []string // per SMT command: symbol whose presence in a query makes the command relevant ("" = always)
	SMT         []string // raw SMT-LIB commands (axioms of spec functions): part of the trusted base
}

func NewContractSet() *ContractSet {
	return &ContractSet{Funcs: map[string]*FuncContract{}, Preds: map[string]*PredDef{}, SpecFuncs: map[string]*SpecFunc{},
		Consts: map[string]string{}, GhostFields: map[string]string{}}
}

var topKeywords = map[string]bool{"ghostvar": true, "defpred": true, "smt": true, "ghostfield": true, "const": true, "pred": true, "specfunc": true, "axiom": true, "lemma": true, "func": true, "closure": true}
var clauseKeywords = map[string]bool{"uses": true, "requires": true, "ensures": true, "modifies": true, "overflow": true, "loop": true, "ghost": true, "let": true, "trusted": true, "pure": true, "ghostargs": true, "dead": true, "lemmafunc": true}

type rawDirective struct {
	kw   string
	text string
	line int
}

func (cs *ContractSet) ParseFile(path string) error {
	data, err := os.ReadFile(path)
	if err != nil {
		return err
	}
	cs.Files = append(cs.Files, path)
	var dirs []*rawDirective
	for i, ln := range strings.Split(string(data), "\n") {
		t := strings.TrimSpace(ln)
		if !strings.HasPrefix(t, "//@") {
			continue
		}
		body := strings.TrimSpace(t[3:])
		if body == "" || strings.HasPrefix(body, "--") {
			continue
		}
		// strip trailing comment introduced by " -- "
		if k := strings.Index(body, " -- "); k >= 0 {
			body = strings.TrimSpace(body[:k])
		}
		cs.Raw = append(cs.Raw, body)
		kw := body
		if k := strings.IndexAny(body, " \t[("); k >= 0 {
			kw = body[:k]
		}
		if topKeywords[kw] || clauseKeywords[kw] {
			dirs = append(dirs, &rawDirective{kw, strings.TrimSpace(body[len(kw):]), i + 1})
		} else if len(dirs) > 0 {
			dirs[len(dirs)-1].text += " " + body
		} else {
			return fmt.Errorf("%s:%d: continuation without directive", path, i+1)
		}
	}
	var cur *FuncContract
	for _, d := range dirs {
		fail := func(e error) error { return fmt.Errorf("%s:%d: %s %s: %v", path, d.line, d.kw, d.text, e) }
		switch d.kw {
		case "smt":
			// smt[sym] text : the axiom is included only in queries that mention sym
			text, group := d.text, ""
			if strings.HasPrefix(text, "[") {
				if k := strings.Index(text, "]"); k > 0 {
					group, text = strings.TrimSpace(text[1:k]), strings.TrimSpace(text[k+1:])
				}
			}
			cs.SMT = append(cs.SMT, text)
			cs.SMTGroup = append(cs.SMTGroup, group)
		case "defpred":
			// name(params) reads A.f, B.g = body   : a named SMT function with a defining axiom
			depth, k := 0, -1
			for i, c := range d.text {
				if c == '(' {
					depth++
				} else if c == ')' {
					depth--
				} else if c == '=' && depth == 0 {
					k = i
					break
				}
			}
			if k < 0 {
				return fail(fmt.Errorf("want name(params) reads ... = body"))
			}
			head := strings.TrimSpace(d.text[:k])
			var reads []string
			if j := strings.Index(head, " reads "); j >= 0 {
				for _, r := range strings.Split(head[j+7:], ",") {
					reads = append(reads, strings.TrimSpace(r))
				}
				head = strings.TrimSpace(head[:j])
			}
			name, params, err := parseSig(head)
			if err != nil {
				return fail(err)
			}
			body, err := parseExpr(d.text[k+1:])
			if err != nil {
				return fail(err)
			}
			cs.SpecFuncs[name] = &SpecFunc{Name: name, Params: params, Result: "bool", Reads: reads, Body: body}
		case "ghostvar":
			f := strings.Fields(d.text)
			if len(f) != 2 || cs.GhostVars == nil {
				return fail(fmt.Errorf("want name sort (in a unit that accepts ghost variables)"))
			}
			cs.GhostVars[f[0]] = ghostSort(f[1])
		case "ghostfield":
			f := strings.Fields(d.text)
			if len(f) != 2 {
				return fail(fmt.Errorf("want Type.field sort"))
			}
			cs.GhostFields[f[0]] = f[1]
		case "const":
			k := strings.Index(d.text, "=")
			if k < 0 {
				return fail(fmt.Errorf("want name = value"))
			}
			cs.Consts[strings.TrimSpace(d.text[:k])] = strings.TrimSpace(d.text[k+1:])
		case "pred":
			k := strings.Index(d.text, "=")
			// the first '=' that is at paren depth 0
			depth := 0
			k = -1
			for i, c := range d.text {
				if c == '(' {
					depth++
				} else if c == ')' {
					depth--
				} else if c == '=' && depth == 0 {
					k = i
					break
				}
			}
			if k < 0 {
				return fail(fmt.Errorf("want name(params) = body"))
			}
			name, params, err := parseSig(strings.TrimSpace(d.text[:k]))
			if err != nil {
				return fail(err)
			}
			body, err := parseExpr(d.text[k+1:])
			if err != nil {
				return fail(err)
			}
			cs.Preds[name] = &PredDef{Name: name, Params: params, Body: body, Text: d.text}
		case "specfunc":
			// name(params) result [reads A.f, B.g]
			text := d.text
			var reads []string
			if k := strings.Index(text, " reads "); k >= 0 {
				for _, r := range strings.Split(text[k+7:], ",") {
					reads = append(reads, strings.TrimSpace(r))
				}
				text = text[:k]
			}
			k := strings.LastIndex(text, ")")
			if k < 0 {
				return fail(fmt.Errorf("want name(params) result"))
			}
			name, params, err := parseSig(text[:k+1])
			if err != nil {
				return fail(err)
			}
			cs.SpecFuncs[name] = &SpecFunc{Name: name, Params: params, Result: strings.TrimSpace(text[k+1:]), Reads: reads}
		case "axiom", "lemma":
			k := strings.Index(d.text, ":")
			if k < 0 {
				return fail(fmt.Errorf("want name: expr"))
			}
			e, err := parseExpr(d.text[k+1:])
			if err != nil {
				return fail(err)
			}
			ax := &Axiom{Name: strings.TrimSpace(d.text[:k]), Expr: e, Text: d.text}
			if d.kw == "axiom" {
				cs.Axioms = append(cs.Axioms, ax)
			} else {
				cs.Lemmas = append(cs.Lemmas, ax)
			}
		case "func", "closure":
			key := strings.Fields(d.text)[0]
			if f := strings.Fields(d.text); len(f) == 3 && f[1] == "=" {
				// `closure parse.closeAll = getIO.closeAll`: the function value bound to this name is the one verified
				// against the other contract; both names share one contract
				other, ok := cs.Funcs[f[2]]
				if !ok {
					return fail(fmt.Errorf("contract %s is not defined (yet)", f[2]))
				}
				if _, dup := cs.Funcs[key]; dup {
					return fail(fmt.Errorf("duplicate contract"))
				}
				cs.Funcs[key] = other
				cur = nil
				continue
			}
			cur = &FuncContract{Key: key, LoopInv: map[int][]*Clause{}, LoopDec: map[int]*Clause{}, File: path, Line: d.line}
			if _, dup := cs.Funcs[key]; dup {
				return fail(fmt.Errorf("duplicate contract"))
			}
			cs.Funcs[key] = cur
		default:
			if cur == nil {
				return fail(fmt.Errorf("clause outside func"))
			}
			if err := cur.addClause(d, path); err != nil {
				return fail(err)
			}
		}
	}
	return nil
}

func (fc *FuncContract) addClause(d *rawDirective, path string) error {
	text := d.text
	tag, except := "", ""
	var region ast.Expr
	if strings.HasPrefix(text, "[") {
		k := strings.Index(text, "]")
		if k < 0 {
			return fmt.Errorf("unclosed [")
		}
		tag = strings.TrimSpace(text[1:k])
		text = strings.TrimSpace(text[k+1:])
		if j := strings.Index(tag, " except "); j >= 0 {
			rest := strings.TrimSpace(tag[j+8:])
			tag = strings.TrimSpace(tag[:j])
			f := strings.SplitN(rest, " ", 2)
			except = f[0]
			if len(f) == 2 {
				e, err := parseExpr(f[1])
				if err != nil {
					return err
				}
				region = e
			}
		}
	}
	mk := func(kind string, n int) (*Clause, error) {
		e, err := parseExpr(text)
		if err != nil {
			return nil, err
		}
		return &Clause{Name: fmt.Sprintf("%s[%d]", kind, n), Tag: tag, Text: text, Expr: e, Except: except, Region: region, File: path, Line: d.line}, nil
	}
	switch d.kw {
	case "requires":
		c, err := mk("requires", len(fc.Requires))
		if err != nil {
			return err
		}
		fc.Requires = append(fc.Requires, c)
	case "ensures":
		c, err := mk("ensures", len(fc.Ensures))
		if err != nil {
			return err
		}
		fc.Ensures = append(fc.Ensures, c)
	case "overflow":
		fc.Overflow = strings.TrimSpace(text) == "checked"
	case "uses":
		fc.Uses = append(fc.Uses, strings.Fields(strings.ReplaceAll(text, ",", " "))...)
	case "trusted":
		fc.Trusted = true
	case "pure":
		fc.Pure = true
	case "lemmafunc":
		fc.Lemma = true
	case "ghostargs":
		fc.GhostArgs = strings.Fields(strings.ReplaceAll(text, ",", " "))
	case "dead":
		var n int
		if _, err := fmt.Sscanf(text, "%d", &n); err != nil {
			return fmt.Errorf("dead N : reason")
		}
		reason := ""
		if k := strings.Index(text, ":"); k >= 0 {
			reason = strings.TrimSpace(text[k+1:])
		}
		if fc.Dead == nil {
			fc.Dead = map[int]string{}
		}
		fc.Dead[n] = reason
	case "let":
		k := strings.Index(text, "=")
		if k < 0 {
			return fmt.Errorf("want name = expr")
		}
		e, err := parseExpr(text[k+1:])
		if err != nil {
			return err
		}
		fc.Lets = append(fc.Lets, &LetClause{strings.TrimSpace(text[:k]), e})
	case "loop":
		var n int
		var kind string
		if _, err := fmt.Sscanf(text, "%d %s", &n, &kind); err != nil {
			return err
		}
		k := strings.Index(text, kind)
		text = strings.TrimSpace(text[k+len(kind):])
		e, err := parseExpr(text)
		if err != nil {
			return err
		}
		switch kind {
		case "invariant":
			c := &Clause{Name: fmt.Sprintf("inv[%d][%d]", n, len(fc.LoopInv[n])), Text: text, Expr: e, File: path, Line: d.line}
			fc.LoopInv[n] = append(fc.LoopInv[n], c)
		case "decreases":
			fc.LoopDec[n] = &Clause{Name: fmt.Sprintf("dec[%d]", n), Text: text, Expr: e, File: path, Line: d.line}
		default:
			return fmt.Errorf("loop clause %q", kind)
		}
	case "modifies":
		m := &ModClause{Text: text}
		if strings.HasPrefix(text, "var ") {
			for _, v := range strings.Split(text[4:], ",") {
				m.Vars = append(m.Vars, strings.TrimSpace(v))
			}
		} else if strings.TrimSpace(text) == "nothing" {
			// empty
		} else {
			fieldsPart := text
			if k := strings.Index(text, " at "); k >= 0 {
				fieldsPart = text[:k]
				rest := text[k+4:]
				w := strings.Index(rest, " where ")
				if w < 0 {
					return fmt.Errorf("modifies ... at r where cond")
				}
				m.Bound = strings.TrimSpace(rest[:w])
				e, err := parseExpr(rest[w+7:])
				if err != nil {
					return err
				}
				m.Where = e
			}
			for _, f := range strings.Split(fieldsPart, ",") {
				m.Fields = append(m.Fields, strings.TrimSpace(f))
			}
		}
		fc.Modifies = append(fc.Modifies, m)
	case "ghost":
		g := &GhostStmt{Text: text}
		if strings.HasPrefix(text, "after ") {
			rest := strings.TrimSpace(text[6:])
			if !strings.HasPrefix(rest, "\"") {
				return fmt.Errorf("ghost after \"stmt\" : lhs = rhs")
			}
			k := strings.Index(rest[1:], "\"")
			if k < 0 {
				return fmt.Errorf("unclosed quote")
			}
			g.After = normStmtText(rest[1 : k+1])
			text = strings.TrimSpace(rest[k+2:])
			text = strings.TrimPrefix(text, ":")
		} else if strings.HasPrefix(text, "entry") {
			g.At = "entry"
			text = strings.TrimPrefix(strings.TrimSpace(text[5:]), ":")
		} else if strings.HasPrefix(text, "return") {
			// executed at every return, after the results are set and before the postconditions are checked; `result` is bound
			g.At = "return"
			text = strings.TrimPrefix(strings.TrimSpace(text[6:]), ":")
		} else {
			return fmt.Errorf("ghost after|entry|return")
		}
		if t := strings.TrimSpace(text); strings.HasPrefix(t, "use ") {
			e, err := parseExpr(t[4:])
			if err != nil {
				return err
			}
			call, ok := e.(*ast.CallExpr)
			if !ok {
				return fmt.Errorf("ghost ... : use lemma(args)")
			}
			g.Use = call
			fc.Ghosts = append(fc.Ghosts, g)
			return nil
		}
		depth, k := 0, -1
		for i, c := range text {
			if c == '(' {
				depth++
			} else if c == ')' {
				depth--
			} else if c == '=' && depth == 0 {
				k = i
				break
			}
		}
		if k < 0 {
			return fmt.Errorf("ghost assignment needs =")
		}
		l, err := parseExpr(text[:k])
		if err != nil {
			return err
		}
		r, err := parseExpr(text[k+1:])
		if err != nil {
			return err
		}
		g.LHS, g.RHS = l, r
		fc.Ghosts = append(fc.Ghosts, g)
	}
	return nil
}

// ContractFromClauses builds a contract from clause lines ("requires ...", "ensures ...", "modifies ...") through the same
// path as the file parser. Used for the assumed contracts of external functions.
func ContractFromClauses(key string, clauses ...string) (*FuncContract, error) {
	fc := &FuncContract{Key: key, LoopInv: map[int][]*Clause{}, LoopDec: map[int]*Clause{}, File: "<assumed contract of " + key + ">"}
	for i, c := range clauses {
		c = strings.TrimSpace(c)
		kw := c
		if k := strings.IndexAny(c, " \t["); k >= 0 {
			kw = c[:k]
		}
		if !clauseKeywords[kw] {
			return nil, fmt.Errorf("%s: clause %q does not start with a clause keyword", key, c)
		}
		if err := fc.addClause(&rawDirective{kw, strings.TrimSpace(c[len(kw):]), i + 1}, fc.File); err != nil {
			return nil, fmt.Errorf("%s: %s: %v", key, c, err)
		}
	}
	return fc, nil
}

func parseExpr(s string) (ast.Expr, error) {
	s = strings.TrimSpace(s)
	// `a ==> b` is sugar for imp(a, b): right associative, lowest precedence inside its parenthesis / argument position
	if strings.Contains(s, "==>") {
		s = desugarImp(s)
	}
	e, err := parser.ParseExpr(s)
	if err != nil {
		return nil, fmt.Errorf("cannot parse %q: %v", s, err)
	}
	return e, nil
}

// desugarImp rewrites every `a ==> b` into imp(a, b). An implication extends over the whole argument or parenthesised
// expression it occurs in: forall(x, p ==> q && r) reads forall(x, imp(p, q && r)).
func desugarImp(s string) string {
	// split at top-level commas
	var segs []string
	depth, start, inStr := 0, 0, false
	for i := 0; i < len(s); i++ {
		c := s[i]
		if inStr {
			if c == '\\' {
				i++
			} else if c == '"' {
				inStr = false
			}
			continue
		}
		switch c {
		case '"':
			inStr = true
		case '(', '[', '{':
			depth++
		case ')', ']', '}':
			depth--
		case ',':
			if depth == 0 {
				segs = append(segs, s[start:i])
				start = i + 1
			}
		}
	}
	segs = append(segs, s[start:])
	for k, seg := range segs {
		if j := topLevelIndex(seg, "==>"); j >= 0 {
			segs[k] = " imp(" + desugarImp(seg[:j]) + ", " + desugarImp(seg[j+3:]) + ")"
			continue
		}
		// descend into the parenthesised groups of the segment
		var sb strings.Builder
		depth, open := 0, -1
		inStr = false
		for i := 0; i < len(seg); i++ {
			c := seg[i]
			if inStr {
				if c == '\\' {
					if depth == 0 {
						sb.WriteByte(c)
					}
					i++
					if depth == 0 && i < len(seg) {
						sb.WriteByte(seg[i])
					}
					continue
				}
				if c == '"' {
					inStr = false
				}
				if depth == 0 {
					sb.WriteByte(c)
				}
				continue
			}
			switch c {
			case '"':
				inStr = true
				if depth == 0 {
					sb.WriteByte(c)
				}
			case '(', '[', '{':
				if depth == 0 {
					sb.WriteByte(c)
					open = i
				}
				depth++
			case ')', ']', '}':
				depth--
				if depth == 0 {
					sb.WriteString(desugarImp(seg[open+1 : i]))
					sb.WriteByte(c)
				}
			default:
				if depth == 0 {
					sb.WriteByte(c)
				}
			}
		}
		segs[k] = sb.String()
	}
	return strings.Join(segs, ",")
}

func topLevelIndex(s, op string) int {
	depth := 0
	for i := 0; i+len(op) <= len(s); i++ {
		switch s[i] {
		case '(', '[', '{':
			depth++
		case ')', ']', '}':
			depth--
		}
		if depth == 0 && strings.HasPrefix(s[i:], op) {
			return i
		}
	}
	return -1
}

// parseSig parses "name(a T, b *U, c)".
func parseSig(s string) (string, []ParamDecl, error) {
	k := strings.Index(s, "(")
	if k < 0 || !strings.HasSuffix(s, ")") {
		return "", nil, fmt.Errorf("bad signature %q", s)
	}
	name := strings.TrimSpace(s[:k])
	var ps []ParamDecl
	inner := strings.TrimSpace(s[k+1 : len(s)-1])
	if inner != "" {
		for _, p := range strings.Split(inner, ",") {
			f := strings.Fields(strings.TrimSpace(p))
			if len(f) == 0 {
				return "", nil, fmt.Errorf("empty param in %q", s)
			}
			pd := ParamDecl{Name: f[0]}
			if len(f) > 1 {
				te, err := parser.ParseExpr(strings.Join(f[1:], " "))
				if err != nil {
					return "", nil, err
				}
				pd.Type = te
			}
			ps = append(ps, pd)
		}
	}
	return name, ps, nil
}

func normStmtText(s string) string {
	s = strings.Join(strings.Fields(s), "")
	s = strings.ReplaceAll(s, ",}", "}")
	return s
}

func exprString(fset *token.FileSet, e ast.Node) string {
	var sb strings.Builder
	_ = printerFprint(&sb, fset, e)
	return normStmtText(sb.String())
}

// mkContract builds a contract from clause lines ("requires ...", "ensures ...", "modifies ...").
func mkContract(key string, lines ...string) *FuncContract {
	fc := &FuncContract{Key: key, LoopInv: map[int][]*Clause{}, LoopDec: map[int]*Clause{}}
	for _, ln := range lines {
		ln = strings.TrimSpace(ln)
		kw := ln
		if k := strings.IndexAny(ln, " \t[("); k >= 0 {
			kw = ln[:k]
		}
		if err := fc.addClause(&rawDirective{kw: kw, text: strings.TrimSpace(ln[len(kw):])}, "builtin"); err != nil {
			panic(fmt.Sprintf("mkContract %s: %q: %v", key, ln, err))
		}
	}
	return fc
}
