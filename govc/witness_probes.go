package main

// Witness search, part 4: probe grammars. A defect of the parser runtime (the template) shows in every generated
// parser, so the failing obligations of the unit "runtime" are searched on the carrier grammar and on these small
// grammars. They are written so that the situations the runtime contracts talk about occur on short inputs: a rule
// re-entered at the same position (memo replay) after a lookahead, an abandoned optional, an abandoned iteration or a
// failed alternative has overwritten the token slots; captures and actions whose text is observable; failures behind
// multi-byte runes and line breaks (error positions); rules that match the empty string (zero-width tokens, AST).
// Every action has one of the effect forms of witness.go (actionEffect), so Execute and inline actions are observable.
//
// The same grammars are a fallback for a generated-parser unit whose own grammar yields no witness within its share
// of the budget (then the witness says that it is for a probe grammar, not for the unit's grammar).

type probeGrammar struct {
	Name    string
	Text    string
	AstOnly bool // actions read begin/end, which parsers without AST do not declare
}

const probeHeader = "package main\n\ntype P Peg {\n n int\n ok bool\n log []string\n}\n\n"

var probeGrammars = []probeGrammar{
	{Name: "probe-memo", Text: probeHeader + `S <- R 'x' / D 'y' / R 'z' / &D R 'w' / Q? R 'v' / !(R 'q') R 'u' / (R 't')* R 's' / E
R <- A B
A <- <'a'> {p.log = append(p.log, "A:" + text)}
B <- 'b'+
D <- 'a' 'b'
Q <- A 'b' 'k'
E <- (A / B)* ';' !.
`},
	{Name: "probe-text", Text: probeHeader + `Doc <- Line+ !.
Line <- Item (',' Item)* ';' '\n'?
Item <- Tag? <[a-z]+> {p.log = append(p.log, "item:" + text)} Num?
Tag <- ('é' / '→' / '#') {p.log = append(p.log, "tag:" + text)}
Num <- <[0-9]+> {p.n += len(text)} / '(' <.> ')' {p.log = append(p.log, "any:" + text)}
`},
	{Name: "probe-lookahead", Text: probeHeader + `S <- (Kw / Id / Real / Int / Sp)+ !.
Kw <- <'if'> !(<[a-z]> 'x') !(Mark [a-z]) {p.log = append(p.log, "kw:" + text)}
Id <- !(Kw ![a-z]) <[a-z]+> {p.log = append(p.log, "id:" + text)}
Real <- <[0-9]+> !(<'.' [0-9]+> 'e') '.' [0-9]* {p.log = append(p.log, "real:" + text)}
Int <- <[0-9]+> &(Mark / !.) {p.log = append(p.log, "int:" + text)}
Mark <- <';'> {p.log = append(p.log, "mark:" + text)}
Sp <- ' ' / Mark
`},
	{Name: "probe-positions", AstOnly: true, Text: probeHeader + `S <- (W / N)* E?
W <- <[a-zé]+> {p.log = append(p.log, fmt.Sprint("w", begin, end, text))}
N <- '\n' / ' '
E <- Z '!' W Z
Z <- <'z'*> {p.log = append(p.log, fmt.Sprint("z", begin, end, text))}
`},
}
