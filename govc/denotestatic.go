package main

// Property C10, part 4, layer B: case sensitivity and negation over ALL derivations (see the header of denote.go).
//
// The documentation fixes the delimiters: 'single quotes' and [single brackets] are case-sensitive, "double quotes" and
// [[double brackets]] are case-insensitive, a caret right after the opening bracket(s) negates. A REGION is the part of a
// sequence of peg.peg between an opening and the next closing delimiter. The regions are interpreted abstractly, over every
// derivation (repetition as a fixpoint, rule references followed, lookaheads not executed), with the builder instructions
// read off the contracts (bshape, denote.go). The abstract state of a derivation:
//
//   stack     for every operand pushed inside the region: "" or the reason why it may match ONE CASE ONLY. Such an operand
//             comes from a character leaf built from captured text that can be an ASCII letter, or from the case-sensitive
//             range builder; it is passed on by the list and prefix/suffix builders; the two-case range builder consumes its
//             two operands, whatever they are, and pushes an operand that is not of that kind. Characters built from a
//             constant or from a numeric escape denote exactly their code point and are not of that kind.
//   capLetter whether the last capture completed can hold an ASCII letter. For a capture of one character this uses what is
//             known about the next character from ordered choice (an earlier alternative that is certain to succeed on a
//             character excludes it from the later ones) and from negative lookaheads: this is what makes the catch-all
//             alternative `!'\\' <.>` of the case-insensitive character rule harmless AFTER the alternative for [a-zA-Z].
//   caret     the derivation began by consuming '^'
//   neg       how much of the negation suffix (not-predicate, dot, sequence) has run: 0 none, 1, 2, 3 complete, -1 out of place
//   ci        the first call of a two-case builder (witness), if any
//
// Obligations: inside ' ' and [ ] no two-case builder is reachable; at the end of " " and [[ ]] no operand is one-case;
// in [ ] and [[ ]] a derivation with the caret ends with the complete negation suffix, one without it runs none of it.

import (
	"fmt"
	"strings"
)

type aset [128]bool // a set of ASCII characters

func (a aset) union(b aset) aset {
	for i := range a {
		a[i] = a[i] || b[i]
	}
	return a
}

func (a aset) minus(b aset) aset {
	for i := range a {
		a[i] = a[i] && !b[i]
	}
	return a
}

func (a aset) letter() (byte, bool) {
	for c := byte('A'); c <= 'z'; c++ {
		if isLetter(rune(c)) && a[c] {
			return c, true
		}
	}
	return 0, false
}

func fullSet() aset {
	var a aset
	for i := range a {
		a[i] = true
	}
	return a
}

// termSet: the ASCII characters matched by an expression that always consumes exactly one character
func termSet(n *PNode) (aset, bool) {
	var s aset
	switch n.TypeName {
	case "Character":
		rs := []rune(n.Str)
		if len(rs) != 1 {
			return s, false
		}
		if rs[0] < 128 {
			s[rs[0]] = true
		}
		return s, true
	case "Dot":
		return fullSet(), true
	case "Range":
		if len(n.Kids) != 2 {
			return s, false
		}
		lo, hi := []rune(n.Kids[0].Str), []rune(n.Kids[1].Str)
		if len(lo) != 1 || len(hi) != 1 {
			return s, false
		}
		for c := lo[0]; c <= hi[0] && c < 128; c++ {
			s[c] = true
		}
		return s, true
	case "Alternate":
		for _, k := range n.Kids {
			ks, ok := termSet(k)
			if !ok {
				return s, false
			}
			s = s.union(ks)
		}
		return s, len(n.Kids) > 0
	}
	return s, false
}

type staticInterp struct {
	rules  map[string]*PNode
	shapes map[string]bshape
	active map[string]bool
	errs   []string
}

func (si *staticInterp) errorf(format string, a ...any) {
	msg := fmt.Sprintf(format, a...)
	for _, e := range si.errs {
		if e == msg {
			return
		}
	}
	si.errs = append(si.errs, msg)
}

// cannotFail: the expression succeeds on every input (and records no failure of the sequence it stands in)
func cannotFail(n *PNode) bool {
	switch n.TypeName {
	case "Action", "Nil", "Query", "Star":
		return true
	case "Push":
		return cannotFail(n.Kids[0])
	}
	return false
}

// sure: characters c such that the expression is certain to succeed when the next character is c (an under-approximation)
func (si *staticInterp) sure(n *PNode, depth int) aset {
	var none aset
	if depth > 8 {
		return none
	}
	if s, ok := termSet(n); ok {
		return s
	}
	switch n.TypeName {
	case "Push":
		return si.sure(n.Kids[0], depth)
	case "Name":
		if b := si.rules[n.Str]; b != nil {
			return si.sure(b, depth+1)
		}
	case "Alternate":
		s := none
		for _, k := range n.Kids {
			s = s.union(si.sure(k, depth))
		}
		return s
	case "Sequence":
		// lookaheads on one character, then one consuming item, then only items that cannot fail
		s, found := fullSet(), false
		for _, k := range n.Kids {
			switch {
			case !found && k.TypeName == "PeekNot":
				ex, ok := termSet(k.Kids[0])
				if !ok {
					return none
				}
				s = s.minus(ex)
			case cannotFail(k):
			case !found:
				ks := si.sure(k, depth)
				for i := range s {
					s[i] = s[i] && ks[i]
				}
				found = true
			default:
				return none
			}
		}
		if found {
			return s
		}
	}
	return none
}

// charsOf: the ASCII characters that can occur in the text matched by n (an over-approximation)
func (si *staticInterp) charsOf(n *PNode, seen map[string]bool) aset {
	if s, ok := termSet(n); ok {
		return s
	}
	var s aset
	switch n.TypeName {
	case "PeekFor", "PeekNot", "Action", "Nil":
		return s
	case "Character", "String":
		for _, r := range n.Str {
			if r < 128 {
				s[r] = true
			}
		}
		return s
	case "Name":
		if seen[n.Str] {
			return s
		}
		seen[n.Str] = true
		if b := si.rules[n.Str]; b != nil {
			return si.charsOf(b, seen)
		}
		return fullSet()
	}
	for _, k := range n.Kids {
		s = s.union(si.charsOf(k, seen))
	}
	return s
}

// rstate: the abstract state of a derivation inside a region (see the header)
type rstate struct {
	stack     []string
	capLetter string
	atStart   bool
	caret     bool
	neg       int
	negAt     string
	ci        string
	bad       string
}

func (s rstate) key() string {
	var sb strings.Builder
	for _, v := range s.stack {
		if v == "" {
			sb.WriteByte('c')
		} else {
			sb.WriteByte('S')
		}
	}
	fmt.Fprintf(&sb, "|%v|%v|%v|%d|%v|%v", s.capLetter != "", s.atStart, s.caret, s.neg, s.ci != "", s.bad != "")
	return sb.String()
}

func (s rstate) clone() rstate {
	s.stack = append([]string{}, s.stack...)
	return s
}

func dedupStates(ss []rstate) []rstate {
	seen := map[string]bool{}
	var out []rstate
	for _, s := range ss {
		if k := s.key(); !seen[k] {
			seen[k] = true
			out = append(out, s)
		}
	}
	return out
}

func (s *rstate) pop(path string) string {
	if len(s.stack) == 0 {
		if s.bad == "" {
			s.bad = path + ": uses an operand pushed before the opening delimiter"
		}
		return ""
	}
	v := s.stack[len(s.stack)-1]
	s.stack = s.stack[:len(s.stack)-1]
	return v
}

// step of the negation suffix: P not-predicate, D dot, S sequence, x anything else
func (s *rstate) negStep(sym byte, at string) {
	switch {
	case s.neg == 0 && (sym == 'x' || sym == 'S'):
		return
	case s.neg == 0 && sym == 'P':
		s.neg = 1
	case s.neg == 1 && sym == 'D':
		s.neg = 2
	case s.neg == 2 && sym == 'S':
		s.neg = 3
	case s.neg >= 0:
		s.neg = -1
	default:
		return
	}
	s.negAt = at
}

// call: the effect of one builder call on the abstract state
func (si *staticInterp) call(s rstate, c bcall, path string) rstate {
	s = s.clone()
	sh, ok := si.shapes[c.Method]
	at := path + " {" + c.Method + "}"
	if !ok {
		if s.bad == "" {
			s.bad = at + ": no shape"
		}
		return s
	}
	sym := byte('x')
	switch sh.Kind {
	case "leaf":
		why := ""
		if sh.Type == "Character" {
			switch {
			case sh.Arg == "const" || !c.UseText:
				t := sh.Const
				if sh.Arg != "const" {
					t = c.Const
				}
				for _, r := range t {
					if isLetter(r) {
						why = fmt.Sprintf("%s: the constant %q is a letter in one case", at, t)
					}
				}
			case s.capLetter != "":
				why = at + ": a character built from captured text that can be an ASCII letter (" + s.capLetter + ")"
			}
		}
		if sh.Type == "Dot" {
			sym = 'D'
		}
		s.stack = append(s.stack, why)
	case "num":
		s.stack = append(s.stack, "")
	case "dchar":
		s.stack = append(s.stack, "")
		if s.ci == "" {
			s.ci = at
		}
	case "drange":
		s.pop(at)
		s.pop(at)
		s.stack = append(s.stack, "")
		if s.ci == "" {
			s.ci = at
		}
	case "fix":
		v := s.pop(at)
		s.stack = append(s.stack, v)
		if sh.Type == "PeekNot" {
			sym = 'P'
		}
	case "list":
		a := s.pop(at)
		b := s.pop(at)
		v := b
		if v == "" {
			v = a
		}
		if sh.Type == "Range" {
			v = at + ": a range built by the case-sensitive range builder"
			if b != "" {
				v += " from [" + b + "]"
			}
		}
		if sh.Type == "Sequence" {
			sym = 'S'
		}
		s.stack = append(s.stack, v)
	default:
		if s.bad == "" {
			s.bad = at + ": a " + sh.Kind + " builder inside a delimited construct"
		}
	}
	s.negStep(sym, at)
	return s
}

func (si *staticInterp) eval(n *PNode, in []rstate, excl aset, path string) []rstate {
	consume := func(caret bool) []rstate {
		out := make([]rstate, len(in))
		for i, s := range in {
			if s.atStart && caret {
				s.caret = true
			}
			s.atStart = false
			out[i] = s
		}
		return dedupStates(out)
	}
	switch n.TypeName {
	case "Character", "String":
		return consume(n.Str == "^")
	case "Dot", "Range":
		return consume(false)
	case "Nil", "PeekFor", "PeekNot":
		return in // what a lookahead builds is discarded
	case "Predicate", "StateChange", "Commit":
		return in
	case "Action":
		cs, err := parseAction(n.Str)
		if err != nil {
			si.errorf("%s", err.Error())
			return in
		}
		out := in
		for _, c := range cs {
			next := make([]rstate, len(out))
			for i, s := range out {
				next[i] = si.call(s, c, path)
			}
			out = next
		}
		return dedupStates(out)
	case "Name":
		body := si.rules[n.Str]
		if body == nil {
			si.errorf("rule %s is not defined", n.Str)
			return in
		}
		if si.active[n.Str] {
			si.errorf("%s: the rule %s is recursive inside a delimited construct: not understood", path, n.Str)
			return in
		}
		si.active[n.Str] = true
		out := si.eval(body, in, excl, path+" -> "+n.Str)
		delete(si.active, n.Str)
		return out
	case "Sequence":
		cur, ex := in, excl
		for _, k := range n.Kids {
			cur = si.eval(k, cur, ex, path)
			switch k.TypeName {
			case "PeekNot":
				if s, ok := termSet(k.Kids[0]); ok {
					ex = ex.union(s)
				}
			case "PeekFor", "Action", "Nil":
			default:
				ex = aset{}
			}
		}
		return cur
	case "Alternate", "UnorderedAlternate":
		var out []rstate
		ex := excl
		for i, k := range n.Kids {
			out = append(out, si.eval(k, in, ex, fmt.Sprintf("%s[alt %d: %s]", path, i+1, trunc(showPeg(k), 40)))...)
			if n.TypeName == "Alternate" {
				ex = ex.union(si.sure(k, 0))
			}
		}
		return dedupStates(out)
	case "Query":
		return dedupStates(append(append([]rstate{}, in...), si.eval(n.Kids[0], in, excl, path)...))
	case "Star", "Plus":
		first := si.eval(n.Kids[0], in, excl, path)
		acc := dedupStates(first)
		if n.TypeName == "Star" {
			acc = dedupStates(append(append([]rstate{}, in...), first...))
		}
		seen := map[string]bool{}
		for _, s := range acc {
			seen[s.key()] = true
		}
		frontier := dedupStates(first)
		for iter := 0; len(frontier) > 0; iter++ {
			if iter > 16 {
				si.errorf("%s: the repetition %s reaches no fixpoint (the stack grows)", path, trunc(showPeg(n), 40))
				break
			}
			var next []rstate
			for _, s := range si.eval(n.Kids[0], frontier, aset{}, path) {
				if k := s.key(); !seen[k] {
					seen[k] = true
					acc = append(acc, s)
					next = append(next, s)
				}
			}
			frontier = next
		}
		return acc
	case "Push", "ImplicitPush":
		out := si.eval(n.Kids[0], in, excl, path)
		if n.TypeName == "ImplicitPush" {
			return out
		}
		why := ""
		if s, ok := termSet(n.Kids[0]); ok {
			if c, has := s.minus(excl).letter(); has {
				why = fmt.Sprintf("%s <%s> can capture %q", path, showPeg(n.Kids[0]), string(rune(c)))
			}
		} else if c, has := si.charsOf(n.Kids[0], map[string]bool{}).letter(); has {
			why = fmt.Sprintf("%s <%s> can contain %q", path, trunc(showPeg(n.Kids[0]), 40), string(rune(c)))
		}
		res := make([]rstate, len(out))
		for i, s := range out {
			s.capLetter = why
			res[i] = s
		}
		return dedupStates(res)
	}
	si.errorf("node type %s is not understood", n.TypeName)
	return in
}

// region: the items of a sequence of peg.peg between an opening and the next closing delimiter
type region struct {
	Rule  string
	Items []*PNode
}

func allChars(n *PNode) bool {
	if n.TypeName != "Sequence" || len(n.Kids) == 0 {
		return false
	}
	for _, k := range n.Kids {
		if k.TypeName != "Character" {
			return false
		}
	}
	return true
}

// seqItems: the members of a sequence with string literals spelled out as their characters
func seqItems(n *PNode) []*PNode {
	var out []*PNode
	var add func(k *PNode)
	add = func(k *PNode) {
		switch {
		case allChars(k):
			for _, c := range k.Kids {
				add(c)
			}
		case (k.TypeName == "Character" || k.TypeName == "String") && len([]rune(k.Str)) > 1:
			for _, r := range k.Str {
				out = append(out, &PNode{TypeName: "Character", Str: string(r)})
			}
		default:
			out = append(out, k)
		}
	}
	for _, k := range n.Kids {
		add(k)
	}
	return out
}

func findRegions(top []*PNode, open, closing string) []region {
	var out []region
	is := func(items []*PNode, i int, s string) bool {
		for j, r := range []rune(s) {
			if i+j < 0 || i+j >= len(items) || items[i+j].TypeName != "Character" || items[i+j].Str != string(r) {
				return false
			}
		}
		return true
	}
	for _, r := range top {
		if r.TypeName != "Rule" || len(r.Kids) == 0 {
			continue
		}
		collect(r.Kids[0], func(m *PNode) {
			if m.TypeName != "Sequence" || allChars(m) {
				return
			}
			items := seqItems(m)
			for i := 0; i < len(items); i++ {
				if !is(items, i, open) {
					continue
				}
				// a single bracket is not one half of a double bracket
				if len(open) == 1 && open != closing && (is(items, i+1, open) || is(items, i-1, open)) {
					continue
				}
				from := i + len([]rune(open))
				for j := from; j < len(items); j++ {
					if is(items, j, closing) {
						out = append(out, region{Rule: r.Str, Items: items[from:j]})
						i = j + len([]rune(closing)) - 1
						break
					}
				}
			}
		})
	}
	return out
}

// denoteStatic: the obligations of layer B
func denoteStatic(top []*PNode, shapes map[string]bshape) []*Obligation {
	rules := map[string]*PNode{}
	for _, n := range top {
		if n.TypeName == "Rule" && len(n.Kids) > 0 {
			if _, dup := rules[n.Str]; !dup {
				rules[n.Str] = n.Kids[0]
			}
		}
	}
	var obs []*Obligation
	for _, kind := range []struct {
		Key, What, Open, Close string
		Insensitive, Class     bool
	}{
		{"literal.single", "a single-quoted literal", "'", "'", false, false},
		{"literal.double", "a double-quoted literal", `"`, `"`, true, false},
		{"class.single", "a [...] class", "[", "]", false, true},
		{"class.double", "a [[...]] class", "[[", "]]", true, true},
	} {
		var caseBad, negBad, where []string
		building := 0
		for _, rg := range findRegions(top, kind.Open, kind.Close) {
			si := &staticInterp{rules: rules, shapes: shapes, active: map[string]bool{}}
			var txt []string
			for _, it := range rg.Items {
				s := showPeg(it)
				if it.TypeName == "Alternate" || it.TypeName == "Sequence" {
					s = "(" + s + ")"
				}
				txt = append(txt, s)
			}
			ctx := fmt.Sprintf("%s: %s %s %s", rg.Rule, showPeg(&PNode{TypeName: "Character", Str: kind.Open}), trunc(strings.Join(txt, " "), 90), showPeg(&PNode{TypeName: "Character", Str: kind.Close}))
			start := rstate{atStart: true, capLetter: "no capture completed inside the construct"}
			end := si.eval(&PNode{TypeName: "Sequence", Kids: rg.Items}, []rstate{start}, aset{}, rg.Rule)
			builds := false
			for _, s := range end {
				builds = builds || len(s.stack) > 0 || s.ci != "" || s.bad != ""
			}
			if !builds && len(si.errs) == 0 {
				continue // delimiters around something that builds no expression (the path of an import)
			}
			building++
			where = append(where, ctx)
			for _, e := range si.errs {
				caseBad = append(caseBad, ctx+": "+e)
			}
			for _, s := range end {
				if s.bad != "" {
					caseBad = append(caseBad, ctx+": "+s.bad)
				}
				if !kind.Insensitive && s.ci != "" {
					caseBad = append(caseBad, fmt.Sprintf("%s: a case-insensitive builder is reachable inside %s: %s", ctx, kind.What, s.ci))
				}
				if kind.Insensitive {
					for _, v := range s.stack {
						if v != "" {
							caseBad = append(caseBad, fmt.Sprintf("%s: a derivation of %s leaves an operand that matches one case only: %s", ctx, kind.What, v))
						}
					}
				}
				if kind.Class {
					switch {
					case s.neg == -1:
						negBad = append(negBad, fmt.Sprintf("%s: the steps of the negation (not-predicate, dot, sequence) are not run once, in order, as the last builder calls of the derivation: out of place at %s", ctx, s.negAt))
					case s.caret && s.neg != 3:
						negBad = append(negBad, fmt.Sprintf("%s: a derivation that begins with '^' ends with %d of the 3 steps of the negation (not-predicate, dot, sequence)%s", ctx, s.neg, atNote(s)))
					case !s.caret && s.neg != 0:
						negBad = append(negBad, fmt.Sprintf("%s: a derivation without '^' runs steps of the negation%s", ctx, atNote(s)))
					}
				}
			}
		}
		if building == 0 {
			msg := fmt.Sprintf("no sequence of peg.peg has the delimiters '%s' ... '%s' around an expression-building part", kind.Open, kind.Close)
			caseBad, negBad = append(caseBad, msg), append(negBad, msg)
		}
		detail := "every derivation of " + kind.What + " (all of them: abstract interpretation of the part of peg.peg between the delimiters) "
		if kind.Insensitive {
			detail += "builds every character that can be an ASCII letter with the two-case builder and every range with the two-case range builder: no operand that matches one case only is left when the closing delimiter is reached"
		} else {
			detail += "reaches no case-insensitive builder (one whose contract builds lower(..) / upper(..))"
		}
		obs = append(obs, textObligation("denote.case."+kind.Key, detail+" ["+strings.Join(where, "; ")+"]", len(caseBad) == 0, firstFew(caseBad, 2)))
		if kind.Class {
			obs = append(obs, textObligation("denote.negation."+kind.Key, "every derivation of "+kind.What+" that begins with '^' runs the not-predicate, dot and sequence builders exactly once, in this order, as its last builder calls (so they apply to the whole class), and a derivation without '^' runs none of them",
				len(negBad) == 0, firstFew(negBad, 2)))
		}
	}
	return obs
}

func atNote(s rstate) string {
	if s.negAt == "" {
		return ""
	}
	return " (last step at " + s.negAt + ")"
}

// firstFew: the first n distinct witnesses and how many more there are
func firstFew(ss []string, n int) string {
	u := uniqueStrings(ss)
	if len(u) <= n {
		return strings.Join(u, "; ")
	}
	return strings.Join(u[:n], "; ") + fmt.Sprintf("; and %d more", len(u)-n)
}

func uniqueStrings(ss []string) []string {
	seen := map[string]bool{}
	var out []string
	for _, s := range ss {
		if !seen[s] {
			seen[s] = true
			out = append(out, s)
		}
	}
	return out
}
