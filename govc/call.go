package main

// Calls: Go builtins, conversions, contract-only forms, and calls of contracted functions.

import (
	"fmt"
	"go/ast"
	"go/token"
	"go/types"
	"strings"
)

// CalleeSpec is what a caller knows about a callee: its contract and how names bind.
type CalleeSpec struct {
	Key      string
	FC       *FuncContract
	Params   []string     // names, receiver first
	ParamTys []types.Type // same order
	Results  []types.Type
	ResNames []string  // names of named results ("" = unnamed): bound to the call's results in the callee's ensures
	ScopePos token.Pos // where free names of the contract are resolved
	Inout0   bool      // first param is a pointer to a value struct passed in-out
	NoReturn bool
	Trusted  bool
	ExtraEnv map[string]TV // ghost arguments
}

// ExtSpec: assumed contract of a function outside the verified packages.
type ExtSpec struct {
	Key      string
	NoReturn bool
	Contract *FuncContract // may be nil: results are unconstrained (except type facts), nothing is modified
	Params   []string
}

func (fv *FV) callStmt(call *ast.CallExpr, cx *Cx) {
	fv.call(call, cx)
}

func (fv *FV) call(call *ast.CallExpr, cx *Cx) []TV {
	u := fv.u
	// contract-only forms and preds
	if cx.contract {
		if id, ok := call.Fun.(*ast.Ident); ok {
			if r, ok := fv.contractCall(id.Name, call, cx); ok {
				return []TV{r}
			}
		}
	}
	// conversion?
	if !cx.contract {
		if tv, ok := u.Info.Types[call.Fun]; ok && tv.IsType() {
			return []TV{fv.convert(tv.Type, call.Args[0], call, cx)}
		}
	}
	// builtin?
	if id, ok := unparen(call.Fun).(*ast.Ident); ok {
		isBuiltin := cx.contract
		if !cx.contract {
			_, isBuiltin = u.Info.Uses[id].(*types.Builtin)
		}
		if isBuiltin {
			if r, ok := fv.builtin(id.Name, call, cx); ok {
				return r
			}
		}
	}
	if cx.contract {
		panic(refuse("call %s in a contract", exprText(call.Fun)))
	}
	return fv.contractedCall(call, cx)
}

func (fv *FV) builtin(name string, call *ast.CallExpr, cx *Cx) ([]TV, bool) {
	u := fv.u
	one := func(t TV) ([]TV, bool) { return []TV{t}, true }
	switch name {
	case "len", "cap":
		a := fv.expr(call.Args[0], cx)
		switch {
		case a.S == "Slice":
			return one(TV{T: sx("sl_"+name, a.T), Ty: tInt, S: SInt})
		case a.S == SStr:
			return one(TV{T: sx("str_len", a.T), Ty: tInt, S: SInt})
		}
		if a.Ty != nil {
			if at, ok := a.Ty.Underlying().(*types.Array); ok {
				return one(TV{T: num(at.Len()), Ty: tInt, S: SInt})
			}
			if p, ok := a.Ty.Underlying().(*types.Pointer); ok {
				if at, ok := p.Elem().Underlying().(*types.Array); ok {
					return one(TV{T: num(at.Len()), Ty: tInt, S: SInt})
				}
			}
			if mt, ok := a.Ty.Underlying().(*types.Map); ok {
				_ = mt
				panic(refuse("len of map"))
			}
		}
		panic(refuse("len of %v", a.Ty))
	case "min", "max":
		a := fv.expr(call.Args[0], cx)
		for _, e := range call.Args[1:] {
			b := fv.expr(e, cx)
			if name == "min" {
				a = TV{T: ite(sx("<=", a.T, b.T), a.T, b.T), Ty: a.Ty, S: SInt}
			} else {
				a = TV{T: ite(sx(">=", a.T, b.T), a.T, b.T), Ty: a.Ty, S: SInt}
			}
		}
		return one(a)
	case "append":
		if cx.contract {
			return nil, false
		}
		return one(fv.appendCall(call, cx))
	case "make":
		if cx.contract {
			return nil, false
		}
		ty := u.Info.TypeOf(call)
		switch t := ty.Underlying().(type) {
		case *types.Slice:
			es := u.sortOf(t.Elem())
			n := fv.expr(call.Args[1], cx)
			c := n
			if len(call.Args) > 2 {
				c = fv.expr(call.Args[2], cx)
			}
			fv.safety(cx.st, and(sx("<=", "0", n.T), sx("<=", n.T, c.T)), "make: 0 <= len <= cap", call.Pos(), cx)
			base := fv.alloc(cx.st)
			cs := arr(SInt, arr(SInt, es))
			e := fv.get(cx.st, "E!"+string(es), cs)
			fv.set(cx.st, "E!"+string(es), cs, sto(e, base, sx("(as const "+string(arr(SInt, es))+")", u.zeroSort(es))))
			return one(TV{T: sx("mk_Slice", base, "0", n.T, c.T), Ty: ty, S: "Slice"})
		case *types.Map:
			ks, vs := u.sortOf(t.Key()), u.sortOf(t.Elem())
			cell := u.mapCell(t)
			ref := fv.alloc(cx.st)
			ds := arr(SInt, arr(ks, SBool))
			dom := fv.get(cx.st, "MD!"+cell, ds)
			fv.get(cx.st, "MV!"+cell, arr(SInt, arr(ks, vs)))
			fv.set(cx.st, "MD!"+cell, ds, sto(dom, ref, sx("(as const "+string(arr(ks, SBool))+")", "false")))
			return one(TV{T: ref, Ty: ty, S: SInt})
		}
		panic(refuse("make(%v)", ty))
	case "new":
		if cx.contract {
			return nil, false
		}
		ty := u.Info.TypeOf(call).(*types.Pointer).Elem()
		if !u.isHeapStruct(ty) {
			panic(refuse("new(%v)", ty))
		}
		r := fv.alloc(cx.st)
		fv.zeroObject(r, ty, cx)
		return one(TV{T: r, Ty: types.NewPointer(ty), S: SInt})
	case "panic":
		if cx.contract {
			return nil, false
		}
		return []TV{}, true
	}
	return nil, false
}

func (fv *FV) appendCall(call *ast.CallExpr, cx *Cx) TV {
	u := fv.u
	s := fv.expr(call.Args[0], cx)
	st, ok := types.Unalias(u.Info.TypeOf(call)).Underlying().(*types.Slice)
	if !ok {
		panic(refuse("append to %v", s.Ty))
	}
	es := u.sortOf(st.Elem())
	cs := arr(SInt, arr(SInt, es))
	cell := "E!" + string(es)
	base, off, ln, cp := sx("sl_base", s.T), sx("sl_off", s.T), sx("sl_len", s.T), sx("sl_cap", s.T)
	if call.Ellipsis.IsValid() {
		// append(s, t...): all elements of t
		t := fv.expr(call.Args[1], cx)
		tb, to, tl := sx("sl_base", t.T), sx("sl_off", t.T), sx("sl_len", t.T)
		e := fv.get(cx.st, cell, cs)
		newLen := sx("+", ln, tl)
		fits := sx("<=", newLen, cp)
		nb := fv.alloc(cx.st)
		ncap := fv.decl(fv.fresh("newcap"), SInt)
		fv.assume(cx.st, sx(">=", ncap, newLen))
		// in place: A1[off+len+j] = E[tb][to+j] for 0<=j<tl, other indices unchanged
		a1 := fv.decl(fv.fresh("arr"), arr(SInt, es))
		src := sel(e, tb)
		dst := sel(e, base)
		fv.assume(cx.st, fmt.Sprintf("(forall ((j! Int)) (! (= (select %s j!) (ite (and (<= (+ %s %s) j!) (< j! (+ %s %s))) (select %s (+ %s (- j! (+ %s %s)))) (select %s j!))) :pattern ((select %s j!))))",
			a1, off, ln, off, newLen, src, to, off, ln, dst, a1))
		// fresh: A2[j] = E[base][off+j] for j<len, E[tb][to+j-len] for len<=j<newLen
		a2 := fv.decl(fv.fresh("arr"), arr(SInt, es))
		fv.assume(cx.st, fmt.Sprintf("(forall ((j! Int)) (! (=> (and (<= 0 j!) (< j! %s)) (= (select %s j!) (ite (< j! %s) (select %s (+ %s j!)) (select %s (+ %s (- j! %s)))))) :pattern ((select %s j!))))",
			newLen, a2, ln, dst, off, src, to, ln, a2))
		// one store at the (case-dependent) base of the case-dependent contents: select(E', base') is ares directly
		ares := fv.decl(fv.fresh("arr"), arr(SInt, es))
		rbase := fv.decl(fv.fresh("base"), SInt)
		fv.emit(fmt.Sprintf("(assert (= %s %s))", ares, ite(fits, a1, a2)))
		fv.emit(fmt.Sprintf("(assert (= %s %s))", rbase, ite(fits, base, nb)))
		fv.set(cx.st, cell, cs, sto(e, rbase, ares))
		return TV{T: sx("mk_Slice", rbase, ite(fits, off, "0"), newLen, ite(fits, cp, ncap)), Ty: s.Ty, S: "Slice"}
	}
	cur := s.T
	for _, a := range call.Args[1:] {
		v := fv.expr(a, cx)
		base, off, ln, cp = sx("sl_base", cur), sx("sl_off", cur), sx("sl_len", cur), sx("sl_cap", cur)
		e := fv.get(cx.st, cell, cs)
		fits := sx("<", ln, cp)
		nb := fv.alloc(cx.st)
		ncap := fv.decl(fv.fresh("newcap"), SInt)
		fv.assume(cx.st, sx(">", ncap, ln))
		a2 := fv.decl(fv.fresh("arr"), arr(SInt, es))
		dst := sel(e, base)
		fv.assume(cx.st, fmt.Sprintf("(forall ((j! Int)) (! (=> (and (<= 0 j!) (< j! %s)) (= (select %s j!) (select %s (+ %s j!)))) :pattern ((select %s j!))))",
			ln, a2, dst, off, a2))
		fv.set(cx.st, cell, cs, ite(fits, sto(e, base, sto(dst, sx("+", off, ln), v.T)), sto(e, nb, sto(a2, ln, v.T))))
		nv := fv.decl(fv.fresh("slice"), "Slice")
		fv.emit(fmt.Sprintf("(assert (= %s %s))", nv, ite(fits, sx("mk_Slice", base, off, sx("+", ln, "1"), cp), sx("mk_Slice", nb, "0", sx("+", ln, "1"), ncap))))
		cur = nv
	}
	return TV{T: cur, Ty: s.Ty, S: "Slice"}
}

func (fv *FV) convert(to types.Type, arg ast.Expr, call *ast.CallExpr, cx *Cx) TV {
	u := fv.u
	a := fv.expr(arg, cx)
	from := u.Info.TypeOf(arg)
	ts := u.sortOf(to)
	switch {
	case ts == SInt && a.S == SInt:
		// integer (or pointer/func) conversion
		if lo, hi, ok := u.intRange(to); ok {
			if flo, fhi, ok2 := u.intRange(from); !ok2 || flo != lo || fhi != hi {
				if !isUntyped(from) || true {
					if cx.overflow {
						if !(ok2 && rangeWithin(flo, fhi, lo, hi)) {
							fv.oblige(cx.st, "overflow", fmt.Sprintf("overflow[%d]", fv.ordinal("overflow")), and(sx("<=", lo, a.T), sx("<=", a.T, hi)),
								"conversion to "+to.String()+" preserves the value", call.Pos(), cx)
						}
					} else {
						u.Assumptions["machine arithmetic treated as mathematical in "+fv.fn.Key] = true
					}
				}
			}
		}
		return TV{T: a.T, Ty: to, S: SInt}
	case ts == SStr && a.S == "Slice":
		// string([]rune)
		es := u.sortOf(from.Underlying().(*types.Slice).Elem())
		e := fv.get(cx.st, "E!"+string(es), arr(SInt, arr(SInt, es)))
		return TV{T: sx("str_of_runes", sel(e, sx("sl_base", a.T)), sx("sl_off", a.T), sx("sl_len", a.T)), Ty: to, S: SStr}
	case ts == SStr && a.S == SInt:
		return TV{T: sx("str_of_rune", a.T), Ty: to, S: SStr}
	case ts == "Slice" && a.S == SStr:
		// []rune(string): fresh slice holding the runes
		base := fv.alloc(cx.st)
		cs := arr(SInt, arr(SInt, SInt))
		e := fv.get(cx.st, "E!Int", cs)
		fv.set(cx.st, "E!Int", cs, sto(e, base, sx("str_runes", a.T)))
		n := sx("str_rlen", a.T)
		ncap := fv.decl(fv.fresh("newcap"), SInt)
		fv.assume(cx.st, sx(">=", ncap, n))
		u.Assumptions["[]rune(string) yields valid code points (never 0x110000); len is the rune count"] = true
		return TV{T: sx("mk_Slice", base, "0", n, ncap), Ty: to, S: "Slice"}
	case ts == a.S:
		return TV{T: a.T, Ty: to, S: ts}
	}
	panic(refuse("conversion %v -> %v", from, to))
}

func rangeWithin(flo, fhi, lo, hi string) bool {
	// only the cases that matter: identical, or unsigned-into-wider
	if flo == lo && fhi == hi {
		return true
	}
	order := map[string]int{"255": 1, "65535": 2, "4294967295": 3, "18446744073709551615": 5, "127": 0, "32767": 1, "2147483647": 3, "9223372036854775807": 4}
	if flo == "0" && (lo == "0" || strings.HasPrefix(lo, "(-")) {
		a, ok1 := order[fhi]
		b, ok2 := order[hi]
		return ok1 && ok2 && a <= b
	}
	return false
}

// ---------------------------------------------------------------------------------------------
// contract-only forms

func (fv *FV) contractCall(name string, call *ast.CallExpr, cx *Cx) (TV, bool) {
	u := fv.u
	b := func(t string) (TV, bool) { return TV{T: t, Ty: tBool, S: SBool}, true }
	switch name {
	case "old":
		return fv.expr(call.Args[0], cx.with(func(c *Cx) { c.inOld = true; c.st = c.old })), true
	case "entry":
		if cx.loopIn == nil {
			panic(refuse("entry() outside a loop invariant"))
		}
		return fv.expr(call.Args[0], cx.with(func(c *Cx) { c.st = c.loopIn })), true
	case "imp":
		return b(imp(fv.expr(call.Args[0], cx).T, fv.expr(call.Args[1], cx).T))
	case "iff":
		return b(eq(fv.expr(call.Args[0], cx).T, fv.expr(call.Args[1], cx).T))
	case "ite":
		c := fv.expr(call.Args[0], cx)
		x := fv.expr(call.Args[1], cx)
		y := fv.expr(call.Args[2], cx)
		return TV{T: ite(c.T, x.T, y.T), Ty: x.Ty, S: x.S}, true
	case "forall", "exists":
		env := map[string]TV{}
		for k, v := range cx.env {
			env[k] = v
		}
		var binds []string
		var trig []string
		c2 := cx.with(func(c *Cx) { c.env = env })
		for _, a := range call.Args[:len(call.Args)-1] {
			if tc, ok := a.(*ast.CallExpr); ok {
				if id, ok := tc.Fun.(*ast.Ident); ok && id.Name == "trig" {
					for _, te := range tc.Args {
						trig = append(trig, fv.expr(te, c2).T)
					}
					continue
				}
			}
			n, ty := fv.binder(a)
			if n == "" {
				panic(refuse("bad binder %s", exprText(a)))
			}
			fv.n++
			q := sym(fmt.Sprintf("%s!q%d", n, fv.n))
			qs := SInt
			if ty != nil {
				qs = u.sortOf(ty)
			}
			env[n] = TV{T: q, Ty: ty, S: qs}
			binds = append(binds, fmt.Sprintf("(%s %s)", q, qs))
		}
		body := fv.expr(call.Args[len(call.Args)-1], c2).T
		if len(trig) > 0 {
			body = fmt.Sprintf("(! %s :pattern (%s))", body, strings.Join(trig, " "))
		}
		return b(fmt.Sprintf("(%s (%s) %s)", name, strings.Join(binds, " "), body))
	case "in":
		x := fv.expr(call.Args[0], cx)
		s := fv.expr(call.Args[1], cx)
		return b(sel(s.T, x.T))
	case "add", "remove":
		s := fv.expr(call.Args[0], cx)
		x := fv.expr(call.Args[1], cx)
		v := "true"
		if name == "remove" {
			v = "false"
		}
		return TV{T: sto(s.T, x.T, v), S: s.S}, true
	case "put":
		m := fv.expr(call.Args[0], cx)
		k := fv.expr(call.Args[1], cx)
		v := fv.expr(call.Args[2], cx)
		return TV{T: sto(m.T, k.T, v.T), S: m.S, Ty: m.Ty}, true
	case "at":
		m := fv.expr(call.Args[0], cx)
		k := fv.expr(call.Args[1], cx)
		var ty types.Type = tInt
		if len(call.Args) > 2 {
			_, ty = fv.binder(&ast.BinaryExpr{X: ast.NewIdent("x"), Op: token.MUL, Y: call.Args[2]})
		}
		if strings.HasPrefix(string(m.S), "(Array ") {
			if _, vs := splitArraySort(m.S); vs != SInt {
				return TV{T: sel(m.T, k.T), S: vs}, true // map to a non-integer sort (strmap)
			}
		}
		return TV{T: sel(m.T, k.T), S: SInt, Ty: ty}, true
	case "elems":
		x := fv.expr(call.Args[0], cx)
		st, ok := types.Unalias(x.Ty).Underlying().(*types.Slice)
		if !ok {
			panic(refuse("elems of %v", x.Ty))
		}
		es := u.sortOf(st.Elem())
		e := fv.get(cx.st, "E!"+string(es), arr(SInt, arr(SInt, es)))
		return TV{T: sel(e, sx("sl_base", x.T)), S: arr(SInt, es)}, true
	case "soff", "sbase", "scap":
		x := fv.expr(call.Args[0], cx)
		return TV{T: sx("sl_"+name[1:], x.T), S: SInt, Ty: tInt}, true
	case "mk":
		// mk(TypeName, args...): value of a value-struct type
		tn := call.Args[0].(*ast.Ident).Name
		obj, ok := u.Pkg.Types.Scope().Lookup(tn).(*types.TypeName)
		if !ok {
			panic(refuse("mk: unknown type %s", tn))
		}
		s := u.sortOf(obj.Type())
		var args []string
		for _, a := range call.Args[1:] {
			args = append(args, fv.expr(a, cx).T)
		}
		return TV{T: sx("mk_"+tn, args...), S: s, Ty: obj.Type()}, true
	case "mapHas", "mapGet":
		m := fv.expr(call.Args[0], cx)
		k := fv.expr(call.Args[1], cx)
		mt, ok := types.Unalias(m.Ty).Underlying().(*types.Map)
		if !ok {
			panic(refuse("%s on %v", name, m.Ty))
		}
		cell := u.mapCell(mt)
		ks, vs := u.sortOf(mt.Key()), u.sortOf(mt.Elem())
		if name == "mapHas" {
			dom := fv.get(cx.st, "MD!"+cell, arr(SInt, arr(ks, SBool)))
			return b(sel(sel(dom, m.T), k.T))
		}
		val := fv.get(cx.st, "MV!"+cell, arr(SInt, arr(ks, vs)))
		return TV{T: sel(sel(val, m.T), k.T), S: vs, Ty: mt.Elem()}, true
	case "mapHasIn", "mapGetIn":
		// mapHasIn("K!V", m, k) / mapGetIn("K!V", m, k, ValueType): map cells named explicitly (m is a plain reference)
		lit, ok := call.Args[0].(*ast.BasicLit)
		if !ok {
			panic(refuse("%s: first argument must be the cell name string", name))
		}
		kv := strings.Trim(lit.Value, "\"")
		fv.cellForField("MapDom." + kv)
		ks, vs := Sort(kv[:strings.Index(kv, "!")]), Sort(kv[strings.Index(kv, "!")+1:])
		m := fv.expr(call.Args[1], cx)
		k := fv.expr(call.Args[2], cx)
		if name == "mapHasIn" {
			dom := fv.get(cx.st, "MD!"+kv, arr(SInt, arr(ks, SBool)))
			return b(sel(sel(dom, m.T), k.T))
		}
		val := fv.get(cx.st, "MV!"+kv, arr(SInt, arr(ks, vs)))
		var ty types.Type
		if len(call.Args) > 3 {
			if obj, ok := u.Pkg.Types.Scope().Lookup(call.Args[3].(*ast.Ident).Name).(*types.TypeName); ok {
				ty = obj.Type()
			}
		}
		return TV{T: sel(sel(val, m.T), k.T), S: vs, Ty: ty}, true
	case "frameExcept":
		// frameExcept("Cell.name", ref...): every object other than the listed references is as at function entry
		lit, ok := call.Args[0].(*ast.BasicLit)
		if !ok {
			panic(refuse("frameExcept: first argument must be a cell name string"))
		}
		cell := fv.cellForField(strings.Trim(lit.Value, "\""))
		cur := fv.get(cx.st, cell, "")
		old := fv.get(fv.entry, cell, "")
		var ne []string
		for _, a := range call.Args[1:] {
			ne = append(ne, not(eq("r!f", fv.expr(a, cx).T)))
		}
		return b(fmt.Sprintf("(forall ((r!f Int)) (! (=> %s (= %s %s)) :pattern (%s)))", and(ne...), sel(cur, "r!f"), sel(old, "r!f"), sel(cur, "r!f")))
	case "frameOld":
		// frameOld("Cell.name", ref...): every object that was allocated at function entry, other than the listed references,
		// is as at function entry (the shape of the frame obligation of a modifies clause `at r where r == ref`; to be carried
		// through loops whose body calls functions with such a frame)
		lit, ok := call.Args[0].(*ast.BasicLit)
		if !ok {
			panic(refuse("frameOld: first argument must be a cell name string"))
		}
		cell := fv.cellForField(strings.Trim(lit.Value, "\""))
		cur := fv.get(cx.st, cell, "")
		old := fv.get(fv.entry, cell, "")
		lowb := "(< 0 r!f)"
		if strings.HasPrefix(cell, "E!") || strings.HasPrefix(cell, "M") {
			lowb = "(<= 0 r!f)"
		}
		ne := []string{lowb, sx("<", "r!f", fv.get(fv.entry, "alloc", SInt))}
		for _, a := range call.Args[1:] {
			ne = append(ne, not(eq("r!f", fv.expr(a, cx).T)))
		}
		return b(fmt.Sprintf("(forall ((r!f Int)) (! (=> %s (= %s %s)) :pattern (%s)))", and(ne...), sel(cur, "r!f"), sel(old, "r!f"), sel(cur, "r!f")))
	case "as":
		// as(x, TypeName): x viewed as *TypeName (for error/interface values known to hold that type)
		x := fv.expr(call.Args[0], cx)
		tn := call.Args[1].(*ast.Ident).Name
		obj, ok := u.Pkg.Types.Scope().Lookup(tn).(*types.TypeName)
		if !ok {
			panic(refuse("as: unknown type %s", tn))
		}
		return TV{T: x.T, S: SInt, Ty: types.NewPointer(obj.Type())}, true
	case "idx":
		// idx(): index of the enclosing range loop (in a loop invariant)
		rng := cx.rng
		if rng == nil {
			// invariant of a loop nested in a range loop, or a ghost statement in its body: the innermost enclosing range
			// loop. Inside the body the index has already been advanced: the current element is idx() - 1.
			rng = fv.enclosingRange(cx.scopePos)
		}
		if rng == nil {
			panic(refuse("idx() outside a range loop"))
		}
		_, ic := fv.rangeCells(rng)
		return TV{T: fv.get(cx.st, ic, SInt), S: SInt, Ty: tInt}, true
	case "cur":
		// cur(): cursor of the enclosing range loop over a list iterator: the element the next iteration receives (nil: done)
		if cx.rng == nil {
			panic(refuse("cur() outside the invariant of a range loop"))
		}
		li, _, _ := fv.rangeOverList(cx.rng)
		if li == nil {
			panic(refuse("cur() in a range loop that is not over a list iterator"))
		}
		xc, _ := fv.rangeCells(cx.rng)
		var ty types.Type
		if obj := u.lookupTypeName(li.Struct); obj != nil {
			ty = types.NewPointer(obj.Type())
		}
		return TV{T: fv.get(cx.st, xc, SInt), S: SInt, Ty: ty}, true
	case "emptyset":
		return TV{T: "((as const (Array Int Bool)) false)", S: arr(SInt, SBool)}, true
	case "setof":
		// setof(m * Node, cond): fresh set constant with a defining axiom
		n, ty := fv.binder(call.Args[0])
		env := map[string]TV{}
		for k, v := range cx.env {
			env[k] = v
		}
		fv.n++
		q := sym(fmt.Sprintf("%s!q%d", n, fv.n))
		env[n] = TV{T: q, Ty: ty, S: SInt}
		body := fv.expr(call.Args[1], cx.with(func(c *Cx) { c.env = env })).T
		c := fv.decl(fv.fresh("set"), arr(SInt, SBool))
		fv.assume(cx.st, fmt.Sprintf("(forall ((%s Int)) (! (= (select %s %s) %s) :pattern ((select %s %s))))", q, c, q, body, c, q))
		return TV{T: c, S: arr(SInt, SBool)}, true
	case "fresh":
		x := fv.expr(call.Args[0], cx)
		ao := fv.get(cx.old, "alloc", SInt)
		return b(and(sx(">=", x.T, ao), sx("<", x.T, fv.get(cx.st, "alloc", SInt))))
	case "allocated":
		x := fv.expr(call.Args[0], cx)
		return b(and(sx("<", "0", x.T), sx("<", x.T, fv.get(cx.st, "alloc", SInt))))
	case "substr":
		// substr(s, lo, hi): the string made of the runes lo .. hi-1 of s, i.e. string([]rune(s)[lo:hi])
		x := fv.expr(call.Args[0], cx)
		lo := fv.expr(call.Args[1], cx)
		hi := fv.expr(call.Args[2], cx)
		return TV{T: sx("str_of_runes", sx("str_runes", x.T), lo.T, sx("-", hi.T, lo.T)), Ty: types.Typ[types.String], S: SStr}, true
	case "rlen":
		x := fv.expr(call.Args[0], cx)
		return TV{T: sx("str_rlen", x.T), Ty: tInt, S: SInt}, true
	case "runeAt":
		x := fv.expr(call.Args[0], cx)
		i := fv.expr(call.Args[1], cx)
		return TV{T: sel(sx("str_runes", x.T), i.T), Ty: tInt, S: SInt}, true
	case "strSub":
		// strSub(s, lo, hi): the Go substring s[lo:hi]
		x := fv.expr(call.Args[0], cx)
		lo := fv.expr(call.Args[1], cx)
		hi := fv.expr(call.Args[2], cx)
		return TV{T: sx("str_sub", x.T, lo.T, hi.T), Ty: types.Typ[types.String], S: SStr}, true
	case "strOfRune":
		// strOfRune(r): the string that the Go conversion string(rune(r)) yields
		x := fv.expr(call.Args[0], cx)
		return TV{T: sx("str_of_rune", x.T), Ty: types.Typ[types.String], S: SStr}, true
	}
	if pd, ok := u.CS.Preds[name]; ok {
		if len(pd.Params) != len(call.Args) {
			panic(refuse("pred %s: %d arguments, %d wanted", name, len(call.Args), len(pd.Params)))
		}
		env := map[string]TV{}
		for k, v := range cx.env {
			env[k] = v
		}
		for i, p := range pd.Params {
			env[p.Name] = fv.expr(call.Args[i], cx)
		}
		return fv.expr(pd.Body, cx.with(func(c *Cx) { c.env = env })), true
	}
	if sf, ok := u.CS.SpecFuncs[name]; ok {
		var args []string
		for _, a := range call.Args {
			args = append(args, fv.expr(a, cx).T)
		}
		for _, r := range sf.Reads {
			args = append(args, fv.readsCell(r, cx))
		}
		rs := Sort(sf.Result)
		switch sf.Result {
		case "int":
			rs = SInt
		case "bool":
			rs = SBool
		case "set":
			rs = arr(SInt, SBool)
		case "string":
			rs = SStr
		}
		var ty types.Type
		switch rs {
		case SInt:
			ty = tInt
		case SBool:
			ty = tBool
		}
		if sf.ResultTy != nil {
			ty = sf.ResultTy
		}
		return TV{T: sx(sym(name), args...), Ty: ty, S: rs}, true
	}
	return TV{}, false
}

// enclosingRange: the innermost range statement of the function whose body contains pos.
func (fv *FV) enclosingRange(pos token.Pos) *ast.RangeStmt {
	var best *ast.RangeStmt
	if fv.fn == nil || fv.fn.Body == nil || !pos.IsValid() {
		return nil
	}
	ast.Inspect(fv.fn.Body, func(n ast.Node) bool {
		if rs, ok := n.(*ast.RangeStmt); ok && rs.Body.Pos() <= pos && pos <= rs.Body.End() {
			best = rs
		}
		return true
	})
	return best
}

// readsCell gives the current term of a heap cell named as in a modifies clause ("Node.Forward").
func (fv *FV) readsCell(name string, cx *Cx) string {
	switch {
	case strings.HasPrefix(name, "Elems."), strings.HasPrefix(name, "MapDom."), strings.HasPrefix(name, "MapVal."):
		cell := fv.cellForField(name)
		return fv.get(cx.st, cell, fv.u.cellSortByName(name))
	}
	for _, pre := range []string{"H!", "G!"} {
		if s, ok := fv.cellSort[pre+name]; ok {
			return fv.get(cx.st, pre+name, s)
		}
	}
	// resolve the field to learn its sort
	k := strings.Index(name, ".")
	if k > 0 {
		if obj := fv.u.lookupTypeName(name[:k]); obj != nil {
			if st, ok := obj.Type().Underlying().(*types.Struct); ok {
				for i := 0; i < st.NumFields(); i++ {
					if st.Field(i).Name() == name[k+1:] {
						fv.cellType["H!"+name] = st.Field(i).Type()
						return fv.get(cx.st, "H!"+name, arr(SInt, fv.u.sortOf(st.Field(i).Type())))
					}
				}
			}
		}
		if gs, ok := fv.u.CS.GhostFields[name]; ok {
			return fv.get(cx.st, "G!"+name, arr(SInt, ghostSort(gs)))
		}
	}
	panic(refuse("unknown heap cell %s", name))
}

// ---------------------------------------------------------------------------------------------
// calls of contracted functions

func (fv *FV) resolveCallee(call *ast.CallExpr, cx *Cx) (*CalleeSpec, []ast.Expr, ast.Expr) {
	u := fv.u
	if u.Provider != nil {
		if cs := u.Provider(fv, call, cx); cs != nil {
			return cs, call.Args, nil
		}
	}
	fun := unparen(call.Fun)
	if ix, ok := fun.(*ast.IndexExpr); ok {
		if _, isSig := u.Info.TypeOf(ix.X).Underlying().(*types.Signature); isSig {
			fun = unparen(ix.X) // explicit instantiation
		}
	}
	switch f := fun.(type) {
	case *ast.Ident:
		switch o := u.Info.Uses[f].(type) {
		case *types.Func:
			if o.Pkg() == u.Pkg.Types {
				return fv.specForKey(o.Name(), o.Type().(*types.Signature), nil), call.Args, nil
			}
		case *types.Var:
			// closure bound to a local name in the enclosing function
			for outer := fv.fn; outer != nil; outer = outer.Outer {
				key := outer.Name + "." + o.Name()
				if fi, ok := u.Funcs[key]; ok {
					return fv.specForFunc(fi), call.Args, nil
				}
				if outer.Outer != nil {
					key = outer.Outer.Name + "." + o.Name()
					if fi, ok := u.Funcs[key]; ok {
						return fv.specForFunc(fi), call.Args, nil
					}
				}
			}
			// function-typed parameter with a contract keyed "<fn>.<param>"
			if fc, ok := u.CS.Funcs[fv.fn.Key+"."+o.Name()]; ok {
				sig := o.Type().Underlying().(*types.Signature)
				cs := &CalleeSpec{Key: fc.Key, FC: fc, ScopePos: fv.fn.Body.Lbrace + 1}
				for i := 0; i < sig.Params().Len(); i++ {
					cs.Params = append(cs.Params, fmt.Sprintf("arg%d", i))
					cs.ParamTys = append(cs.ParamTys, sig.Params().At(i).Type())
				}
				for i := 0; i < sig.Results().Len(); i++ {
					cs.Results = append(cs.Results, sig.Results().At(i).Type())
				}
				return cs, call.Args, nil
			}
		}
	case *ast.SelectorExpr:
		if id, ok := f.X.(*ast.Ident); ok {
			if pn, isPkg := u.Info.Uses[id].(*types.PkgName); isPkg {
				key := pn.Imported().Path() + "." + f.Sel.Name
				if es, ok := u.TrustedExt[key]; ok {
					return fv.specForExt(es, u.Info.Uses[f.Sel].(*types.Func)), call.Args, nil
				}
				if u.OpaqueExternals {
					u.Assumptions["user code: external call "+key+" treated as opaque (touches no parser state)"] = true
					return fv.specForExt(&ExtSpec{Key: key}, u.Info.Uses[f.Sel].(*types.Func)), call.Args, nil
				}
				panic(refuse("external function %s has no assumed contract", key))
			}
		}
		if sel, ok := u.Info.Selections[f]; ok && sel.Kind() == types.MethodVal {
			fn := sel.Obj().(*types.Func)
			sig := fn.Type().(*types.Signature)
			rt := sig.Recv().Type()
			if p, ok := rt.(*types.Pointer); ok {
				rt = p.Elem()
			}
			if fn.Pkg() == u.Pkg.Types {
				key := typeName(rt) + "." + fn.Name()
				return fv.specForKey(key, sig, sig.Recv()), call.Args, f.X
			}
			key := "(" + fn.Pkg().Path() + "." + typeName(rt) + ")." + fn.Name()
			if typeName(rt) == "" {
				key = "(" + fn.Pkg().Path() + "." + rt.String() + ")." + fn.Name()
			}
			if es, ok := u.TrustedExt[key]; ok {
				cs := fv.specForExt(es, fn)
				return cs, call.Args, f.X
			}
			if u.OpaqueExternals {
				u.Assumptions["user code: external call "+key+" treated as opaque (touches no parser state)"] = true
				return fv.specForExt(&ExtSpec{Key: key}, fn), call.Args, f.X
			}
			panic(refuse("external method %s has no assumed contract", key))
		}
		// field of function type holding a closure of the group (p.reset())
		if fi, ok := u.Funcs[fv.groupName()+"."+f.Sel.Name]; ok {
			return fv.specForFunc(fi), call.Args, nil
		}
	}
	panic(refuse("callee %s cannot be resolved to a contract", exprText(call.Fun)))
}

func (fv *FV) groupName() string {
	if fv.fn.Outer != nil {
		return fv.fn.Outer.Name
	}
	return fv.fn.Name
}

func (fv *FV) specForKey(key string, sig *types.Signature, recv *types.Var) *CalleeSpec {
	fi, ok := fv.u.Funcs[key]
	if !ok {
		panic(refuse("callee %s not found", key))
	}
	return fv.specForFunc(fi)
}

func (fv *FV) specForFunc(fi *FuncInfo) *CalleeSpec {
	u := fv.u
	fc, ok := u.CS.Funcs[fi.Key]
	if !ok {
		panic(refuse("callee %s has no contract", fi.Key))
	}
	cs := &CalleeSpec{Key: fi.Key, FC: fc, ScopePos: fi.Body.Lbrace + 1}
	if fc.Trusted {
		u.Assumptions["trusted contract of "+fi.Key+" (body not verified)"] = true
	}
	if r := fi.Sig.Recv(); r != nil {
		cs.Params = append(cs.Params, r.Name())
		cs.ParamTys = append(cs.ParamTys, r.Type())
		if pt, ok := r.Type().(*types.Pointer); ok {
			if _, isStruct := pt.Elem().Underlying().(*types.Struct); isStruct && !u.isHeapStruct(pt.Elem()) {
				cs.Inout0 = true
			}
		}
	}
	for i := 0; i < fi.Sig.Params().Len(); i++ {
		p := fi.Sig.Params().At(i)
		cs.Params = append(cs.Params, p.Name())
		cs.ParamTys = append(cs.ParamTys, p.Type())
	}
	for i := 0; i < fi.Sig.Results().Len(); i++ {
		cs.Results = append(cs.Results, fi.Sig.Results().At(i).Type())
		cs.ResNames = append(cs.ResNames, fi.Sig.Results().At(i).Name())
	}
	return cs
}

func (fv *FV) specForExt(es *ExtSpec, fn *types.Func) *CalleeSpec {
	sig := fn.Type().(*types.Signature)
	cs := &CalleeSpec{Key: es.Key, FC: es.Contract, NoReturn: es.NoReturn, Trusted: true, ScopePos: fv.fn.Body.Lbrace + 1}
	if cs.FC == nil {
		cs.FC = &FuncContract{Key: es.Key}
	}
	if r := sig.Recv(); r != nil {
		cs.Params = append(cs.Params, "recv")
		cs.ParamTys = append(cs.ParamTys, r.Type())
	}
	for i := 0; i < sig.Params().Len(); i++ {
		n := fmt.Sprintf("arg%d", i)
		if i < len(es.Params) {
			n = es.Params[i]
		}
		cs.Params = append(cs.Params, n)
		cs.ParamTys = append(cs.ParamTys, sig.Params().At(i).Type())
	}
	for i := 0; i < sig.Results().Len(); i++ {
		cs.Results = append(cs.Results, sig.Results().At(i).Type())
	}
	fv.u.Assumptions["assumed contract of external function "+es.Key] = true
	return cs
}

func (fv *FV) contractedCall(call *ast.CallExpr, cx *Cx) []TV {
	u := fv.u
	cs, argExprs, recvExpr := fv.resolveCallee(call, cx)
	st := cx.st
	env := map[string]TV{}
	for k, v := range cs.ExtraEnv {
		env[k] = v
	}
	var recvLoc *Loc
	pi := 0
	if recvExpr != nil {
		if cs.Inout0 {
			recvLoc = fv.recvLocation(recvExpr, call, cx)
			cur := fv.read(recvLoc, cx)
			env[cs.Params[0]] = TV{T: cur, OldT: cur, Ty: cs.ParamTys[0], S: recvLoc.sort}
		} else {
			r := fv.recvValue(recvExpr, call, cx)
			env[cs.Params[0]] = r
		}
		pi = 1
	}
	sigVariadic := false
	if t, ok := u.Info.TypeOf(call.Fun).(*types.Signature); ok {
		sigVariadic = t.Variadic()
	}
	nFixed := len(cs.Params) - pi
	if sigVariadic {
		nFixed--
	}
	for i, a := range argExprs {
		if i >= nFixed && sigVariadic && !call.Ellipsis.IsValid() {
			// variadic tail: evaluated for effects/safety; an assumed contract may name the elements va0, va1, ...
			env[fmt.Sprintf("va%d", i-nFixed)] = fv.expr(a, cx)
			continue
		}
		v := fv.expr(a, cx)
		if pi+i < len(cs.Params) {
			if _, isTP := cs.ParamTys[pi+i].(*types.TypeParam); !isTP {
				v.Ty = cs.ParamTys[pi+i]
			}
			env[cs.Params[pi+i]] = v
		}
	}
	pre := st.clone()
	ccx := &Cx{st: pre, old: pre, contract: true, scopePos: cs.ScopePos, noOb: true, env: env}
	if !cs.Trusted || len(cs.FC.Requires) > 0 {
		for _, r := range cs.FC.Requires {
			if r.Tag == "hint" {
				continue // instantiation hint (true by the axiom of its trigger symbol): assumed in the body only
			}
			for _, cj := range fv.conjunctsIn(r.Expr, ccx) {
				n := fv.ordinal("requires@" + cs.Key)
				if ob := fv.oblige(st, "requires", fmt.Sprintf("requires@%s[%d]", cs.Key, n), cj.term, "precondition of "+cs.Key+": "+cj.text, call.Pos(), cx); ob != nil {
					ob.Props = r.Tag
				}
			}
		}
	}
	if cs.NoReturn {
		fv.noReturn(cs, env, st, cx)
		return fv.zeroResults(cs)
	}
	// havoc
	allocPre := fv.get(st, "alloc", SInt)
	na := fv.havoc(st, "alloc")
	fv.assume(st, sx(">=", na, allocPre))
	var heapCells []string
	for _, m := range cs.FC.Modifies {
		for _, v := range m.Vars {
			cell := fv.cellForName(v, cs.ScopePos)
			fv.get(st, cell, "")
			c := fv.havoc(st, cell)
			if t, ok := fv.cellType[cell]; ok && t != nil {
				fv.assume(st, fv.typeFacts(t, c, st))
			}
		}
		for _, f := range m.Fields {
			cell := fv.cellForField(f)
			old := fv.get(st, cell, "")
			nw := fv.havoc(st, cell)
			if strings.HasPrefix(cell, "H!") {
				heapCells = append(heapCells, cell)
			}
			if m.Where != nil {
				benv := map[string]TV{}
				for k, v := range env {
					benv[k] = v
				}
				benv[m.Bound] = TV{T: "r!", S: SInt, Ty: fv.refTypeOfField(f)}
				cond := fv.expr(m.Where, ccx.with(func(c *Cx) { c.env = benv; c.inOld = true })).T
				lowb := "(< 0 r!)"
				if !strings.HasPrefix(cell, "H!") && !strings.HasPrefix(cell, "G!") && !strings.HasPrefix(cell, "P!") {
					lowb = "(<= 0 r!)" // slice bases and map references: the nil slice/map has base 0
				}
				fv.assume(st, fmt.Sprintf("(forall ((r! Int)) (! (=> (and "+lowb+" (< r! %s) %s) (= %s %s)) :pattern (%s)))",
					allocPre, not(cond), sel(nw, "r!"), sel(old, "r!"), sel(nw, "r!")))
			}
		}
	}
	if len(heapCells) > 0 {
		fv.heapFacts(st, heapCells)
	}
	// results
	var res []TV
	for i, rt := range cs.Results {
		if _, isTP := rt.(*types.TypeParam); isTP && len(cs.Results) == 1 {
			if at := u.Info.TypeOf(call); at != nil {
				rt = at // generic result type: use the instantiated type of the call
			}
		}
		s := u.sortOf(rt)
		c := fv.decl(fv.fresh("ret!"+shortCallee(cs.Key)), s) // named after the callee: readable countermodels
		fv.assume(st, fv.typeFacts(rt, c, st))
		tv := TV{T: c, Ty: rt, S: s}
		res = append(res, tv)
		if len(cs.Results) == 1 {
			env["result"] = tv
		}
		env[fmt.Sprintf("result%d", i)] = tv
		if i < len(cs.ResNames) && cs.ResNames[i] != "" && cs.ResNames[i] != "_" {
			if _, shadows := env[cs.ResNames[i]]; !shadows {
				env[cs.ResNames[i]] = tv // a named result denotes the value returned
			}
		}
	}
	if cs.Inout0 && recvLoc != nil {
		c := fv.decl(fv.fresh("recv"), recvLoc.sort)
		b := env[cs.Params[0]]
		b.T = c
		env[cs.Params[0]] = b
		if pt, ok := cs.ParamTys[0].(*types.Pointer); ok {
			fv.assume(st, fv.typeFacts(pt.Elem(), c, st))
		}
	}
	pcx := &Cx{st: st, old: pre, contract: true, scopePos: cs.ScopePos, noOb: true, env: env}
	for _, e := range cs.FC.Ensures {
		if e.Tag == "expected-fail" {
			continue // a clause known not to hold is never assumed
		}
		t := fv.exprIn(e.Expr, pcx).T
		if e.Except != "" && e.Region != nil {
			reg := fv.exprIn(e.Region, pcx.with(func(c *Cx) { c.inOld = true; c.st = pre })).T
			t = imp(not(reg), t)
		}
		fv.assume(st, t)
	}
	if cs.Inout0 && recvLoc != nil {
		fv.write(recvLoc, env[cs.Params[0]].T, cx)
	}
	return res
}

// shortCallee: last component of a callee key, restricted to symbol characters ("(os.File).Close" -> "File.Close").
func shortCallee(key string) string {
	if k := strings.LastIndex(key, "/"); k >= 0 {
		key = key[k+1:]
	}
	var sb strings.Builder
	for _, c := range key {
		if c >= 'a' && c <= 'z' || c >= 'A' && c <= 'Z' || c >= '0' && c <= '9' || c == '.' || c == '_' {
			sb.WriteRune(c)
		}
	}
	return sb.String()
}

// conjunctsIn / exprIn evaluate a callee's contract expression: parameters are bound in env and
// must not be resolved as the caller's own parameters.
func (fv *FV) conjunctsIn(e ast.Expr, cx *Cx) []conjunct { return fv.conjuncts(e, cx) }
func (fv *FV) exprIn(e ast.Expr, cx *Cx) TV             { return fv.expr(e, cx) }

func (fv *FV) zeroResults(cs *CalleeSpec) []TV {
	var res []TV
	for _, rt := range cs.Results {
		res = append(res, TV{T: fv.u.zero(rt), Ty: rt, S: fv.u.sortOf(rt)})
	}
	return res
}

// noReturn: the callee terminates the process; the path ends here. The unit may observe it.
func (fv *FV) noReturn(cs *CalleeSpec, env map[string]TV, st *State, cx *Cx) {
	if fv.u.OnNoReturn != nil {
		fv.u.OnNoReturn(fv, cs, st)
	}
	fv.assume(st, "false")
}

func (fv *FV) cellForName(name string, pos token.Pos) string {
	if s, ok := fv.u.ExtraCells[name]; ok {
		fv.cellSort[name] = s
		return name
	}
	sc := fv.u.Pkg.Types.Scope().Innermost(pos)
	_, obj := sc.LookupParent(name, pos)
	v, ok := obj.(*types.Var)
	if !ok {
		panic(refuse("modifies var %s: not a variable", name))
	}
	cell := fv.varCell(v)
	if v.Pkg() != nil && v.Parent() == v.Pkg().Scope() {
		cell = "g!" + v.Pkg().Name() + "." + v.Name()
	}
	if _, ok := fv.cellSort[cell]; !ok {
		fv.cellSort[cell] = fv.u.sortOf(v.Type())
		fv.decl(cell+"@0", fv.cellSort[cell])
	}
	fv.cellType[cell] = v.Type()
	return cell
}

func (fv *FV) cellForField(f string) string {
	switch {
	case strings.HasPrefix(f, "Elems."):
		fv.u.ensureSort(Sort(f[6:]))
		cell := "E!" + f[6:]
		if _, ok := fv.cellSort[cell]; !ok {
			fv.cellSort[cell] = arr(SInt, arr(SInt, Sort(f[6:])))
		}
		return cell
	case strings.HasPrefix(f, "MapDom."), strings.HasPrefix(f, "MapVal."):
		kv := f[7:]
		k := strings.Index(kv, "!")
		ks, vs := Sort(kv[:k]), Sort(kv[k+1:])
		fv.u.ensureSort(ks)
		fv.u.ensureSort(vs)
		if fv.u.mapKeySort == nil {
			fv.u.mapKeySort = map[string]Sort{}
		}
		fv.u.mapKeySort[kv] = ks
		if _, ok := fv.cellSort["MD!"+kv]; !ok {
			fv.cellSort["MD!"+kv] = arr(SInt, arr(ks, SBool))
			fv.decl("MD!"+kv+"@0", fv.cellSort["MD!"+kv])
			fv.cellSort["MV!"+kv] = arr(SInt, arr(ks, vs))
			fv.decl("MV!"+kv+"@0", fv.cellSort["MV!"+kv])
		}
		if strings.HasPrefix(f, "MapDom.") {
			return "MD!" + kv
		}
		return "MV!" + kv
	case strings.HasPrefix(f, "Ptr."):
		cell := "P!" + f[4:]
		if _, ok := fv.cellSort[cell]; !ok {
			fv.cellSort[cell] = arr(SInt, Sort(f[4:]))
			fv.decl(cell+"@0", fv.cellSort[cell])
		}
		return cell
	}
	if _, ok := fv.u.CS.GhostFields[f]; ok {
		fv.readsCell(f, &Cx{st: fv.entry})
		return "G!" + f
	}
	fv.readsCell(f, &Cx{st: fv.entry})
	return "H!" + f
}

func (fv *FV) recvValue(recvExpr ast.Expr, call *ast.CallExpr, cx *Cx) TV {
	// receiver of pointer-to-heap-struct type, possibly through embedded fields / address-of
	u := fv.u
	selx := unparen(call.Fun).(*ast.SelectorExpr)
	sel := u.Info.Selections[selx]
	base := fv.baseLoc(recvExpr, cx)
	cur := base
	cty := base.ty
	idx := sel.Index()
	for _, i := range idx[:len(idx)-1] {
		if p, ok := types.Unalias(cty).Underlying().(*types.Pointer); ok {
			cty = p.Elem()
		}
		st := types.Unalias(cty).Underlying().(*types.Struct)
		cur = fv.fieldStep(cur, cty, st.Field(i), i, st, cty, cx, call.Pos())
		cty = st.Field(i).Type()
	}
	if cur.kind == LObj {
		return TV{T: cur.addr, Ty: types.NewPointer(cur.ty), S: SInt}
	}
	v := fv.read(cur, cx)
	return TV{T: v, Ty: cur.ty, S: cur.sort}
}

func (fv *FV) recvLocation(recvExpr ast.Expr, call *ast.CallExpr, cx *Cx) *Loc {
	u := fv.u
	selx := unparen(call.Fun).(*ast.SelectorExpr)
	sel := u.Info.Selections[selx]
	base := fv.baseLoc(recvExpr, cx)
	cur := base
	cty := base.ty
	idx := sel.Index()
	for _, i := range idx[:len(idx)-1] {
		if p, ok := types.Unalias(cty).Underlying().(*types.Pointer); ok {
			cty = p.Elem()
		}
		st := types.Unalias(cty).Underlying().(*types.Struct)
		cur = fv.fieldStep(cur, cty, st.Field(i), i, st, cty, cx, call.Pos())
		cty = st.Field(i).Type()
	}
	if _, ok := types.Unalias(cty).Underlying().(*types.Pointer); ok {
		// already a pointer to a value struct: only in-out params (handled by loc of ident)
		return cur
	}
	if cur.kind == LVal || cur.kind == LObj {
		panic(refuse("pointer receiver on a non-addressable value %s", exprText(recvExpr)))
	}
	return cur
}

func ghostSort(gs string) Sort {
	switch gs {
	case "set":
		return arr(SInt, SBool)
	case "map":
		return arr(SInt, SInt)
	case "bool":
		return SBool
	case "strmap":
		return arr(SInt, SStr)
	}
	return SInt
}

// useLemma is a ghost call of a lemma function: a function of the unit marked `lemmafunc`, which is verified like any
// other function, additionally for termination, and which modifies nothing. Its preconditions are obligations at the
// point of use, its postconditions are assumed there (pre-state == post-state).
func (fv *FV) useLemma(call *ast.CallExpr, st *State, cx *Cx, pos token.Pos) {
	id, ok := call.Fun.(*ast.Ident)
	if !ok {
		panic(refuse("use: lemma name expected"))
	}
	fi, ok := fv.u.Funcs[id.Name]
	if !ok {
		panic(refuse("use: lemma function %s not found", id.Name))
	}
	cs := fv.specForFunc(fi)
	if !cs.FC.Lemma || len(cs.FC.Modifies) > 0 || len(cs.Results) > 0 {
		panic(refuse("use: %s is not a lemma function (lemmafunc, no modifies, no results)", id.Name))
	}
	if len(call.Args) != len(cs.Params) {
		panic(refuse("use: %s takes %d arguments", id.Name, len(cs.Params)))
	}
	env := map[string]TV{}
	for i, a := range call.Args {
		v := fv.expr(a, cx)
		v.Ty = cs.ParamTys[i]
		env[cs.Params[i]] = v
	}
	ccx := &Cx{st: st, old: st, contract: true, scopePos: cs.ScopePos, noOb: true, env: env}
	for _, r := range cs.FC.Requires {
		for _, cj := range fv.conjunctsIn(r.Expr, ccx) {
			n := fv.ordinal("requires@" + cs.Key)
			fv.oblige(st, "requires", fmt.Sprintf("requires@%s[%d]", cs.Key, n), cj.term, "precondition of lemma "+cs.Key+": "+cj.text, pos, nil)
		}
	}
	for _, e := range cs.FC.Ensures {
		fv.assume(st, fv.exprIn(e.Expr, ccx).T)
	}
}

// checkLemmaShape refuses a lemma function that could be unsound to use: it must not call anything and every loop must
// carry a variant (checked at the back edges).
func (fv *FV) checkLemmaShape() {
	if len(fv.fc.Modifies) > 0 {
		panic(refuse("lemma function with a modifies clause"))
	}
	ast.Inspect(fv.fn.Body, func(n ast.Node) bool {
		if c, ok := n.(*ast.CallExpr); ok {
			if tv, ok := fv.u.Info.Types[c.Fun]; ok && tv.IsType() {
				return true
			}
			panic(refuse("lemma function contains a call: %s", exprText(c.Fun)))
		}
		return true
	})
	for _, h := range fv.g.Loops {
		if fv.fc.LoopDec[h.LoopOrd] == nil {
			panic(refuse("lemma function: loop %d has no decreases clause", h.LoopOrd))
		}
	}
}
