package main

// Translation of Go expressions, contract expressions and simple statements.

import (
	"fmt"
	"go/ast"
	"go/constant"
	"go/token"
	"go/types"
	"strconv"
	"strings"
)

// ---------------------------------------------------------------------------------------------
// locations

type LocKind int

const (
	LVar LocKind = iota
	LHeap
	LField
	LElem
	LMapElem
	LObj // heap struct object designated by address
	LVal // read-only value
)

type Loc struct {
	kind   LocKind
	cell   string
	sort   Sort
	addr   string
	parent *Loc
	dt     *Datatype
	field  int
	idx    string
	val    string
	ty     types.Type
	old    bool // LVar bound in env with distinct old value (in-out param binding)
	oldVal string
}

func (fv *FV) read(l *Loc, cx *Cx) string {
	switch l.kind {
	case LVar:
		return fv.get(cx.st, l.cell, l.sort)
	case LHeap:
		return sel(fv.get(cx.st, l.cell, arr(SInt, l.sort)), l.addr)
	case LField:
		return sx(sym(l.dt.Name+"_"+l.dt.Fields[l.field].Name), fv.read(l.parent, cx))
	case LElem:
		return sel(sel(fv.get(cx.st, l.cell, arr(SInt, arr(SInt, l.sort))), l.addr), l.idx)
	case LMapElem:
		// value (zero if absent)
		ks := fv.u.mapKeySort[l.cell]
		dom := fv.get(cx.st, "MD!"+l.cell, arr(SInt, arr(ks, SBool)))
		val := fv.get(cx.st, "MV!"+l.cell, arr(SInt, arr(ks, l.sort)))
		return ite(sel(sel(dom, l.addr), l.idx), sel(sel(val, l.addr), l.idx), fv.u.zeroSort(l.sort))
	case LObj:
		return l.addr
	case LVal:
		return l.val
	}
	panic("read")
}

func (fv *FV) write(l *Loc, v string, cx *Cx) {
	switch l.kind {
	case LVar:
		fv.set(cx.st, l.cell, l.sort, v)
	case LHeap:
		h := fv.get(cx.st, l.cell, arr(SInt, l.sort))
		fv.set(cx.st, l.cell, arr(SInt, l.sort), sto(h, l.addr, v))
	case LField:
		cur := fv.read(l.parent, cx)
		var args []string
		for i, f := range l.dt.Fields {
			if i == l.field {
				args = append(args, v)
			} else {
				args = append(args, sx(sym(l.dt.Name+"_"+f.Name), cur))
			}
		}
		fv.write(l.parent, sx("mk_"+l.dt.Name, args...), cx)
	case LElem:
		cs := arr(SInt, arr(SInt, l.sort))
		e := fv.get(cx.st, l.cell, cs)
		fv.set(cx.st, l.cell, cs, sto(e, l.addr, sto(sel(e, l.addr), l.idx, v)))
	case LMapElem:
		ks := fv.u.mapKeySort[l.cell]
		ds, vs := arr(SInt, arr(ks, SBool)), arr(SInt, arr(ks, l.sort))
		dom := fv.get(cx.st, "MD!"+l.cell, ds)
		val := fv.get(cx.st, "MV!"+l.cell, vs)
		fv.set(cx.st, "MD!"+l.cell, ds, sto(dom, l.addr, sto(sel(dom, l.addr), l.idx, "true")))
		fv.set(cx.st, "MV!"+l.cell, vs, sto(val, l.addr, sto(sel(val, l.addr), l.idx, v)))
	default:
		panic(refuse("assignment to a non-assignable location"))
	}
}

// fieldStep selects field `name` from a base value/location of type bty.
func (fv *FV) fieldStep(base *Loc, bty types.Type, f *types.Var, idx int, st *types.Struct, structTy types.Type, cx *Cx, pos token.Pos) *Loc {
	u := fv.u
	fs := u.sortOf(f.Type())
	if u.isHeapStruct(structTy) {
		// base designates an object address
		addr := fv.read(base, cx)
		if base.kind != LObj {
			// base is a pointer value: nil check
			fv.safety(cx.st, not(eq(addr, "0")), "nil dereference selecting ."+f.Name(), pos, cx)
		}
		if u.isHeapStruct(f.Type()) {
			off := 0
			for i := 0; i <= idx; i++ {
				if u.isHeapStruct(st.Field(i).Type()) {
					off++
				}
			}
			if off >= Stride {
				panic(refuse("too many embedded objects in %s", typeName(structTy)))
			}
			return &Loc{kind: LObj, addr: sx("+", addr, num(int64(off))), ty: f.Type()}
		}
		cell := "H!" + typeName(structTy) + "." + f.Name()
		fv.cellType[cell] = f.Type()
		return &Loc{kind: LHeap, cell: cell, sort: fs, addr: addr, ty: f.Type()}
	}
	// value struct
	s := u.sortOf(structTy)
	dt := u.dtOf(s)
	return &Loc{kind: LField, parent: base, dt: dt, field: idx, sort: fs, ty: f.Type()}
}

// selectField resolves base.name over embedded fields; returns nil if name is not a field.
func (fv *FV) selectField(base *Loc, name string, cx *Cx, pos token.Pos) *Loc {
	bty := base.ty
	if bty == nil {
		return nil
	}
	obj, index, _ := types.LookupFieldOrMethod(bty, true, fv.u.Pkg.Types, name)
	f, ok := obj.(*types.Var)
	if !ok || !f.IsField() {
		return nil
	}
	cur := base
	cty := bty
	for _, i := range index {
		// auto-deref
		if p, ok := types.Unalias(cty).Underlying().(*types.Pointer); ok {
			cty = p.Elem()
			if fv.u.isHeapStruct(cty) {
				// pointer value -> object (nil check happens in fieldStep because kind != LObj)
			} else {
				// pointer to value struct: only in-out parameters, whose cell holds the value
				if cur.kind != LVar && cur.kind != LVal {
					panic(refuse("pointer to value struct %s outside a receiver", typeName(cty)))
				}
				cur = &Loc{kind: cur.kind, cell: cur.cell, sort: fv.u.sortOf(cty), val: cur.val, ty: cty}
			}
		}
		st, ok := types.Unalias(cty).Underlying().(*types.Struct)
		if !ok {
			return nil
		}
		fld := st.Field(i)
		cur = fv.fieldStep(cur, cty, fld, i, st, cty, cx, pos)
		cty = fld.Type()
	}
	return cur
}

// loc translates an addressable expression to a location.
func (fv *FV) loc(e ast.Expr, cx *Cx) *Loc {
	u := fv.u
	switch x := unparen(e).(type) {
	case *ast.Ident:
		if cx.contract {
			if b, ok := cx.env[x.Name]; ok {
				t := b.T
				if cx.inOld && b.OldT != "" {
					t = b.OldT
				}
				k := LVal
				if b.Obj {
					k = LObj
				}
				return &Loc{kind: k, val: t, addr: t, ty: b.Ty, sort: b.S}
			}
			if b, ok := fv.lets[x.Name]; ok {
				return &Loc{kind: LVal, val: b.T, ty: b.Ty, sort: b.S}
			}
			if es, ok := u.ExtraCells[x.Name]; ok {
				fv.cellSort[x.Name] = es
				return &Loc{kind: LVar, cell: x.Name, sort: es}
			}
		}
		obj := fv.lookupIdent(x, cx)
		v, ok := obj.(*types.Var)
		if !ok {
			return nil
		}
		cell := fv.varCell(v)
		if fv.boxed[v] && u.isHeapStruct(v.Type()) {
			// address-taken struct variable: the cell holds the address of the object
			return &Loc{kind: LObj, addr: fv.get(cx.st, cell, SInt), ty: v.Type()}
		}
		if fv.inout[v] {
			pt := v.Type().(*types.Pointer)
			fv.cellType[cell] = pt.Elem()
			return &Loc{kind: LVar, cell: cell, sort: u.sortOf(pt.Elem()), ty: v.Type()}
		}
		fv.cellType[cell] = v.Type()
		return &Loc{kind: LVar, cell: cell, sort: u.sortOf(v.Type()), ty: v.Type()}
	case *ast.SelectorExpr:
		// package-qualified identifier?
		if id, ok := x.X.(*ast.Ident); ok && cx.contract {
			// contract text: `os.Stdout` names a package-level variable of an imported package
			if _, bound := cx.env[id.Name]; !bound {
				if pn, isPkg := fv.lookupIdent(id, cx).(*types.PkgName); isPkg {
					if v, ok := pn.Imported().Scope().Lookup(x.Sel.Name).(*types.Var); ok {
						cell := "g!" + v.Pkg().Name() + "." + v.Name()
						fv.cellType[cell] = v.Type()
						return &Loc{kind: LVar, cell: cell, sort: u.sortOf(v.Type()), ty: v.Type()}
					}
					return nil
				}
			}
		}
		if id, ok := x.X.(*ast.Ident); ok && !cx.contract {
			if _, isPkg := u.Info.Uses[id].(*types.PkgName); isPkg {
				if v, ok := u.Info.Uses[x.Sel].(*types.Var); ok {
					cell := "g!" + v.Pkg().Name() + "." + v.Name()
					fv.cellType[cell] = v.Type()
					return &Loc{kind: LVar, cell: cell, sort: u.sortOf(v.Type()), ty: v.Type()}
				}
				return nil
			}
		}
		base := fv.baseLoc(x.X, cx)
		if base == nil {
			return nil
		}
		// ghost field?
		if cx.contract {
			bt := base.ty
			if p, ok := bt.(*types.Pointer); ok {
				bt = p.Elem()
			}
			if gs, ok := u.CS.GhostFields[typeName(bt)+"."+x.Sel.Name]; ok {
				return &Loc{kind: LHeap, cell: "G!" + typeName(bt) + "." + x.Sel.Name, sort: ghostSort(gs), addr: fv.read(base, cx)}
			}
		}
		return fv.selectField(base, x.Sel.Name, cx, x.Pos())
	case *ast.StarExpr:
		b := fv.expr(x.X, cx)
		if p, ok := b.Ty.Underlying().(*types.Pointer); ok && u.isHeapStruct(p.Elem()) {
			fv.safety(cx.st, not(eq(b.T, "0")), "nil dereference", x.Pos(), cx)
			return &Loc{kind: LObj, addr: b.T, ty: p.Elem()}
		}
		if p, ok := b.Ty.Underlying().(*types.Pointer); ok {
			if _, isBasic := types.Unalias(p.Elem()).Underlying().(*types.Basic); isBasic {
				// pointer to a value of basic type: one heap cell per pointed-to sort, keyed by the pointer value
				// (P!Bool, P!Str, P!Int; named Ptr.Bool ... in modifies clauses). All pointers to the same sort may alias.
				s := u.sortOf(p.Elem())
				fv.safety(cx.st, not(eq(b.T, "0")), "nil dereference", x.Pos(), cx)
				return &Loc{kind: LHeap, cell: "P!" + string(s), sort: s, addr: b.T, ty: p.Elem()}
			}
		}
		if id, ok := unparen(x.X).(*ast.Ident); ok {
			if v, ok := fv.lookupIdent(id, cx).(*types.Var); ok && fv.inout[v] {
				pt := v.Type().(*types.Pointer)
				return &Loc{kind: LVar, cell: fv.varCell(v), sort: u.sortOf(pt.Elem()), ty: pt.Elem()}
			}
		}
		panic(refuse("dereference of a pointer to %v", b.Ty))
	case *ast.IndexExpr:
		bt := fv.typeOfExpr(x.X, cx)
		if bt == nil {
			return nil
		}
		switch t := types.Unalias(bt).Underlying().(type) {
		case *types.Slice:
			s := fv.expr(x.X, cx)
			i := fv.expr(x.Index, cx)
			fv.safety(cx.st, and(sx("<=", "0", i.T), sx("<", i.T, sx("sl_len", s.T))), "index in range: "+exprText(x), x.Pos(), cx)
			es := u.sortOf(t.Elem())
			cell := "E!" + string(es)
			fv.cellType[cell] = nil
			return &Loc{kind: LElem, cell: cell, sort: es, addr: sx("sl_base", s.T), idx: sx("sidx", sx("sl_off", s.T), i.T), ty: t.Elem()}
		case *types.Map:
			m := fv.expr(x.X, cx)
			k := fv.expr(x.Index, cx)
			cell := u.mapCell(t)
			return &Loc{kind: LMapElem, cell: cell, sort: u.sortOf(t.Elem()), addr: m.T, idx: k.T, ty: t.Elem()}
		case *types.Array:
			// array value stored in a location: element location
			base := fv.baseLoc(x.X, cx)
			i := fv.expr(x.Index, cx)
			fv.safety(cx.st, and(sx("<=", "0", i.T), sx("<", i.T, num(t.Len()))), "array index in range: "+exprText(x), x.Pos(), cx)
			return &Loc{kind: LVal, val: sel(fv.read(base, cx), i.T), ty: t.Elem(), sort: u.sortOf(t.Elem())}
		case *types.Pointer:
			if at, ok := t.Elem().Underlying().(*types.Array); ok {
				if id, ok := unparen(x.X).(*ast.Ident); ok {
					if v, ok := fv.lookupIdent(id, cx).(*types.Var); ok {
						// pointer to array parameter modelled as in-out array value
						_ = v
						_ = at
					}
				}
			}
		}
		panic(refuse("index expression on %v", bt))
	}
	return nil
}

func (u *Unit) mapCell(t *types.Map) string {
	ks, vs := u.sortOf(t.Key()), u.sortOf(t.Elem())
	cell := string(ks) + "!" + string(vs)
	if u.mapKeySort == nil {
		u.mapKeySort = map[string]Sort{}
	}
	u.mapKeySort[cell] = ks
	return cell
}

// baseLoc: location of the operand of a selector: addressable form or a read-only value.
func (fv *FV) baseLoc(e ast.Expr, cx *Cx) *Loc {
	switch unparen(e).(type) {
	case *ast.Ident, *ast.SelectorExpr, *ast.StarExpr, *ast.IndexExpr:
		if l := fv.loc(e, cx); l != nil {
			return l
		}
	}
	tv := fv.expr(e, cx)
	k := LVal
	if tv.Obj {
		k = LObj
	}
	return &Loc{kind: k, val: tv.T, addr: tv.T, ty: tv.Ty, sort: tv.S}
}

func (fv *FV) lookupIdent(id *ast.Ident, cx *Cx) types.Object {
	if !cx.contract {
		if o := fv.u.Info.Uses[id]; o != nil {
			return o
		}
		return fv.u.Info.Defs[id]
	}
	sc := fv.u.Pkg.Types.Scope().Innermost(cx.scopePos)
	if sc == nil {
		sc = fv.u.Pkg.Types.Scope()
	}
	_, obj := sc.LookupParent(id.Name, cx.scopePos)
	return obj
}

func (fv *FV) typeOfExpr(e ast.Expr, cx *Cx) types.Type {
	if !cx.contract {
		return fv.u.Info.TypeOf(e)
	}
	save := fv.dry
	fv.dry++
	defer func() { fv.dry = save }()
	c2 := cx.with(func(c *Cx) { c.noOb = true })
	return fv.expr(e, c2).Ty
}

// ---------------------------------------------------------------------------------------------
// expressions

func (fv *FV) mk(t string, ty types.Type) TV {
	tv := TV{T: t, Ty: ty}
	if ty != nil {
		tv.S = fv.u.sortOf(ty)
		if fv.u.isHeapStruct(ty) {
			tv.Obj = true
		}
	}
	return tv
}

var tInt = types.Typ[types.Int]
var tBool = types.Typ[types.Bool]

func (fv *FV) strLit(s string) string {
	if s == "" {
		return "str_empty" // the empty literal is the zero value of string
	}
	k, ok := fv.strLits[s]
	if !ok {
		k = len(fv.strLits) + 1
		fv.strLits[s] = k
	}
	return sx("str_lit", num(int64(k)))
}

func (fv *FV) constTV(v constant.Value, ty types.Type) (TV, bool) {
	switch v.Kind() {
	case constant.Int:
		if i, ok := constant.Int64Val(v); ok {
			return TV{T: num(i), Ty: ty, S: SInt}, true
		}
		return TV{T: v.ExactString(), Ty: ty, S: SInt}, true
	case constant.Bool:
		if constant.BoolVal(v) {
			return TV{T: "true", Ty: ty, S: SBool}, true
		}
		return TV{T: "false", Ty: ty, S: SBool}, true
	case constant.String:
		return TV{T: fv.strLit(constant.StringVal(v)), Ty: ty, S: SStr}, true
	}
	return TV{}, false
}

func (fv *FV) expr(e ast.Expr, cx *Cx) TV {
	u := fv.u
	if !cx.contract {
		if tv, ok := u.Info.Types[e]; ok && tv.Value != nil {
			if r, ok := fv.constTV(tv.Value, tv.Type); ok {
				return r
			}
		}
	}
	switch x := e.(type) {
	case *ast.ParenExpr:
		return fv.expr(x.X, cx)
	case *ast.BasicLit:
		switch x.Kind {
		case token.INT:
			return TV{T: x.Value, Ty: tInt, S: SInt}
		case token.CHAR:
			r, _, _, err := strconv.UnquoteChar(x.Value[1:len(x.Value)-1], '\'')
			if err != nil {
				panic(refuse("bad char literal %s", x.Value))
			}
			return TV{T: num(int64(r)), Ty: types.Typ[types.Rune], S: SInt}
		case token.STRING:
			s, _ := strconv.Unquote(x.Value)
			return TV{T: fv.strLit(s), Ty: types.Typ[types.String], S: SStr}
		}
		panic(refuse("literal %s", x.Value))
	case *ast.Ident:
		return fv.ident(x, cx)
	case *ast.SelectorExpr:
		if l := fv.loc(x, cx); l != nil {
			if l.kind == LObj {
				return TV{T: l.addr, Ty: l.ty, S: SInt, Obj: true}
			}
			tv := TV{T: fv.read(l, cx), Ty: l.ty, S: l.sort}
			return tv
		}
		// constant from another package handled above; method value etc. not supported
		panic(refuse("selector %s", exprText(x)))
	case *ast.StarExpr:
		l := fv.loc(x, cx)
		if l.kind == LObj {
			return TV{T: l.addr, Ty: l.ty, S: SInt, Obj: true}
		}
		if l.kind == LHeap && strings.HasPrefix(l.cell, "P!") && !cx.contract && fv.dry == 0 {
			// name the value read through the pointer: countermodels then show e.g. deref!strict@57 = false
			c := fv.decl(fv.fresh("deref!"+exprText(x.X)), l.sort)
			fv.emit(fmt.Sprintf("(assert (= %s %s))", c, fv.read(l, cx)))
			return TV{T: c, Ty: l.ty, S: l.sort}
		}
		return TV{T: fv.read(l, cx), Ty: l.ty, S: l.sort}
	case *ast.IndexExpr:
		// string indexing, slices, maps, arrays
		bt := fv.typeOfExpr(x.X, cx)
		if bt != nil {
			if _, isSig := bt.Underlying().(*types.Signature); isSig {
				// generic instantiation f[T]
				return fv.expr(x.X, cx)
			}
		}
		l := fv.loc(x, cx)
		return TV{T: fv.read(l, cx), Ty: l.ty, S: l.sort}
	case *ast.UnaryExpr:
		switch x.Op {
		case token.NOT:
			a := fv.expr(x.X, cx)
			return TV{T: not(a.T), Ty: tBool, S: SBool}
		case token.SUB:
			a := fv.expr(x.X, cx)
			return fv.arith(TV{T: "0", Ty: a.Ty, S: SInt}, a, token.SUB, fv.resType(e, a, cx), x.Pos(), cx)
		case token.ADD:
			return fv.expr(x.X, cx)
		case token.AND:
			return fv.addrOf(x, cx)
		}
		panic(refuse("unary operator %s", x.Op))
	case *ast.BinaryExpr:
		return fv.binary(x, cx)
	case *ast.CallExpr:
		r := fv.call(x, cx)
		if len(r) != 1 {
			panic(refuse("call %s used as a single value", exprText(x.Fun)))
		}
		return r[0]
	case *ast.CompositeLit:
		return fv.composite(x, cx, false)
	case *ast.SliceExpr:
		return fv.sliceExpr(x, cx)
	case *ast.FuncLit:
		// a function value: opaque non-nil reference
		return TV{T: "1", Ty: u.Info.TypeOf(x), S: SInt}
	case *ast.TypeAssertExpr:
		panic(refuse("type assertion"))
	}
	panic(refuse("expression %T", e))
}

func (fv *FV) resType(e ast.Expr, a TV, cx *Cx) types.Type {
	if !cx.contract {
		if t := fv.u.Info.TypeOf(e); t != nil {
			return t
		}
	}
	return a.Ty
}

func (fv *FV) ident(x *ast.Ident, cx *Cx) TV {
	u := fv.u
	switch x.Name {
	case "true":
		return TV{T: "true", Ty: tBool, S: SBool}
	case "false":
		return TV{T: "false", Ty: tBool, S: SBool}
	case "nil":
		return TV{T: "0", Ty: types.Typ[types.UntypedNil], S: SInt}
	}
	if cx.contract {
		if b, ok := cx.env[x.Name]; ok {
			if cx.inOld && b.OldT != "" {
				return TV{T: b.OldT, Ty: b.Ty, S: b.S, Obj: b.Obj}
			}
			return b
		}
		if b, ok := fv.lets[x.Name]; ok {
			return b
		}
		if c, ok := u.CS.Consts[x.Name]; ok {
			if strings.HasPrefix(c, "-") {
				return TV{T: "(- " + c[1:] + ")", Ty: tInt, S: SInt}
			}
			return TV{T: c, Ty: tInt, S: SInt}
		}
		if s, ok := u.ExtraCells[x.Name]; ok {
			return TV{T: fv.get(cx.st, x.Name, s), S: s}
		}
		if s, ok := u.SpecConsts[x.Name]; ok && !fv.shadowedByLocal(x, cx) {
			var ty types.Type
			if s == SInt {
				ty = tInt
			}
			return TV{T: sym(x.Name), S: s, Ty: ty}
		}
		if x.Name == "alloc" {
			return TV{T: fv.get(cx.st, "alloc", SInt), Ty: tInt, S: SInt}
		}
		if p := fv.argAlias(x.Name); p != nil {
			return fv.mk(fv.get(fv.entry, fv.varCell(p), u.sortOf(p.Type())), p.Type())
		}
	}
	obj := fv.lookupIdent(x, cx)
	switch o := obj.(type) {
	case *types.Var:
		// in a requires/ensures clause a parameter denotes its entry value; in a loop invariant and in ghost code it denotes,
		// like every other variable, its current value (old(p) is the entry value): `for n != nil { ...; n = n.next }`
		if cx.contract && !fv.inout[o] && fv.isParam(o) && fv.isLocal(o) && ((cx.loopIn == nil && cx.what != "ghost") || cx.inOld) {
			cell := fv.varCell(o)
			return fv.mk(fv.get(fv.entry, cell, u.sortOf(o.Type())), o.Type())
		}
		l := fv.loc(x, cx)
		if l.kind == LObj {
			return TV{T: l.addr, Ty: l.ty, S: SInt, Obj: true}
		}
		return TV{T: fv.read(l, cx), Ty: l.ty, S: l.sort}
	case *types.Const:
		if r, ok := fv.constTV(o.Val(), o.Type()); ok {
			return r
		}
	case *types.Nil:
		return TV{T: "0", Ty: types.Typ[types.UntypedNil], S: SInt}
	case *types.Func:
		return TV{T: "1", Ty: o.Type(), S: SInt}
	}
	panic(refuse("identifier %s cannot be resolved (at %s)", x.Name, fv.pos(x.Pos())))
}

// shadowedByLocal: the name is a parameter or local variable of the function under verification at the point where the
// contract expression is resolved (a receiver called n shadows the specification constant n).
func (fv *FV) shadowedByLocal(x *ast.Ident, cx *Cx) bool {
	if fv.fn == nil || fv.fn.Body == nil || !cx.scopePos.IsValid() {
		return false
	}
	v, ok := fv.lookupIdent(x, cx).(*types.Var)
	return ok && !v.IsField() && fv.isLocal(v)
}

// argAlias: in the contract of a function literal, argN denotes its N-th parameter (entry value), so that the contract of a
// function-typed parameter ("<fn>.<param>", written over arg0, arg1, ...) serves both the call site and the literal passed.
func (fv *FV) argAlias(name string) *types.Var {
	if fv.fn == nil || fv.fn.Lit == nil || fv.fn.Sig == nil || !strings.HasPrefix(name, "arg") {
		return nil
	}
	k, err := strconv.Atoi(name[3:])
	if err != nil || k < 0 || k >= fv.fn.Sig.Params().Len() {
		return nil
	}
	for i := 0; i < fv.fn.Sig.Params().Len(); i++ {
		if fv.fn.Sig.Params().At(i).Name() == name {
			return nil // a real parameter of that name wins
		}
	}
	p := fv.fn.Sig.Params().At(k)
	if p.Name() == "" || p.Name() == "_" {
		panic(refuse("contract uses %s but the literal's parameter %d has no name", name, k))
	}
	return p
}

func (fv *FV) isParam(v *types.Var) bool {
	for _, p := range fv.params() {
		if p == v {
			return true
		}
	}
	return false
}

func (fv *FV) addrOf(x *ast.UnaryExpr, cx *Cx) TV {
	u := fv.u
	switch y := unparen(x.X).(type) {
	case *ast.CompositeLit:
		return fv.composite(y, cx, true)
	default:
		l := fv.loc(y, cx)
		if l != nil && l.kind == LObj {
			return TV{T: l.addr, Ty: types.NewPointer(l.ty), S: SInt}
		}
		if l != nil && l.kind == LVal && l.ty != nil && u.isHeapStruct(l.ty) {
			return TV{T: l.val, Ty: types.NewPointer(l.ty), S: SInt}
		}
		panic(refuse("address of %s", exprText(y)))
	}
}

// alloc returns a fresh object address and zero-initialises the fields of heap struct type t.
func (fv *FV) alloc(st *State) string {
	a := fv.get(st, "alloc", SInt)
	r := fv.decl(fv.fresh("new"), SInt)
	fv.emit(fmt.Sprintf("(assert (= %s %s))", r, a))
	fv.set(st, "alloc", SInt, sx("+", a, num(Stride)))
	return r
}

func (fv *FV) zeroObject(addr string, t types.Type, cx *Cx) {
	st := t.Underlying().(*types.Struct)
	off := 0
	for _, gk := range sortedKeys(fv.u.CS.GhostFields) {
		if strings.HasPrefix(gk, typeName(t)+".") {
			vs, zero := ghostSort(fv.u.CS.GhostFields[gk]), "0"
			switch fv.u.CS.GhostFields[gk] {
			case "set":
				zero = "((as const (Array Int Bool)) false)"
			case "map":
				zero = "((as const (Array Int Int)) 0)"
			}
			fv.write(&Loc{kind: LHeap, cell: "G!" + gk, sort: vs, addr: addr}, zero, cx)
		}
	}
	for i := 0; i < st.NumFields(); i++ {
		f := st.Field(i)
		if fv.u.isHeapStruct(f.Type()) {
			off++
			fv.zeroObject(sx("+", addr, num(int64(off))), f.Type(), cx)
			continue
		}
		cell := "H!" + typeName(t) + "." + f.Name()
		fs := fv.u.sortOf(f.Type())
		fv.cellType[cell] = f.Type()
		l := &Loc{kind: LHeap, cell: cell, sort: fs, addr: addr, ty: f.Type()}
		fv.write(l, fv.u.zeroSort(fs), cx)
	}
}

func (fv *FV) composite(x *ast.CompositeLit, cx *Cx, addr bool) TV {
	u := fv.u
	ty := u.Info.TypeOf(x)
	if ty == nil {
		panic(refuse("composite literal without type"))
	}
	switch t := types.Unalias(ty).Underlying().(type) {
	case *types.Struct:
		if u.isHeapStruct(ty) {
			r := fv.alloc(cx.st)
			fv.zeroObject(r, ty, cx)
			fv.initObject(r, ty, t, x, cx)
			if addr {
				return TV{T: r, Ty: types.NewPointer(ty), S: SInt}
			}
			return TV{T: r, Ty: ty, S: SInt, Obj: true}
		}
		if addr {
			panic(refuse("address of value struct literal %s", typeName(ty)))
		}
		s := u.sortOf(ty)
		dt := u.dtOf(s)
		args := make([]string, len(dt.Fields))
		for i, f := range dt.Fields {
			args[i] = u.zeroSort(f.Sort)
		}
		for i, el := range x.Elts {
			if kv, ok := el.(*ast.KeyValueExpr); ok {
				name := kv.Key.(*ast.Ident).Name
				for j, f := range dt.Fields {
					if f.Name == name {
						args[j] = fv.expr(kv.Value, cx).T
					}
				}
			} else {
				args[i] = fv.expr(el, cx).T
			}
		}
		if len(args) == 0 {
			return TV{T: "mk_" + dt.Name, Ty: ty, S: s}
		}
		return TV{T: sx("mk_"+dt.Name, args...), Ty: ty, S: s}
	case *types.Slice:
		es := u.sortOf(t.Elem())
		base := fv.alloc(cx.st)
		cell := "E!" + string(es)
		cs := arr(SInt, arr(SInt, es))
		a := sx("(as const "+string(arr(SInt, es))+")", u.zeroSort(es))
		for i, el := range x.Elts {
			if _, ok := el.(*ast.KeyValueExpr); ok {
				panic(refuse("keyed slice literal"))
			}
			a = sto(a, num(int64(i)), fv.expr(el, cx).T)
		}
		e := fv.get(cx.st, cell, cs)
		fv.set(cx.st, cell, cs, sto(e, base, a))
		n := num(int64(len(x.Elts)))
		return TV{T: sx("mk_Slice", base, "0", n, n), Ty: ty, S: "Slice"}
	case *types.Array:
		es := u.sortOf(t.Elem())
		a := sx("(as const "+string(arr(SInt, es))+")", u.zeroSort(es))
		for i, el := range x.Elts {
			if _, ok := el.(*ast.KeyValueExpr); ok {
				panic(refuse("keyed array literal"))
			}
			a = sto(a, num(int64(i)), fv.expr(el, cx).T)
		}
		return TV{T: a, Ty: ty, S: arr(SInt, es)}
	}
	panic(refuse("composite literal of type %v", ty))
}

func (fv *FV) initObject(r string, ty types.Type, st *types.Struct, x *ast.CompositeLit, cx *Cx) {
	for i, el := range x.Elts {
		var f *types.Var
		var idx int
		var val ast.Expr
		if kv, ok := el.(*ast.KeyValueExpr); ok {
			name := kv.Key.(*ast.Ident).Name
			for j := 0; j < st.NumFields(); j++ {
				if st.Field(j).Name() == name {
					f, idx = st.Field(j), j
				}
			}
			val = kv.Value
		} else {
			f, idx, val = st.Field(i), i, el
		}
		base := &Loc{kind: LObj, addr: r, ty: ty}
		l := fv.fieldStep(base, ty, f, idx, st, ty, cx, x.Pos())
		if l.kind == LObj {
			// nested object literal
			cl, ok := unparen(val).(*ast.CompositeLit)
			if !ok {
				panic(refuse("embedded object initialised from a non-literal"))
			}
			fv.initObject(l.addr, f.Type(), f.Type().Underlying().(*types.Struct), cl, cx)
			continue
		}
		fv.write(l, fv.expr(val, cx).T, cx)
	}
}

func (fv *FV) sliceExpr(x *ast.SliceExpr, cx *Cx) TV {
	s := fv.expr(x.X, cx)
	if s.S == SStr && !x.Slice3 {
		// substring s[lo:hi] (byte offsets): an uninterpreted function of the string and the bounds; only its length is known
		lo, hi := "0", sx("str_len", s.T)
		if x.Low != nil {
			lo = fv.expr(x.Low, cx).T
		}
		if x.High != nil {
			hi = fv.expr(x.High, cx).T
		}
		fv.safety(cx.st, and(sx("<=", "0", lo), sx("<=", lo, hi), sx("<=", hi, sx("str_len", s.T))), "slice bounds: "+exprText(x), x.Pos(), cx)
		return TV{T: sx("str_sub", s.T, lo, hi), Ty: s.Ty, S: SStr}
	}
	if _, ok := types.Unalias(s.Ty).Underlying().(*types.Slice); !ok {
		panic(refuse("slicing of %v", s.Ty))
	}
	lo, hi := "0", sx("sl_len", s.T)
	if x.Low != nil {
		lo = fv.expr(x.Low, cx).T
	}
	if x.High != nil {
		hi = fv.expr(x.High, cx).T
	}
	if x.Slice3 {
		panic(refuse("3-index slice"))
	}
	fv.safety(cx.st, and(sx("<=", "0", lo), sx("<=", lo, hi), sx("<=", hi, sx("sl_cap", s.T))), "slice bounds: "+exprText(x), x.Pos(), cx)
	return TV{T: sx("mk_Slice", sx("sl_base", s.T), sx("+", sx("sl_off", s.T), lo), sx("-", hi, lo), sx("-", sx("sl_cap", s.T), lo)), Ty: s.Ty, S: "Slice"}
}

func (fv *FV) binary(x *ast.BinaryExpr, cx *Cx) TV {
	switch x.Op {
	case token.LAND:
		a := fv.expr(x.X, cx)
		c2 := cx.with(func(c *Cx) { c.guard = append(append([]string{}, c.guard...), a.T) })
		b := fv.expr(x.Y, c2)
		return TV{T: and(a.T, b.T), Ty: tBool, S: SBool}
	case token.LOR:
		a := fv.expr(x.X, cx)
		c2 := cx.with(func(c *Cx) { c.guard = append(append([]string{}, c.guard...), not(a.T)) })
		b := fv.expr(x.Y, c2)
		return TV{T: or(a.T, b.T), Ty: tBool, S: SBool}
	}
	// typed binder hack: `r * Node` inside forall is handled by the caller
	a := fv.expr(x.X, cx)
	b := fv.expr(x.Y, cx)
	switch x.Op {
	case token.EQL:
		return TV{T: eq(a.T, b.T), Ty: tBool, S: SBool}
	case token.NEQ:
		return TV{T: not(eq(a.T, b.T)), Ty: tBool, S: SBool}
	case token.LSS:
		return TV{T: sx("<", a.T, b.T), Ty: tBool, S: SBool}
	case token.LEQ:
		return TV{T: sx("<=", a.T, b.T), Ty: tBool, S: SBool}
	case token.GTR:
		return TV{T: sx(">", a.T, b.T), Ty: tBool, S: SBool}
	case token.GEQ:
		return TV{T: sx(">=", a.T, b.T), Ty: tBool, S: SBool}
	case token.ADD:
		if a.S == SStr {
			return TV{T: sx("str_cat", a.T, b.T), Ty: a.Ty, S: SStr}
		}
		fallthrough
	case token.SUB, token.MUL:
		return fv.arith(a, b, x.Op, fv.resType(x, a, cx), x.Pos(), cx)
	}
	panic(refuse("binary operator %s", x.Op))
}

func (fv *FV) arith(a, b TV, op token.Token, ty types.Type, pos token.Pos, cx *Cx) TV {
	var t string
	switch op {
	case token.ADD:
		t = sx("+", a.T, b.T)
	case token.SUB:
		if a.T == "0" {
			t = sx("-", b.T)
		} else {
			t = sx("-", a.T, b.T)
		}
	case token.MUL:
		t = sx("*", a.T, b.T)
	}
	if ty == nil || isUntyped(ty) {
		ty = b.Ty
		if ty == nil || isUntyped(ty) {
			ty = a.Ty
		}
	}
	if !cx.contract && ty != nil {
		if lo, hi, ok := fv.u.intRange(ty); ok {
			if cx.overflow {
				fv.oblige(cx.st, "overflow", fmt.Sprintf("overflow[%d]", fv.ordinal("overflow")), and(sx("<=", lo, t), sx("<=", t, hi)),
					"result fits "+ty.String(), pos, cx)
			} else {
				fv.u.Assumptions["machine arithmetic treated as mathematical in "+fv.fn.Key] = true
			}
		}
	}
	return TV{T: t, Ty: ty, S: SInt}
}

func isUntyped(t types.Type) bool {
	b, ok := t.(*types.Basic)
	return ok && b.Info()&types.IsUntyped != 0
}

// binder decodes a quantifier binder: `x` or `x * T` (read: x of type *T) or `x + T` (x of type T).
func (fv *FV) binder(e ast.Expr) (string, types.Type) {
	switch b := e.(type) {
	case *ast.Ident:
		return b.Name, tInt
	case *ast.BinaryExpr:
		id, ok1 := b.X.(*ast.Ident)
		tn, ok2 := b.Y.(*ast.Ident)
		if ok1 && ok2 && (b.Op == token.MUL || b.Op == token.ADD) {
			if obj := fv.u.typeByName(tn.Name); obj != nil {
				if b.Op == token.ADD {
					return id.Name, obj.Type() // `k + memoKey`: k of (value) type memoKey
				}
				return id.Name, types.NewPointer(obj.Type())
			}
			panic(refuse("unknown type %s in binder", tn.Name))
		}
	}
	return "", nil
}

// ---------------------------------------------------------------------------------------------
// statements

func (fv *FV) execNode(n *INode, st *State) {
	cx := fv.codeCx(st)
	switch n.Kind {
	case NTag:
		t := "true"
		s := SBool
		if n.Expr != nil {
			tv := fv.expr(n.Expr, cx)
			t, s = tv.T, tv.S
		}
		fv.cellSort[n.Aux] = ""
		delete(fv.cellSort, n.Aux)
		fv.set(st, n.Aux, s, t)
	case NRangeInit:
		fv.rangeInit(n.Range, st)
	case NRangeBind:
		fv.rangeBind(n.Range, st)
	case NRangeNext:
		fv.rangeNext(n.Range, st)
	case NStmt:
		fv.execStmt(n.Stmt, cx)
		fv.afterStmt(n.Stmt, st)
	}
}

// afterStmt runs the ghost statements attached to a source statement by its text.
func (fv *FV) afterStmt(s ast.Stmt, st *State) {
	if fv.fc == nil || len(fv.fc.Ghosts) == 0 {
		return
	}
	txt := exprString(fv.u.Fset, s)
	for _, g := range fv.fc.Ghosts {
		if g.After != "" && g.After == txt {
			fv.ghostAssign(g, st)
		}
	}
}

func (fv *FV) ghostAssign(g *GhostStmt, st *State) { fv.ghostAssignEnv(g, st, map[string]TV{}) }

func (fv *FV) ghostAssignEnv(g *GhostStmt, st *State, env map[string]TV) {
	pos := fv.fn.Body.Lbrace + 1
	if fv.cur != nil && len(fv.cur.Nodes) > 0 {
		if s := fv.cur.Nodes[len(fv.cur.Nodes)-1].Stmt; s != nil {
			pos = s.End()
		}
	}
	if g.At == "return" || g.At == "entry" {
		pos = fv.fn.Body.Lbrace + 1
	}
	cx := &Cx{st: st, old: fv.entry, contract: true, scopePos: pos, noOb: true, env: env, what: "ghost"}
	if g.Use != nil {
		fv.useLemma(g.Use, st, cx, pos)
		return
	}
	// in ghost code parameters denote their current values
	rhs := fv.expr(g.RHS, cx)
	l := fv.loc(g.LHS, cx)
	if l == nil {
		panic(refuse("ghost assignment target %s", exprText(g.LHS)))
	}
	fv.write(l, rhs.T, cx)
}

func (fv *FV) execStmt(s ast.Stmt, cx *Cx) {
	u := fv.u
	switch x := s.(type) {
	case *ast.AssignStmt:
		fv.assignStmt(x, cx)
	case *ast.IncDecStmt:
		l := fv.loc(x.X, cx)
		cur := TV{T: fv.read(l, cx), Ty: l.ty, S: l.sort}
		op := token.ADD
		if x.Tok == token.DEC {
			op = token.SUB
		}
		r := fv.arith(cur, TV{T: "1", Ty: l.ty, S: SInt}, op, l.ty, x.Pos(), cx)
		fv.write(l, r.T, cx)
	case *ast.DeclStmt:
		gd := x.Decl.(*ast.GenDecl)
		if gd.Tok == token.TYPE || gd.Tok == token.CONST {
			return
		}
		for _, sp := range gd.Specs {
			vs := sp.(*ast.ValueSpec)
			for i, name := range vs.Names {
				if name.Name == "_" {
					continue
				}
				v := u.Info.Defs[name].(*types.Var)
				if i < len(vs.Values) {
					fv.defineVar(v, fv.expr(vs.Values[i], cx), cx)
				} else {
					fv.defineVarZero(v, cx)
				}
			}
		}
	case *ast.ExprStmt:
		call, ok := x.X.(*ast.CallExpr)
		if !ok {
			panic(refuse("expression statement %s", exprText(x.X)))
		}
		fv.callStmt(call, cx)
	case *ast.DeferStmt:
		// executed at returns
		if fv.cur != fv.g.Entry && !fv.dominatesAllReturns() {
			panic(refuse("conditional defer"))
		}
	case *ast.GoStmt:
		panic(refuse("go statement"))
	default:
		panic(refuse("statement %T", s))
	}
}

func (fv *FV) dominatesAllReturns() bool { return true }

func (fv *FV) defineVarZero(v *types.Var, cx *Cx) {
	u := fv.u
	cell := fv.varCell(v)
	if fv.boxed[v] && u.isHeapStruct(v.Type()) {
		r := fv.alloc(cx.st)
		fv.zeroObject(r, v.Type(), cx)
		fv.set(cx.st, cell, SInt, r)
		return
	}
	if u.isHeapStruct(v.Type()) {
		panic(refuse("struct variable %s of heap type used by value", v.Name()))
	}
	fv.cellType[cell] = v.Type()
	fv.set(cx.st, cell, u.sortOf(v.Type()), u.zero(v.Type()))
}

func (fv *FV) defineVar(v *types.Var, val TV, cx *Cx) {
	u := fv.u
	cell := fv.varCell(v)
	if u.isHeapStruct(v.Type()) {
		if !val.Obj {
			panic(refuse("struct copy of heap type into %s", v.Name()))
		}
		// `node := Node{...}`: the literal already allocated the object; the variable is its address
		fv.boxed[v] = true
		fv.set(cx.st, cell, SInt, val.T)
		return
	}
	fv.cellType[cell] = v.Type()
	fv.set(cx.st, cell, u.sortOf(v.Type()), val.T)
}

func (fv *FV) assignStmt(x *ast.AssignStmt, cx *Cx) {
	u := fv.u
	if x.Tok != token.ASSIGN && x.Tok != token.DEFINE {
		// op-assign
		var op token.Token
		switch x.Tok {
		case token.ADD_ASSIGN:
			op = token.ADD
		case token.SUB_ASSIGN:
			op = token.SUB
		case token.MUL_ASSIGN:
			op = token.MUL
		default:
			panic(refuse("assignment operator %s", x.Tok))
		}
		l := fv.loc(x.Lhs[0], cx)
		cur := TV{T: fv.read(l, cx), Ty: l.ty, S: l.sort}
		rhs := fv.expr(x.Rhs[0], cx)
		if l.sort == SStr {
			fv.write(l, sx("str_cat", cur.T, rhs.T), cx)
			return
		}
		r := fv.arith(cur, rhs, op, l.ty, x.Pos(), cx)
		fv.write(l, r.T, cx)
		return
	}
	var vals []TV
	if len(x.Rhs) == 1 && len(x.Lhs) > 1 {
		vals = fv.multi(x.Rhs[0], cx, len(x.Lhs))
	} else {
		for _, r := range x.Rhs {
			vals = append(vals, fv.expr(r, cx))
		}
	}
	// evaluate index operands of the left-hand sides before assigning (Go order of evaluation)
	type target struct {
		l *Loc
		v *types.Var
	}
	var tgts []target
	for i, lh := range x.Lhs {
		if id, ok := lh.(*ast.Ident); ok {
			if id.Name == "_" {
				tgts = append(tgts, target{})
				continue
			}
			if x.Tok == token.DEFINE {
				if v, ok := u.Info.Defs[id].(*types.Var); ok && v != nil {
					tgts = append(tgts, target{v: v})
					continue
				}
			}
		}
		l := fv.loc(lh, cx)
		if l == nil {
			panic(refuse("assignment target %s", exprText(lh)))
		}
		if l.kind == LObj {
			panic(refuse("whole-object assignment to %s", exprText(lh)))
		}
		_ = i
		tgts = append(tgts, target{l: l})
	}
	for i, t := range tgts {
		switch {
		case t.v != nil:
			fv.defineVar(t.v, vals[i], cx)
		case t.l != nil:
			fv.write(t.l, vals[i].T, cx)
		}
	}
}

// multi evaluates an expression that yields n values: call, comma-ok map read.
func (fv *FV) multi(e ast.Expr, cx *Cx, n int) []TV {
	switch x := unparen(e).(type) {
	case *ast.CallExpr:
		r := fv.call(x, cx)
		if len(r) != n {
			panic(refuse("call yields %d values, %d wanted", len(r), n))
		}
		return r
	case *ast.IndexExpr:
		if mt, ok := fv.u.Info.TypeOf(x.X).Underlying().(*types.Map); ok && n == 2 {
			m := fv.expr(x.X, cx)
			k := fv.expr(x.Index, cx)
			cell := fv.u.mapCell(mt)
			ks, vs := fv.u.sortOf(mt.Key()), fv.u.sortOf(mt.Elem())
			dom := fv.get(cx.st, "MD!"+cell, arr(SInt, arr(ks, SBool)))
			val := fv.get(cx.st, "MV!"+cell, arr(SInt, arr(ks, vs)))
			okT := ite(eq(m.T, "0"), "false", sel(sel(dom, m.T), k.T))
			v := ite(okT, sel(sel(val, m.T), k.T), fv.u.zeroSort(vs))
			return []TV{{T: v, Ty: mt.Elem(), S: vs}, {T: okT, Ty: tBool, S: SBool}}
		}
	}
	panic(refuse("multi-value expression %s", exprText(e)))
}

func (fv *FV) callMulti(e ast.Expr, cx *Cx) []TV {
	call, ok := unparen(e).(*ast.CallExpr)
	if !ok {
		panic(refuse("multi-value return of a non-call"))
	}
	return fv.call(call, cx)
}

// ---------------------------------------------------------------------------------------------
// range loops

// ListIter: a method of the unit that returns an iterator (iter.Seq / iter.Seq2) over an intrusive singly linked list:
//
//	element := recv.<Front>; for element != nil { if !yield([i,] element) { return }; [i++;] element = element.<Next> }
//
// ASSUMED CONTRACT of such a method together with the language semantics of range-over-func: `for [i,] e := range
// recv.M()` runs its body on the list elements in list order; the cursor advances after the body (reading <Next> from the
// heap as it is then); leaving the loop early (break, return) ends the iteration. The unit loader checks that the method's
// source text is the one this model was written for.
type ListIter struct {
	Struct    string // name of the node struct type
	Front     string // field of the receiver holding the first element
	Next      string // field of an element holding its successor
	WithIndex bool   // iter.Seq2[int, *T]: the first loop variable is the running index
}

func (fv *FV) rangeCells(rs *ast.RangeStmt) (xc, ic string) {
	off := fv.u.Fset.Position(rs.Pos()).Offset
	return fmt.Sprintf("$rngx!%d", off), fmt.Sprintf("$rngi!%d", off)
}

// listIterCall: e is a call recv.M() of one of the unit's list iterators.
func (fv *FV) listIterCall(e ast.Expr) (*ListIter, *ast.CallExpr) {
	call, ok := unparen(e).(*ast.CallExpr)
	if !ok || len(call.Args) != 0 || len(fv.u.ListIters) == 0 {
		return nil, nil
	}
	selx, ok := unparen(call.Fun).(*ast.SelectorExpr)
	if !ok {
		return nil, nil
	}
	sel, ok := fv.u.Info.Selections[selx]
	if !ok || sel.Kind() != types.MethodVal {
		return nil, nil
	}
	fn := sel.Obj().(*types.Func)
	if fn.Pkg() != fv.u.Pkg.Types {
		return nil, nil
	}
	rt := fn.Type().(*types.Signature).Recv().Type()
	if p, ok := rt.(*types.Pointer); ok {
		rt = p.Elem()
	}
	li := fv.u.ListIters[typeName(rt)+"."+fn.Name()]
	if li == nil {
		return nil, nil
	}
	return li, call
}

// rangeOverList classifies the operand of a range statement: a list iterator (live: the successor is read from the current
// heap) or slices.Collect(list iterator) (snapshot: Collect has walked the list before the loop starts).
func (fv *FV) rangeOverList(rs *ast.RangeStmt) (li *ListIter, call *ast.CallExpr, snapshot bool) {
	if li, call = fv.listIterCall(rs.X); li != nil {
		return li, call, false
	}
	if c, ok := unparen(rs.X).(*ast.CallExpr); ok && len(c.Args) == 1 && fv.isPkgFunc(c.Fun, "slices", "Collect") {
		if li, call = fv.listIterCall(c.Args[0]); li != nil {
			return li, call, true
		}
	}
	return nil, nil, false
}

// isPkgFunc: fun denotes the function pkgPath.name (possibly instantiated explicitly).
func (fv *FV) isPkgFunc(fun ast.Expr, pkgPath, name string) bool {
	fun = unparen(fun)
	if ix, ok := fun.(*ast.IndexExpr); ok {
		fun = unparen(ix.X)
	}
	selx, ok := fun.(*ast.SelectorExpr)
	if !ok {
		return false
	}
	fn, ok := fv.u.Info.Uses[selx.Sel].(*types.Func)
	return ok && fn.Pkg() != nil && fn.Pkg().Path() == pkgPath && fn.Name() == name
}

// lowerOpts: the type-dependent decisions of the CFG lowering.
func (fv *FV) lowerOpts() *LowerOpts {
	return &LowerOpts{
		FuncRange: func(rs *ast.RangeStmt) bool {
			li, _, _ := fv.rangeOverList(rs)
			return li != nil
		},
		CallbackLoop: func(e ast.Expr) (*ast.CallExpr, *ast.FuncLit, bool) {
			call, ok := e.(*ast.CallExpr)
			if !ok || len(call.Args) != 2 || !fv.isPkgFunc(call.Fun, "slices", "ContainsFunc") {
				return nil, nil, false
			}
			lit, ok := unparen(call.Args[1]).(*ast.FuncLit)
			if !ok {
				return nil, nil, false
			}
			fv.u.Assumptions["slices.ContainsFunc(s, f) executed by its definition: for _, v := range s { if f(v) { return true } }; return false"] = true
			return call, lit, true
		},
	}
}

// listField: current term of the heap cell of field `name` of the list's node struct.
func (fv *FV) listField(st *State, li *ListIter, name string) string {
	cell := "H!" + li.Struct + "." + name
	if obj := fv.u.lookupTypeName(li.Struct); obj != nil {
		if stt, ok := obj.Type().Underlying().(*types.Struct); ok {
			for i := 0; i < stt.NumFields(); i++ {
				if stt.Field(i).Name() == name {
					fv.cellType[cell] = stt.Field(i).Type()
				}
			}
		}
	}
	return fv.get(st, cell, arr(SInt, SInt))
}

func (fv *FV) rangeInit(rs *ast.RangeStmt, st *State) {
	cx := fv.codeCx(st)
	xc, ic := fv.rangeCells(rs)
	if li, call, snapshot := fv.rangeOverList(rs); li != nil {
		selx := unparen(call.Fun).(*ast.SelectorExpr)
		r := fv.recvValue(selx.X, call, cx)
		fv.safety(st, not(eq(r.T, "0")), "nil dereference: receiver of "+exprText(call.Fun), call.Pos(), cx)
		fv.u.Assumptions["range over (*"+li.Struct+") list iterators walks "+li.Front+", "+li.Next+", ... in order, advancing after the body (model of range-over-func; the iterator's source text is checked by the loader)"] = true
		fv.set(st, xc, SInt, sel(fv.listField(st, li, li.Front), r.T))
		fv.set(st, ic, SInt, "0")
		if snapshot {
			fv.u.Assumptions["slices.Collect(seq) returns the values yielded by seq, in order (the list is walked once, before the loop)"] = true
			fv.set(st, xc+"!h", arr(SInt, SInt), fv.listField(st, li, li.Next))
		}
		return
	}
	xt := fv.u.Info.TypeOf(rs.X)
	switch t := types.Unalias(xt).Underlying().(type) {
	case *types.Slice, *types.Basic:
		if b, ok := t.(*types.Basic); ok && b.Info()&types.IsInteger == 0 {
			panic(refuse("range over %v", xt))
		}
		x := fv.expr(rs.X, cx)
		fv.set(st, xc, x.S, x.T)
		fv.set(st, ic, SInt, "0")
	default:
		panic(refuse("range over %v", xt))
	}
}

func (fv *FV) rangeHas(rs *ast.RangeStmt, st *State) string {
	xc, ic := fv.rangeCells(rs)
	if li, _, _ := fv.rangeOverList(rs); li != nil {
		return not(eq(fv.get(st, xc, SInt), "0"))
	}
	xt := fv.u.Info.TypeOf(rs.X)
	i := fv.get(st, ic, SInt)
	if _, ok := types.Unalias(xt).Underlying().(*types.Slice); ok {
		return sx("<", i, sx("sl_len", fv.get(st, xc, "Slice")))
	}
	return sx("<", i, fv.get(st, xc, SInt))
}

// rangeNext: the advance step of a range over a list iterator (after the body): cursor = cursor.next; index++.
func (fv *FV) rangeNext(rs *ast.RangeStmt, st *State) {
	li, _, snapshot := fv.rangeOverList(rs)
	if li == nil {
		return // slices and integers advance in rangeBind
	}
	xc, ic := fv.rangeCells(rs)
	cur := fv.get(st, xc, SInt)
	next := fv.listField(st, li, li.Next)
	if snapshot {
		next = fv.get(st, xc+"!h", arr(SInt, SInt))
	}
	fv.set(st, xc, SInt, sel(next, cur))
	fv.set(st, ic, SInt, sx("+", fv.get(st, ic, SInt), "1"))
}

func (fv *FV) rangeBind(rs *ast.RangeStmt, st *State) {
	cx := fv.codeCx(st)
	xc, ic := fv.rangeCells(rs)
	xt := fv.u.Info.TypeOf(rs.X)
	i := fv.get(st, ic, SInt)
	bind := func(e ast.Expr, val TV) {
		if e == nil {
			return
		}
		id, ok := e.(*ast.Ident)
		if ok && id.Name == "_" {
			return
		}
		if rs.Tok == token.DEFINE {
			v := fv.u.Info.Defs[id].(*types.Var)
			if val.Ty == nil {
				val.Ty = v.Type()
			}
			fv.defineVar(v, val, cx)
			return
		}
		fv.write(fv.loc(e, cx), val.T, cx)
	}
	cbParam := fv.g.Callback[rs] // inlined callback: the literal's parameter receives the element
	if li, _, _ := fv.rangeOverList(rs); li != nil {
		elem := TV{T: fv.get(st, xc, SInt), S: SInt}
		switch {
		case cbParam != nil:
			bind(cbParam, elem)
		case li.WithIndex:
			bind(rs.Key, TV{T: i, Ty: tInt, S: SInt})
			bind(rs.Value, elem)
		default:
			bind(rs.Key, elem)
		}
		return
	}
	if sl, ok := types.Unalias(xt).Underlying().(*types.Slice); ok {
		x := fv.get(st, xc, "Slice")
		es := fv.u.sortOf(sl.Elem())
		if cbParam == nil {
			bind(rs.Key, TV{T: i, Ty: tInt, S: SInt})
		}
		if rs.Value != nil || cbParam != nil {
			e := fv.get(st, "E!"+string(es), arr(SInt, arr(SInt, es)))
			v := sel(sel(e, sx("sl_base", x)), sx("sidx", sx("sl_off", x), i))
			c := fv.decl(fv.fresh("elem"), es)
			fv.emit(fmt.Sprintf("(assert (= %s %s))", c, v))
			fv.assume(st, fv.typeFacts(sl.Elem(), c, st))
			if cbParam != nil {
				bind(cbParam, TV{T: c, Ty: sl.Elem(), S: es})
			} else {
				bind(rs.Value, TV{T: c, Ty: sl.Elem(), S: es})
			}
		}
	} else {
		bind(rs.Key, TV{T: i, Ty: xt, S: SInt})
	}
	fv.set(st, ic, SInt, sx("+", i, "1"))
}
