package main

// Witness search for the hand-written units ("set", "main", "tree"): DESIGN.md 13.7.
//
// A VIOLATION is established by a proof obligation that does not discharge (check.go). This file only tries to ILLUSTRATE such a
// violation with a concrete failing input that reproduces on the real code: it is called after the list of failing obligations
// is final, runs nothing when that list is empty, never adds or removes an obligation, and when it finds nothing the report is
// what it was before (`no-failing-input-found`). Per unit with failing obligations one search runs under a time budget:
//
//	unit set                      witness_set.go   sequences of set operations against a bit-mask model (injected in-package test)
//	unit main                     witness_main.go  command lines of the built peg binary: exit status 0 iff a complete parser was written
//	unit tree, analyses           witness_tree.go  small grammars: peg's diagnostics against an independent analysis of the grammar
//	unit tree, builder / pegpeg   witness_tree.go  generated grammar texts with their expected rule tree; malformed texts
//
// A witness is a UnitWitness; its JSON form is stored in Obligation.Ground of the failing obligations of the functions the
// input runs through, written into the replay file as `failing_input`, and reproduced from that file alone by
// `govc replay-unit <replay.json>` (exit status 1: the mismatch reproduces on the current tree, 0: the real code now agrees).

import (
	"embed"
	"encoding/json"
	"fmt"
	"os"
	"path/filepath"
	"sort"
	"strings"
	"time"
)

//go:embed witness/*.txt
var witnessFiles embed.FS

// UnitWitness: a concrete failing input, replayed on the real code.
type UnitWitness struct {
	Unit        string          `json:"unit"`
	Kind        string          `json:"kind"`      // "set-ops" | "cli" | "diagnostics" | "syntax": selects the replayer
	Functions   []string        `json:"functions"` // functions of the unit the input runs through
	Input       json.RawMessage `json:"input"`     // operation sequence / command line and files / grammar text with what is expected
	Observation string          `json:"observation"`
	Expected    string          `json:"expected"`
	Actual      string          `json:"actual"`
	Rerun       string          `json:"how_to_rerun"`
}

func (w *UnitWitness) ground() string {
	data, _ := json.Marshal(w)
	return string(data)
}

// searchNote: what a search did (evidence: coverage.witness_search)
type searchNote struct {
	Unit      string   `json:"unit"`
	Search    string   `json:"search"`
	Functions []string `json:"failing_functions"`
	Tried     int64    `json:"inputs_tried"`
	Found     bool     `json:"witness_found"`
	Attached  int      `json:"obligations_with_failing_input"`
	Seconds   float64  `json:"seconds"`
	Detail    string   `json:"detail,omitempty"`
}

// obligationUnitFn: unit and function of an obligation; obligations made up by report() (vacuity, count) carry them in the name
// only ("set/Set.AddRange#ensures.count", "tree#frame[...]").
func obligationUnitFn(ob *Obligation) (string, string) {
	if ob.Unit != "" && ob.Fn != "" {
		return ob.Unit, ob.Fn
	}
	name := ob.Name
	if i := strings.Index(name, "#"); i >= 0 {
		name = name[:i]
	}
	if i := strings.Index(name, "/"); i >= 0 {
		return name[:i], name[i+1:]
	}
	return name, ob.Fn
}

// witnessBudget: seconds for all witness searches of one check run
func witnessBudget(tier string) time.Duration {
	if tier == "thorough" {
		return 10 * time.Minute
	}
	return 60 * time.Second
}

// unitWitnesses is the single entry point called by report(): it groups the failing obligations by the search that can
// illustrate them, runs the searches one after the other within the budget of the tier and sets Ground where a witness was
// found and reproduced. It must not be called with obligations that did not fail.
func (r *Run) unitWitnesses(failing []*Obligation) {
	isBuilder := map[string]bool{}
	for _, k := range builderKeys {
		isBuilder[k] = true
	}
	groups := map[string][]*Obligation{}
	for _, ob := range failing {
		unit, fn := obligationUnitFn(ob)
		switch {
		case unit == "set":
			groups["set"] = append(groups["set"], ob)
		case unit == "main":
			groups["main"] = append(groups["main"], ob)
		case unit == "pegpeg", unit == "tree" && isBuilder[fn]:
			groups["syntax"] = append(groups["syntax"], ob)
		case unit == "tree":
			groups["diagnostics"] = append(groups["diagnostics"], ob)
		}
	}
	if len(groups) == 0 {
		return
	}
	deadline := time.Now().Add(witnessBudget(r.Tier))
	var notes []*searchNote
	order := []string{"set", "main", "diagnostics", "syntax"}
	left := len(groups)
	for _, g := range order {
		obs := groups[g]
		if len(obs) == 0 {
			continue
		}
		// each search gets an equal share of what is left of the budget
		share := time.Until(deadline) / time.Duration(left)
		left--
		if share < 5*time.Second {
			notes = append(notes, &searchNote{Search: g, Detail: "not run: the time budget of the witness search was used up"})
			continue
		}
		start := time.Now()
		var note *searchNote
		func() {
			// the search is an illustration: a failure inside it must never change the outcome of the check
			defer func() {
				if p := recover(); p != nil {
					note = &searchNote{Search: g, Detail: fmt.Sprintf("search aborted: %v", p)}
				}
			}()
			switch g {
			case "set":
				note = r.witnessSet(obs, start.Add(share))
			case "main":
				note = r.witnessMain(obs, start.Add(share))
			case "diagnostics":
				note = r.witnessDiagnostics(obs, start.Add(share))
			case "syntax":
				note = r.witnessSyntax(obs, start.Add(share))
			}
		}()
		if note == nil {
			continue
		}
		note.Search = g
		note.Seconds = time.Since(start).Seconds()
		for _, ob := range obs {
			if ob.Ground != "" {
				note.Attached++
			}
		}
		notes = append(notes, note)
	}
	r.Extra["witness_search"] = notes
	for _, n := range notes {
		r.Notes = append(r.Notes, fmt.Sprintf("witness search %s: %d inputs tried, witness found: %v, %d failing obligations carry a failing input (%.1fs) %s",
			n.Search, n.Tried, n.Found, n.Attached, n.Seconds, n.Detail))
	}
}

// failingFunctions: the distinct functions of a group of obligations, in the order of first occurrence
func failingFunctions(obs []*Obligation) []string {
	seen := map[string]bool{}
	var out []string
	for _, ob := range obs {
		_, fn := obligationUnitFn(ob)
		if !seen[fn] {
			seen[fn] = true
			out = append(out, fn)
		}
	}
	return out
}

// attach stores the witness in the failing obligations of the functions it runs through (all: every obligation of the group).
func attach(obs []*Obligation, w *UnitWitness, all bool) {
	in := map[string]bool{}
	for _, f := range w.Functions {
		in[f] = true
	}
	g := w.ground()
	for _, ob := range obs {
		_, fn := obligationUnitFn(ob)
		if ob.Ground == "" && (all || in[fn]) {
			ob.Ground = g
		}
	}
}

// witnessDir: a fresh directory for the files of one search or replay (below the scratch directory of this run)
func witnessDir(name string) string {
	d := filepath.Join(scratchDir, "witness", name)
	_ = os.MkdirAll(d, 0o755)
	return d
}

// replayPrefix: how to call this govc on the tree it is checking (the defaults need no environment)
func replayPrefix() string {
	env := ""
	if repoDir != "/repo" {
		env += "GOVC_REPO=" + repoDir + " "
	}
	if verifDir != "/verif" {
		env += "GOVC_VERIF=" + verifDir + " "
	}
	return "cd " + verifDir + " && " + env + "bin/govc replay-unit "
}

// groundForReplay: the structured form of Obligation.Ground for the replay file, and the command that reproduces it; ok is
// false when Ground is not a UnitWitness (then the caller keeps its own representation).
func groundForReplay(ground, replayPath string) (input any, command string, ok bool) {
	var w UnitWitness
	if json.Unmarshal([]byte(ground), &w) != nil || w.Kind == "" {
		return nil, "", false
	}
	var v any
	_ = json.Unmarshal([]byte(ground), &v)
	return v, replayPrefix() + replayPath, true
}

// cmdReplayUnit: `govc replay-unit <replay.json>`: run the failing input of a replay file against the current working tree.
// Exit status 1: the mismatch reproduces; 0: the real code agrees with what is expected; 2: the file has no replayable input.
func cmdReplayUnit(args []string) int {
	if len(args) < 1 {
		fmt.Println("usage: govc replay-unit <replay.json>")
		return 2
	}
	data, err := os.ReadFile(args[0])
	if err != nil {
		fmt.Println(err)
		return 2
	}
	var file struct {
		Obligation string          `json:"obligation"`
		Input      json.RawMessage `json:"failing_input"`
	}
	var w UnitWitness
	if err := json.Unmarshal(data, &file); err != nil || len(file.Input) == 0 || json.Unmarshal(file.Input, &w) != nil || w.Kind == "" {
		fmt.Println("replay-unit: the file carries no failing input of a unit witness search")
		return 2
	}
	fmt.Printf("replay of %s (%s, unit %s) against %s\n", file.Obligation, w.Kind, w.Unit, repoDir)
	var again *UnitWitness
	switch w.Kind {
	case "set-ops":
		again, err = replaySet(&w)
	case "cli":
		again, err = replayMain(&w)
	case "diagnostics":
		again, err = replayDiagnostics(&w)
	case "syntax":
		again, err = replaySyntax(&w)
	default:
		err = fmt.Errorf("unknown kind %q", w.Kind)
	}
	if err != nil {
		fmt.Println("replay-unit: could not run:", err)
		return 2
	}
	if again == nil {
		fmt.Println("AGREES: the real code behaves as expected on this input")
		return 0
	}
	fmt.Printf("REPRODUCED: %s\n  expected: %s\n  actual:   %s\n", again.Observation, again.Expected, again.Actual)
	return 1
}

func sortedSet(m map[string]bool) []string {
	var out []string
	for k, v := range m {
		if v {
			out = append(out, k)
		}
	}
	sort.Strings(out)
	return out
}

// cmdWitness: `govc witness <unit> <function> [quick|thorough]`: development aid. Runs the witness search of a unit as if an
// obligation of the named function had failed (no proof is attempted, nothing is reported as a violation) and prints what
// the search found. Example: govc witness set Set.AddRange; govc witness tree Tree.checkRecursion; govc witness pegpeg peg.peg
func cmdWitness(args []string) int {
	if len(args) < 2 {
		fmt.Println("usage: govc witness <set|main|tree|pegpeg> <function> [quick|thorough]")
		return 2
	}
	tier := "quick"
	if len(args) > 2 {
		tier = args[2]
	}
	r := NewRun("witness", tier, 0)
	var obs []*Obligation
	for _, fn := range strings.Split(args[1], ",") {
		obs = append(obs, &Obligation{Name: args[0] + "/" + fn + "#assumed-failing", Unit: args[0], Fn: fn, Kind: "ensures", Result: SolverResult{Verdict: VUnknown}})
	}
	r.unitWitnesses(obs)
	data, _ := json.MarshalIndent(r.Extra["witness_search"], "", " ")
	fmt.Println(string(data))
	found := 0
	for _, ob := range obs {
		if ob.Ground == "" {
			fmt.Printf("%s: no-failing-input-found\n", ob.Name)
			continue
		}
		found++
		var w UnitWitness
		_ = json.Unmarshal([]byte(ob.Ground), &w)
		fmt.Printf("%s: %s\n  input:    %s\n  observed: %s\n  expected: %s\n  actual:   %s\n", ob.Name, w.Kind, trunc(string(w.Input), 1500), w.Observation, w.Expected, w.Actual)
	}
	if found > 0 {
		return 1
	}
	return 0
}
