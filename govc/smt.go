package main

// SMT-LIB term construction (terms are strings), solver portfolio.

import (
	"bytes"
	"context"
	"fmt"
	"math/big"
	"os"
	"os/exec"
	"path/filepath"
	"strings"
	"sync"
	"time"
)

type Sort string

const (
	SInt  Sort = "Int"
	SBool Sort = "Bool"
	SStr  Sort = "Str"
)

func arr(k, v Sort) Sort { return Sort("(Array " + string(k) + " " + string(v) + ")") }

func sx(op string, args ...string) string {
	if len(args) == 0 {
		return op
	}
	return "(" + op + " " + strings.Join(args, " ") + ")"
}

func num(i int64) string {
	if i < 0 {
		return fmt.Sprintf("(- %d)", -i)
	}
	return fmt.Sprintf("%d", i)
}

func numBig(b *big.Int) string {
	if b.Sign() < 0 {
		return "(- " + new(big.Int).Neg(b).String() + ")"
	}
	return b.String()
}

func and(xs ...string) string {
	var ys []string
	for _, x := range xs {
		if x == "true" || x == "" {
			continue
		}
		if x == "false" {
			return "false"
		}
		ys = append(ys, x)
	}
	switch len(ys) {
	case 0:
		return "true"
	case 1:
		return ys[0]
	}
	return sx("and", ys...)
}

func or(xs ...string) string {
	var ys []string
	for _, x := range xs {
		if x == "false" || x == "" {
			continue
		}
		if x == "true" {
			return "true"
		}
		ys = append(ys, x)
	}
	switch len(ys) {
	case 0:
		return "false"
	case 1:
		return ys[0]
	}
	return sx("or", ys...)
}

func not(x string) string {
	switch x {
	case "true":
		return "false"
	case "false":
		return "true"
	}
	if strings.HasPrefix(x, "(not ") && balancedTail(x[5:len(x)-1]) {
		return x[5 : len(x)-1]
	}
	return sx("not", x)
}

func balancedTail(s string) bool {
	d := 0
	for i, c := range s {
		switch c {
		case '(':
			d++
		case ')':
			d--
			if d < 0 {
				return false
			}
			if d == 0 && i != len(s)-1 {
				return false
			}
		case ' ':
			if d == 0 {
				return false
			}
		}
	}
	return d == 0
}

func imp(a, b string) string {
	if a == "true" {
		return b
	}
	if a == "false" || b == "true" {
		return "true"
	}
	return sx("=>", a, b)
}
func eq(a, b string) string {
	if a == b {
		return "true"
	}
	return sx("=", a, b)
}
func ite(c, a, b string) string {
	if c == "true" {
		return a
	}
	if c == "false" {
		return b
	}
	if a == b {
		return a
	}
	return sx("ite", c, a, b)
}
func sel(a, i string) string    { return sx("select", a, i) }
func sto(a, i, v string) string { return sx("store", a, i, v) }
func sym(s string) string {
	for _, c := range s {
		if !(c >= 'a' && c <= 'z' || c >= 'A' && c <= 'Z' || c >= '0' && c <= '9' || c == '_' || c == '.' || c == '!' || c == '$' || c == '@') {
			return "|" + s + "|"
		}
	}
	if s != "" && s[0] >= '0' && s[0] <= '9' {
		return "|" + s + "|"
	}
	return s
}

// ---------------------------------------------------------------------------------------------
// Solvers

type Verdict int

const (
	VUnknown Verdict = iota
	VUnsat
	VSat
	VError
)

func (v Verdict) String() string {
	return [...]string{"unknown", "unsat", "sat", "error"}[v]
}

type SolverResult struct {
	Verdict Verdict
	Backend string
	Seconds float64
	Output  string // raw (truncated) output of the deciding or last solver
	Tried   []string
}

type solverSpec struct {
	name string
	argv func(file string, timeoutS int) []string
	prep func(q string) string
}

var solverSpecs = map[string]solverSpec{
	"z3-new": {"z3-new", func(f string, t int) []string {
		return []string{"z3-new", fmt.Sprintf("-T:%d", t), "-smt2", f}
	}, func(q string) string { return q }},
	"z3": {"z3", func(f string, t int) []string { return []string{"/usr/bin/z3", fmt.Sprintf("-T:%d", t), "-smt2", f} },
		func(q string) string { return q }},
	"cvc5": {"cvc5", func(f string, t int) []string {
		return []string{"cvc5", fmt.Sprintf("--tlimit=%d", t*1000), "--lang=smt2", f}
	}, func(q string) string { return "(set-logic ALL)\n" + q }},
}

var scratchDir string
var solverSeq int64
var solverSeqMu sync.Mutex

func runOne(spec solverSpec, query string, timeoutS int) (Verdict, string, float64) {
	solverSeqMu.Lock()
	solverSeq++
	id := solverSeq
	solverSeqMu.Unlock()
	file := filepath.Join(scratchDir, fmt.Sprintf("q%d-%s.smt2", id, spec.name))
	if err := os.WriteFile(file, []byte(spec.prep(query)), 0o644); err != nil {
		return VError, err.Error(), 0
	}
	defer os.Remove(file)
	ctx, cancel := context.WithTimeout(context.Background(), time.Duration(timeoutS+2)*time.Second)
	defer cancel()
	argv := spec.argv(file, timeoutS)
	cmd := exec.CommandContext(ctx, argv[0], argv[1:]...)
	var out bytes.Buffer
	cmd.Stdout = &out
	cmd.Stderr = &out
	t0 := time.Now()
	_ = cmd.Run()
	dt := time.Since(t0).Seconds()
	text := out.String()
	first := strings.TrimSpace(strings.SplitN(text, "\n", 2)[0])
	if strings.Contains(text, "(error") && !strings.Contains(text, "model is not available") {
		return VError, text, dt
	}
	switch first {
	case "unsat":
		return VUnsat, text, dt
	case "sat":
		return VSat, text, dt
	case "unknown", "timeout", "":
		return VUnknown, text, dt
	}
	if strings.Contains(first, "error") || strings.Contains(text, "(error") {
		return VError, text, dt
	}
	return VUnknown, text, dt
}

// solve runs the portfolio on one query: z3-new with a short budget first (it decides almost
// everything), then z3 4.8.12 and cvc5 in parallel with the full budget.
func solve(query string, budgetS int, wantModel bool, order []string) SolverResult {
	q := query + "\n(check-sat)\n"
	if wantModel {
		q = "(set-option :produce-models true)\n" + query + "\n(check-sat)\n(get-model)\n"
	}
	res := SolverResult{}
	if len(order) == 0 {
		order = []string{"z3-new", "z3", "cvc5"}
	}
	first := budgetS
	if first > 4 {
		first = budgetS/3 + 1
	}
	v, out, dt := runOne(solverSpecs[order[0]], q, first)
	res.Tried = append(res.Tried, fmt.Sprintf("%s:%s:%.2fs", order[0], v, dt))
	res.Seconds += dt
	if v == VUnsat || v == VSat {
		res.Verdict, res.Backend, res.Output = v, order[0], trunc(out, 20000)
		return res
	}
	lastOut := out
	type r struct {
		v   Verdict
		out string
		dt  float64
		n   string
	}
	ch := make(chan r, len(order))
	for _, n := range order[1:] {
		go func(n string) {
			v, out, dt := runOne(solverSpecs[n], q, budgetS)
			ch <- r{v, out, dt, n}
		}(n)
	}
	for range order[1:] {
		x := <-ch
		res.Tried = append(res.Tried, fmt.Sprintf("%s:%s:%.2fs", x.n, x.v, x.dt))
		if x.dt > 0 {
			res.Seconds += x.dt
		}
		if (x.v == VUnsat || x.v == VSat) && res.Verdict == VUnknown {
			res.Verdict, res.Backend, res.Output = x.v, x.n, trunc(x.out, 20000)
		}
		if x.v == VError && res.Verdict == VUnknown {
			lastOut = x.out
		}
	}
	if res.Verdict == VUnknown {
		res.Output = trunc(lastOut, 4000)
	}
	return res
}

func trunc(s string, n int) string {
	if len(s) > n {
		return s[:n] + "...[truncated]"
	}
	return s
}
