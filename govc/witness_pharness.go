package main

// Witness search, part 2: the harness. For a grammar text and an option list, build peg from the
// working tree of /repo (buildTools), generate the parser, add a small main package that reads test
// cases from stdin and prints what the real parser does with each of them, one JSON line per case.
// The process is supervised: a case that does not return within the per-case limit, or a process
// that dies (stack overflow, memory), is reported for that case and the batch is resumed behind it.

import (
	"bufio"
	"bytes"
	"context"
	"encoding/json"
	"fmt"
	"os"
	"os/exec"
	"path/filepath"
	"regexp"
	"strings"
	"sync"
	"sync/atomic"
	"time"
)

// WCase is one test case: parse `Input` starting at rule `Rule`, with the state variable ok = PredOK.
type WCase struct {
	ID     int    `json:"id"`
	Rule   string `json:"rule"`
	Input  []byte `json:"input"` // bytes, so that invalid UTF-8 survives the transport
	PredOK bool   `json:"ok"`
}

// WErr is the parse error of a failed parse: its token and its message.
type WErr struct {
	R        string `json:"r"`
	B        int    `json:"b"`
	E        int    `json:"e"`
	Msg      string `json:"msg"`
	MsgPanic string `json:"msgpanic,omitempty"`
}

// WObs is one parse as observed on the real parser.
type WObs struct {
	Panic     string   `json:"panic,omitempty"`
	OK        bool     `json:"ok"`
	Toks      []WTok   `json:"toks,omitempty"`
	Err       *WErr    `json:"err,omitempty"`
	ExecRan   bool     `json:"execran,omitempty"`
	ExecPanic string   `json:"execpanic,omitempty"`
	ExecN     int      `json:"execn,omitempty"`
	ExecLog   []string `json:"execlog,omitempty"`
	AstPanic  string   `json:"astpanic,omitempty"`
	Ast       []WNode  `json:"ast,omitempty"`
	Tree      string   `json:"tree,omitempty"`
	InlineN   int      `json:"inlinen,omitempty"`
	InlineLog []string `json:"inlinelog,omitempty"`
}

// WOut is the harness output for one case.
type WOut struct {
	ID      int    `json:"id"`
	NilRule bool   `json:"nilrule,omitempty"` // the rule has no closure (unused, or inlined by -inline)
	Hang    bool   `json:"hang,omitempty"`    // the case did not return within the per-case limit
	Mem     bool   `json:"mem,omitempty"`     // ... and the process grew beyond the memory limit
	Crash   string `json:"crash,omitempty"`   // the process died on this case (set by the supervisor)
	Fresh   *WObs  `json:"fresh,omitempty"`   // a freshly constructed parser
	NoMemo  *WObs  `json:"nomemo,omitempty"`  // a fresh parser with DisableMemoize
	Reset   *WObs  `json:"reset,omitempty"`   // one long-lived parser: Buffer = input; Reset(); Parse (after the previous, different input)
	Reset2  *WObs  `json:"reset2,omitempty"`  // the same once more with the identical input
}

// Harness is a built test driver for one (grammar, options).
type Harness struct {
	Dir       string
	Bin       string
	Spec      *PegSpec
	Grammar   string            // text
	Companion map[string]string // hand-written Go files of a shipped grammar (types used by its actions): name -> text
	Opts      []string
	Ast       bool
	Switch    bool
	Struct    string
	RuleNames []string // rul3s of the generated file (index = rule constant)
	HasN      bool     // state has `n int`
	HasOK     bool     // state has `ok bool`
	HasLog    bool     // state has `log []string`
	HasExec   bool     // the generated file has Execute and every action has an observable effect form
	ExecObs   bool
	InlineObs bool // (no AST) every action and state change has an observable effect form
}

var harnessSeq atomic.Int64
var toolsMu sync.Mutex // guards the re-build of the tools (see buildParserHarness)

// buildParserHarness generates the parser for the grammar text under opts in a fresh directory of the
// scratch area and compiles it together with the driver. The rule tree is dumped by treedump.
func buildParserHarness(grammar string, opts []string, companion map[string]string) (*Harness, error) {
	t, err := buildTools()
	if err != nil {
		return nil, err
	}
	if _, serr := os.Stat(t.Peg); serr != nil {
		// the scratch directory was removed under a long run (shared /var/tmp): build the tools again
		toolsMu.Lock()
		if _, serr := os.Stat(tools.Peg); serr != nil {
			toolsOnce = sync.Once{}
		}
		t, err = buildTools()
		toolsMu.Unlock()
		if err != nil {
			return nil, err
		}
	}
	h := &Harness{Grammar: grammar, Opts: opts, Companion: companion, Ast: true}
	for _, o := range opts {
		switch o {
		case "-noast":
			h.Ast = false
		case "-switch":
			h.Switch = true
		}
	}
	h.Dir = filepath.Join(scratchDir, "witness", fmt.Sprintf("h%d", harnessSeq.Add(1)))
	if err := os.MkdirAll(h.Dir, 0o755); err != nil {
		return nil, err
	}
	gfile := filepath.Join(h.Dir, "g.peg")
	if err := os.WriteFile(gfile, []byte(grammar), 0o644); err != nil {
		return nil, err
	}
	args := append(append([]string{}, opts...), "-output", filepath.Join(h.Dir, "g.go"), gfile)
	if out, err := runCmd(h.Dir, t.Peg, args...); err != nil {
		return nil, fmt.Errorf("peg %s: %v\n%s", strings.Join(opts, " "), err, trunc(out, 1000))
	}
	dump, err := runCmd(h.Dir, t.TreeDump, gfile)
	if err != nil {
		return nil, fmt.Errorf("treedump: %v\n%s", err, trunc(dump, 1000))
	}
	if err := os.WriteFile(filepath.Join(h.Dir, "tree.json"), []byte(dump), 0o644); err != nil {
		return nil, err
	}
	if h.Spec, err = LoadPegSpec(filepath.Join(h.Dir, "tree.json")); err != nil {
		return nil, err
	}
	h.Spec.computeFirst() // nullable / left recursion: the domain of C01 (witness_enum.go: wellFormed)
	state := ""
	for _, n := range h.Spec.Top {
		if n.TypeName == "Peg" {
			h.Struct = n.Str
			for _, k := range n.Kids {
				if k.TypeName == "State" {
					state = k.Str
				}
			}
		}
	}
	if h.Struct == "" {
		return nil, fmt.Errorf("grammar has no parser declaration")
	}
	h.HasN = regexp.MustCompile(`(?m)^\s*n\s+int\s*$`).MatchString(state)
	h.HasOK = regexp.MustCompile(`(?m)^\s*ok\s+bool\s*$`).MatchString(state)
	h.HasLog = regexp.MustCompile(`(?m)^\s*log\s+\[\]string\s*$`).MatchString(state)
	src, err := os.ReadFile(filepath.Join(h.Dir, "g.go"))
	if err != nil {
		return nil, err
	}
	gsrc := string(src)
	// the driver lives in package main next to the generated file (and the companions of a shipped grammar)
	pkgRe := regexp.MustCompile(`(?m)^package\s+\w+`)
	if m := pkgRe.FindString(gsrc); m != "" && m != "package main" {
		gsrc = strings.Replace(gsrc, m, "package main", 1)
		if err := os.WriteFile(filepath.Join(h.Dir, "g.go"), []byte(gsrc), 0o644); err != nil {
			return nil, err
		}
	}
	for name, text := range companion {
		if m := pkgRe.FindString(text); m != "" {
			text = strings.Replace(text, m, "package main", 1)
		}
		if err := os.WriteFile(filepath.Join(h.Dir, "companion_"+filepath.Base(name)), []byte(text), 0o644); err != nil {
			return nil, err
		}
	}
	if i := strings.Index(gsrc, "var rul3s = [...]string{"); i >= 0 {
		blk := gsrc[i:]
		if j := strings.Index(blk, "\n}"); j >= 0 {
			for _, m := range regexp.MustCompile(`(?m)^\s*"((?:[^"\\]|\\.)*)",\s*$`).FindAllStringSubmatch(blk[:j], -1) {
				h.RuleNames = append(h.RuleNames, m[1])
			}
		}
	}
	h.HasExec = h.Ast && strings.Contains(gsrc, ") Execute() {")
	h.ExecObs = h.HasExec && (h.HasN || h.HasLog) && actionsObservable(h.Spec, false)
	h.InlineObs = !h.Ast && (h.HasN || h.HasLog) && actionsObservable(h.Spec, true)
	if err := os.WriteFile(filepath.Join(h.Dir, "govcw_main.go"), []byte(h.driverSource()), 0o644); err != nil {
		return nil, err
	}
	_ = os.WriteFile(filepath.Join(h.Dir, "go.mod"), []byte("module m\n\ngo 1.26\n\nrequire github.com/pointlander/peg v0.0.0\n\nreplace github.com/pointlander/peg => "+repoDir+"\n"), 0o644)
	h.Bin = filepath.Join(h.Dir, "harness")
	if out, err := runCmd(h.Dir, "go", "build", "-o", h.Bin, "."); err != nil {
		return nil, fmt.Errorf("generated parser (or its driver) does not compile: %v\n%s", err, trunc(out, 1500))
	}
	return h, nil
}

// driverSource renders the driver. Every identifier of its own starts with govcW (the generated file owns
// the rest of the package scope).
func (h *Harness) driverSource() string {
	T := h.Struct + "[uint32]"
	var sb strings.Builder
	w := func(f string, a ...any) { fmt.Fprintf(&sb, f, a...) }
	w(`// Code generated by govc (witness search). DO NOT EDIT.
package main

import (
	"bufio"
	"encoding/json"
	"fmt"
	"os"
	"runtime"
	"runtime/debug"
	"sync/atomic"
	"time"
)

type govcWCase struct {
	ID    int    %[1]sjson:"id"%[1]s
	Rule  string %[1]sjson:"rule"%[1]s
	Input []byte %[1]sjson:"input"%[1]s
	OK    bool   %[1]sjson:"ok"%[1]s
}

type govcWTok struct {
	R string %[1]sjson:"r"%[1]s
	B int    %[1]sjson:"b"%[1]s
	E int    %[1]sjson:"e"%[1]s
}

type govcWNode struct {
	R string %[1]sjson:"r"%[1]s
	B int    %[1]sjson:"b"%[1]s
	E int    %[1]sjson:"e"%[1]s
	D int    %[1]sjson:"d"%[1]s
}

type govcWErr struct {
	R        string %[1]sjson:"r"%[1]s
	B        int    %[1]sjson:"b"%[1]s
	E        int    %[1]sjson:"e"%[1]s
	Msg      string %[1]sjson:"msg"%[1]s
	MsgPanic string %[1]sjson:"msgpanic,omitempty"%[1]s
}

type govcWObs struct {
	Panic     string      %[1]sjson:"panic,omitempty"%[1]s
	OK        bool        %[1]sjson:"ok"%[1]s
	Toks      []govcWTok  %[1]sjson:"toks,omitempty"%[1]s
	Err       *govcWErr   %[1]sjson:"err,omitempty"%[1]s
	ExecRan   bool        %[1]sjson:"execran,omitempty"%[1]s
	ExecPanic string      %[1]sjson:"execpanic,omitempty"%[1]s
	ExecN     int         %[1]sjson:"execn,omitempty"%[1]s
	ExecLog   []string    %[1]sjson:"execlog,omitempty"%[1]s
	AstPanic  string      %[1]sjson:"astpanic,omitempty"%[1]s
	Ast       []govcWNode %[1]sjson:"ast,omitempty"%[1]s
	Tree      string      %[1]sjson:"tree,omitempty"%[1]s
	InlineN   int         %[1]sjson:"inlinen,omitempty"%[1]s
	InlineLog []string    %[1]sjson:"inlinelog,omitempty"%[1]s
}

type govcWOut struct {
	ID      int       %[1]sjson:"id"%[1]s
	NilRule bool      %[1]sjson:"nilrule,omitempty"%[1]s
	Fresh   *govcWObs %[1]sjson:"fresh,omitempty"%[1]s
	NoMemo  *govcWObs %[1]sjson:"nomemo,omitempty"%[1]s
	Reset   *govcWObs %[1]sjson:"reset,omitempty"%[1]s
	Reset2  *govcWObs %[1]sjson:"reset2,omitempty"%[1]s
}

var govcWStart, govcWCur atomic.Int64
var govcWBase = time.Now() // case start times are monotonic offsets from here (a step of the wall clock must not look like a hang)

// govcWWatch ends the process when a case exceeds the time limit or the process the memory limit.
func govcWWatch(limit time.Duration) {
	var ms runtime.MemStats
	for {
		time.Sleep(20 * time.Millisecond)
		s := govcWStart.Load()
		if s == 0 {
			continue
		}
		runtime.ReadMemStats(&ms)
		over := ms.Sys > 1<<30
		if over || time.Since(govcWBase)-time.Duration(s) > limit {
			fmt.Fprintf(os.Stdout, "\n{\"id\":%%d,\"hang\":true,\"mem\":%%v}\n", govcWCur.Load(), over)
			os.Exit(3)
		}
	}
}

func govcWName(r int) string {
	if r >= 0 && r < len(rul3s) {
		return rul3s[r]
	}
	return fmt.Sprintf("#%%d", r)
}

`, "`")
	// one observation: Parse (and what follows it) on a parser whose Buffer has been set
	w("func govcWObserve(p *%s, rule int) (o *govcWObs) {\n\to = &govcWObs{}\n", T)
	w("\tdefer func() {\n\t\tif r := recover(); r != nil {\n\t\t\to.Panic = fmt.Sprint(r)\n\t\t}\n\t}()\n")
	if h.HasN {
		w("\tn0 := p.n\n")
	}
	if h.HasLog {
		w("\tl0 := len(p.log)\n")
	}
	w("\terr := p.Parse(rule)\n")
	if !h.Ast {
		if h.HasN {
			w("\to.InlineN = p.n - n0\n")
		}
		if h.HasLog {
			w("\to.InlineLog = append([]string{}, p.log[l0:]...)\n")
		}
	} else {
		if h.HasN {
			w("\t_ = n0\n")
		}
		if h.HasLog {
			w("\t_ = l0\n")
		}
	}
	w(`	if err != nil {
		pe, ok := err.(*parseError[uint32])
		if !ok {
			o.Panic = "Parse returned an error that is not a parse error: " + err.Error()
			return o
		}
		o.Err = &govcWErr{R: govcWName(int(pe.maxToken.pegRule)), B: int(pe.maxToken.begin), E: int(pe.maxToken.end)}
		func() {
			defer func() {
				if r := recover(); r != nil {
					o.Err.MsgPanic = fmt.Sprint(r)
				}
			}()
			o.Err.Msg = err.Error()
		}()
		return o
	}
	o.OK = true
`)
	if h.Ast {
		w("\tfor _, t := range p.Tokens() {\n\t\to.Toks = append(o.Toks, govcWTok{govcWName(int(t.pegRule)), int(t.begin), int(t.end)})\n\t}\n")
		if h.ExecObs {
			w("\tfunc() {\n\t\tdefer func() {\n\t\t\tif r := recover(); r != nil {\n\t\t\t\to.ExecPanic = fmt.Sprint(r)\n\t\t\t}\n\t\t}()\n")
			if h.HasN {
				w("\t\tn1 := p.n\n")
			}
			if h.HasLog {
				w("\t\tl1 := len(p.log)\n")
			}
			w("\t\tp.Execute()\n\t\to.ExecRan = true\n")
			if h.HasN {
				w("\t\to.ExecN = p.n - n1\n")
			}
			if h.HasLog {
				w("\t\to.ExecLog = append([]string{}, p.log[l1:]...)\n")
			}
			w("\t}()\n")
		}
		w(`	func() {
		defer func() {
			if r := recover(); r != nil {
				o.AstPanic = fmt.Sprint(r)
			}
		}()
		var walk func(n *node[uint32], d int)
		walk = func(n *node[uint32], d int) {
			for n != nil {
				if len(o.Ast) > 20000 {
					panic("syntax tree has more than 20000 nodes (cycle?)")
				}
				o.Ast = append(o.Ast, govcWNode{govcWName(int(n.pegRule)), int(n.begin), int(n.end), d})
				walk(n.up, d+1)
				n = n.next
			}
		}
		walk(p.AST(), 0)
		o.Tree = p.SprintSyntaxTree()
	}()
`)
	}
	w("\treturn o\n}\n\n")
	// main loop
	w("func main() {\n\tdebug.SetMaxStack(256 << 20)\n\tlimit := 2 * time.Second\n\tif len(os.Args) > 1 {\n\t\tif d, err := time.ParseDuration(os.Args[1]); err == nil {\n\t\t\tlimit = d\n\t\t}\n\t}\n")
	w("\tgo govcWWatch(limit)\n\tbyName := map[string]int{}\n\tfor i, s := range rul3s {\n\t\tbyName[s] = i\n\t}\n")
	w("\tin := bufio.NewReaderSize(os.Stdin, 1<<20)\n\tout := bufio.NewWriterSize(os.Stdout, 1<<20)\n\tdefer out.Flush()\n\tdec := json.NewDecoder(in)\n\tenc := json.NewEncoder(out)\n")
	w("\tlong := &%s{}\n\t_ = long.Init()\n", T)
	w("\tfor {\n\t\tvar c govcWCase\n\t\tif err := dec.Decode(&c); err != nil {\n\t\t\tbreak\n\t\t}\n")
	w("\t\tres := govcWOut{ID: c.ID}\n\t\tr, ok := byName[c.Rule]\n")
	w("\t\tif !ok || r == 0 || long.rules[r] == nil {\n\t\t\tres.NilRule = true\n\t\t\t_ = enc.Encode(&res)\n\t\t\tcontinue\n\t\t}\n")
	w("\t\tout.Flush()\n\t\tgovcWCur.Store(int64(c.ID))\n\t\tgovcWStart.Store(int64(time.Since(govcWBase)) + 1)\n")
	setOK := func(v string) string {
		if h.HasOK {
			return "\t\t" + v + ".ok = c.OK\n"
		}
		return ""
	}
	w("\t\tp := &%s{Buffer: string(c.Input)}\n%s\t\t_ = p.Init()\n\t\tres.Fresh = govcWObserve(p, r)\n", T, setOK("p"))
	if h.Ast {
		w("\t\tq := &%s{Buffer: string(c.Input)}\n%s\t\t_ = q.Init(DisableMemoize[uint32]())\n\t\tres.NoMemo = govcWObserve(q, r)\n", T, setOK("q"))
	}
	w("%s\t\tlong.Buffer = string(c.Input)\n\t\tfunc() {\n\t\t\tdefer func() {\n\t\t\t\tif x := recover(); x != nil {\n\t\t\t\t\tres.Reset = &govcWObs{Panic: \"Reset: \" + fmt.Sprint(x)}\n\t\t\t\t}\n\t\t\t}()\n\t\t\tlong.Reset()\n\t\t\tres.Reset = govcWObserve(long, r)\n\t\t\tlong.Buffer = string(c.Input)\n\t\t\tlong.Reset()\n\t\t\tres.Reset2 = govcWObserve(long, r)\n\t\t}()\n", setOK("long"))
	w("\t\tgovcWStart.Store(0)\n\t\t_ = enc.Encode(&res)\n\t}\n}\n")
	return sb.String()
}

// RunCases runs the cases on the real parser and returns one WOut per case (same order). A case on which the
// process hangs or dies is reported as such and the remaining cases are run in a new process (with stopAtFirst they
// are left unanswered instead, so that the caller can look at the hang first: every further hang costs the per-case
// limit). Cases that could not be run before the deadline are returned as nil.
func (h *Harness) RunCases(cases []WCase, perCase time.Duration, deadline time.Time, stopAtFirst bool) []*WOut {
	outs := make([]*WOut, len(cases))
	idx := map[int]int{}
	for i, c := range cases {
		idx[c.ID] = i
	}
	start := 0
	for start < len(cases) && time.Now().Before(deadline) {
		var in bytes.Buffer
		enc := json.NewEncoder(&in)
		for _, c := range cases[start:] {
			_ = enc.Encode(&c)
		}
		ctx, cancel := context.WithDeadline(context.Background(), deadline.Add(2*time.Second))
		// address-space limit as a second guard next to the driver's own watchdog
		cmd := exec.CommandContext(ctx, "/bin/sh", "-c", `ulimit -v 8388608 2>/dev/null; exec "$0" "$1"`, h.Bin, perCase.String())
		cmd.Dir = h.Dir
		cmd.Stdin = &in
		var stderr bytes.Buffer
		cmd.Stderr = &stderr
		stdout, err := cmd.StdoutPipe()
		if err != nil {
			cancel()
			return outs
		}
		if err := cmd.Start(); err != nil {
			cancel()
			return outs
		}
		sc := bufio.NewScanner(stdout)
		sc.Buffer(make([]byte, 1<<20), 64<<20)
		next := start // first case without an answer
		hung := false // the driver's watchdog ended the process and said on which case
		for sc.Scan() {
			line := bytes.TrimSpace(sc.Bytes())
			if len(line) == 0 {
				continue
			}
			var o WOut
			if err := json.Unmarshal(line, &o); err != nil {
				continue
			}
			if i, ok := idx[o.ID]; ok && i >= start {
				oc := o
				outs[i] = &oc
				hung = hung || o.Hang
				if i+1 > next {
					next = i + 1
				}
			}
		}
		werr := cmd.Wait()
		timedOut := ctx.Err() != nil
		cancel()
		if next >= len(cases) {
			break
		}
		if timedOut {
			break // the supervisor's own deadline: nothing is concluded about the unanswered cases
		}
		if hung {
			// resume behind the case that did not return
		} else if werr != nil && outs[next] == nil {
			// the process died without answering case `next`: a crash on that case
			outs[next] = &WOut{ID: cases[next].ID, Crash: trunc(strings.TrimSpace(firstLines(stderr.String(), 6)), 600)}
			if outs[next].Crash == "" {
				outs[next].Crash = werr.Error()
			}
			next++
		} else if werr == nil {
			break // clean exit with unanswered cases: malformed transport, give up on the rest
		}
		start = next
		if stopAtFirst {
			break
		}
	}
	return outs
}

func firstLines(s string, n int) string {
	ls := strings.Split(s, "\n")
	if len(ls) > n {
		ls = ls[:n]
	}
	return strings.Join(ls, "\n")
}
