package main

// Witness search, part 1: a reference interpreter of the PEG semantics table of DESIGN.md 4.2.
//
// The interpreter evaluates the rows of the table directly on the rule tree that pegspec loads (the
// tree the real front end built, before Compile rewrites it). It shares nothing with the emitter
// (tree/peg.go) and nothing with the SMT rendering in pegspec.go except the parsed tree: the rows
// were written a second time, operationally, from the table. It is used only to attach a concrete
// failing input to a violation that a failed proof obligation has already established
// (witness_search.go); it never decides a violation.
//
// For a rule X and the input position 0 it returns what the table defines:
//   OK(X,0), END(X,0), APP(X,0,<>) (token list in post-order, the rule's own token last, tokens of
//   failed alternatives / abandoned iterations / lookaheads discarded, captures as PegText tokens,
//   actions as zero-width ActionK tokens), MX(X,0,zero) (the furthest-failure register: `upd` keeps
//   the first non-empty token that reached the furthest end), and for parsers without AST the value
//   of `text` and the log of the actions executed inline by the attempt (columns TXT and LOG).

import (
	"fmt"
	"regexp"
	"strconv"
	"strings"
)

// WTok is a token as the generated parser records it: rule name (rul3s[pegRule]), rune offsets.
type WTok struct {
	R string `json:"r"`
	B int    `json:"b"`
	E int    `json:"e"`
}

// WNode is a node of the syntax tree in pre-order with its depth (C05).
type WNode struct {
	R string `json:"r"`
	B int    `json:"b"`
	E int    `json:"e"`
	D int    `json:"d"`
}

// RefResult: what the specification says about one parse from one rule.
type RefResult struct {
	OK     bool    `json:"ok"`
	End    int     `json:"end"`              // END(X,0) (meaningful when OK)
	Toks   []WTok  `json:"tokens,omitempty"` // APP(X,0,<>) (meaningful when OK)
	Max    WTok    `json:"max_token"`        // MX(X,0,zero): the error token of a failed parse
	ErrMsg string  `json:"error_message,omitempty"`
	Ast    []WNode `json:"ast,omitempty"`
	Tree   string  `json:"tree,omitempty"`
	// Execute (AST parsers): effect of the actions of the derivation, where the action texts are observable
	ExecN   int      `json:"exec_n"`
	ExecLog []string `json:"exec_log,omitempty"`
	// parsers without AST: effect of the inline actions and state changes of the attempt (incl. failed branches)
	InlineN   int      `json:"inline_n"`
	InlineLog []string `json:"inline_log,omitempty"`
	// Undetermined: the table has no value here (uninterpreted predicate, undefined rule, repetition of an
	// expression that matched empty, step budget exhausted): the case is skipped, never reported
	Undetermined string `json:"-"`
}

const wSentinel = 0x110000 // DESIGN.md 4.1: buf[n]

// RefInterp evaluates the table for one grammar.
type RefInterp struct {
	Spec  *PegSpec
	NoAst bool // evaluate the TXT/LOG columns instead of APP/MX

	buf    []rune // input runes followed by the sentinel
	n      int
	predOK bool // value of the state variable `ok` that the schema predicates read
	toks   []WTok
	mx     WTok
	text   string
	inlN   int
	inlLog []string
	fuel   int
	undet  string
	depth  int
}

type refAbort struct{}

func (ri *RefInterp) abort(why string) {
	if ri.undet == "" {
		ri.undet = why
	}
	panic(refAbort{})
}

// upd is the register update of `add`: the first non-empty token that reached the furthest end.
func (ri *RefInterp) upd(t WTok) {
	if t.B != t.E && t.E > ri.mx.E {
		ri.mx = t
	}
}

// Run evaluates rule `rule` at position 0 of the input. predOK is the value of p.ok.
func (ri *RefInterp) Run(rule string, input []byte, predOK bool) (res *RefResult) {
	res = &RefResult{}
	r := ri.Spec.ByName[rule]
	if r == nil {
		res.Undetermined = "no such rule"
		return res
	}
	runes := []rune(string(input)) // the conversion of reset(): invalid UTF-8 becomes U+FFFD, one rune per bad byte
	ri.buf = append(runes, wSentinel)
	ri.n = len(runes)
	ri.predOK = predOK
	ri.toks, ri.mx, ri.text, ri.inlN, ri.inlLog = nil, WTok{R: "Unknown"}, "", 0, nil
	ri.fuel, ri.undet, ri.depth = 400000, "", 0
	defer func() {
		if x := recover(); x != nil {
			if _, ok := x.(refAbort); !ok {
				panic(x)
			}
			res.Undetermined = ri.undet
		}
	}()
	ok, end := ri.rule(r, 0)
	res.OK, res.End, res.Max = ok, end, ri.mx
	if ok {
		res.Toks = append([]WTok{}, ri.toks...)
	}
	res.InlineN, res.InlineLog = ri.inlN, ri.inlLog
	if !ri.NoAst {
		if ok {
			ri.execute(res)
			res.Ast, res.Tree = refAST(res.Toks, runes)
		} else {
			res.ErrMsg = refErrorMessage(ri.buf, res.Max)
		}
	}
	return res
}

// rule: the row `X <- e`.
func (ri *RefInterp) rule(r *PRule, p int) (bool, int) {
	ri.depth++
	if ri.depth > 2000 {
		ri.abort("recursion depth (left recursion?)")
	}
	ok, end := ri.eval(r.Body, p)
	ri.depth--
	if ok && !ri.NoAst {
		t := WTok{r.Name, p, end}
		ri.toks = append(ri.toks, t) // APP(X,p,a) = snoc(app_e(p,a), (X,p,end))
		ri.upd(t)                    // MX(X,p,m) = upd(mx_e(p,m), (X,p,end)) when ok
	}
	return ok, end
}

var (
	reActAddLen = regexp.MustCompile(`^p\.n\s*\+=\s*len\(text\)$`)
	reActInc    = regexp.MustCompile(`^p\.n\+\+$`)
	reActLog    = regexp.MustCompile(`^p\.log\s*=\s*append\(p\.log,\s*("(?:[^"\\]|\\.)*")\s*\+\s*text\)$`)
	reActLogPos = regexp.MustCompile(`^p\.log\s*=\s*append\(p\.log,\s*fmt\.Sprint\(("(?:[^"\\]|\\.)*"),\s*begin,\s*end,\s*text\)\)$`)
)

// actionEffect applies the effect of an action or state-change text to (n, log); ok=false when the
// text is not one of the forms whose effect the harness can observe.
func actionEffect(src, text string, begin, end int, n *int, log *[]string) bool {
	s := strings.TrimSpace(src)
	switch {
	case reActAddLen.MatchString(s):
		*n += len(text)
	case reActInc.MatchString(s):
		*n++
	case reActLog.MatchString(s):
		lit, err := strconv.Unquote(reActLog.FindStringSubmatch(s)[1])
		if err != nil {
			return false
		}
		*log = append(*log, lit+text)
	case reActLogPos.MatchString(s):
		lit, err := strconv.Unquote(reActLogPos.FindStringSubmatch(s)[1])
		if err != nil {
			return false
		}
		*log = append(*log, fmt.Sprint(lit, begin, end, text))
	default:
		return false
	}
	return true
}

// actionsObservable: every action (and, without AST, every state change) of the grammar has an observable effect form.
func actionsObservable(ps *PegSpec, stateChangesToo bool) bool {
	var n int
	var lg []string
	ok := true
	var walk func(x *PNode)
	walk = func(x *PNode) {
		if x.TypeName == "Action" || (stateChangesToo && x.TypeName == "StateChange") {
			if !actionEffect(x.Str, "", 0, 0, &n, &lg) {
				ok = false
			}
		}
		if x.TypeName == "Range" {
			return
		}
		for _, c := range x.Kids {
			walk(c)
		}
	}
	for _, r := range ps.Rules {
		walk(r.Body)
	}
	return ok
}

// eval: the rows of the table for expression n at position p. Tokens of a failed sub-expression are
// removed by the caller that backtracks (it truncates ri.toks); the register is never rolled back.
func (ri *RefInterp) eval(n *PNode, p int) (bool, int) {
	ri.fuel--
	if ri.fuel < 0 {
		ri.abort("step budget exhausted")
	}
	switch n.TypeName {
	case "Character":
		r := []rune(n.Str)
		if len(r) != 1 {
			ri.abort("character node with string of length != 1")
		}
		return ri.buf[p] == r[0], p + 1
	case "Range":
		lo, hi := []rune(n.Kids[0].Str), []rune(n.Kids[1].Str)
		if len(lo) != 1 || len(hi) != 1 {
			ri.abort("range bound of length != 1")
		}
		return lo[0] <= ri.buf[p] && ri.buf[p] <= hi[0], p + 1
	case "Dot":
		return p < ri.n, p + 1
	case "Nil", "Commit":
		return true, p
	case "StateChange":
		// executed inline whenever it is reached; only its effect on the observable state matters. User code of another
		// form may need state the harness does not set up (peg.peg's actions need a *tree.Tree): no value here.
		var n0 int
		var l0 []string
		if !actionEffect(n.Str, ri.text, 0, 0, &n0, &l0) {
			ri.abort("state change of unknown effect executed inline: " + n.Str)
		}
		if ri.NoAst {
			ri.inlN += n0
			ri.inlLog = append(ri.inlLog, l0...)
		}
		return true, p
	case "Predicate":
		switch strings.TrimSpace(n.Str) {
		case "p.ok":
			return ri.predOK, p
		case "!p.ok":
			return !ri.predOK, p
		case "true":
			return true, p
		case "false":
			return false, p
		}
		ri.abort("uninterpreted predicate " + n.Str)
	case "Action":
		if ri.NoAst {
			if !actionEffect(n.Str, ri.text, 0, 0, &ri.inlN, &ri.inlLog) { // LOG: snocL(l, k, t)
				ri.abort("action of unknown effect executed inline: " + n.Str)
			}
		} else {
			ri.toks = append(ri.toks, WTok{fmt.Sprintf("Action%d", n.ID), p, p})
		}
		return true, p
	case "Name":
		r := ri.Spec.ByName[n.Str]
		if r == nil {
			ri.abort("reference to undefined rule " + n.Str)
		}
		return ri.rule(r, p)
	case "Sequence":
		q := p
		for _, c := range n.Kids {
			ok, e := ri.eval(c, q)
			if !ok {
				return false, p
			}
			q = e
		}
		return true, q
	case "Alternate":
		k0 := len(ri.toks)
		for _, c := range n.Kids {
			if ok, e := ri.eval(c, p); ok {
				return true, e
			}
			ri.toks = ri.toks[:k0]
		}
		return false, p
	case "Query":
		k0 := len(ri.toks)
		if ok, e := ri.eval(n.Kids[0], p); ok {
			return true, e
		}
		ri.toks = ri.toks[:k0]
		return true, p
	case "Star", "Plus":
		q := p
		if n.TypeName == "Plus" {
			ok, e := ri.eval(n.Kids[0], p)
			if !ok {
				return false, p
			}
			q = e
		}
		for {
			k0 := len(ri.toks)
			ok, e := ri.eval(n.Kids[0], q)
			if !ok {
				ri.toks = ri.toks[:k0]
				return true, q
			}
			if e <= q {
				ri.abort("repetition of an expression that matched empty (outside the domain of C01)")
			}
			q = e
		}
	case "PeekFor":
		k0 := len(ri.toks)
		ok, _ := ri.eval(n.Kids[0], p)
		ri.toks = ri.toks[:k0]
		return ok, p
	case "PeekNot":
		k0 := len(ri.toks)
		ok, _ := ri.eval(n.Kids[0], p)
		ri.toks = ri.toks[:k0]
		return !ok, p
	case "Push":
		ok, e := ri.eval(n.Kids[0], p)
		if ok {
			if ri.NoAst {
				ri.text = string(ri.buf[p:e]) // TXT: str_of_runes(buf, p, end - p)
			} else {
				t := WTok{"PegText", p, e}
				ri.toks = append(ri.toks, t)
				ri.upd(t)
			}
		}
		return ok, e
	}
	ri.abort("node type " + n.TypeName + " has no row in the specification table")
	return false, p
}

// execute: C04. The actions of the derivation, once each, in order; text/begin/end are the most recently
// completed capture that precedes the action in the derivation.
func (ri *RefInterp) execute(res *RefResult) {
	text, begin, end := "", 0, 0
	for _, t := range res.Toks {
		if t.R == "PegText" {
			begin, end = t.B, t.E
			text = string(ri.buf[begin:end])
			continue
		}
		var k int
		if _, err := fmt.Sscanf(t.R, "Action%d", &k); err == nil && strings.HasPrefix(t.R, "Action") && k < len(ri.Spec.Actions) && ri.Spec.ByName[t.R] == nil {
			_ = actionEffect(ri.Spec.Actions[k].Str, text, begin, end, &res.ExecN, &res.ExecLog)
		}
	}
}

// refAST: C05. One node per non-empty token; the parent of a token is the first later non-empty token
// whose span contains it; children in input order; the result is the last root. Returned in pre-order
// with depths, together with the text the printers must produce (rule name and quoted substring).
func refAST(toks []WTok, runes []rune) ([]WNode, string) {
	var ne []WTok
	for _, t := range toks {
		if t.B != t.E {
			ne = append(ne, t)
		}
	}
	if len(ne) == 0 {
		return nil, ""
	}
	kids := make([][]int, len(ne))
	root := -1
	for i, t := range ne {
		parent := -1
		for j := i + 1; j < len(ne); j++ {
			if ne[j].B <= t.B && t.E <= ne[j].E {
				parent = j
				break
			}
		}
		if parent < 0 {
			root = i // the last token without a parent wins
		} else {
			kids[parent] = append(kids[parent], i)
		}
	}
	var out []WNode
	var sb strings.Builder
	var walk func(i, d int)
	walk = func(i, d int) {
		t := ne[i]
		out = append(out, WNode{t.R, t.B, t.E, d})
		sb.WriteString(strings.Repeat(" ", d))
		sub := ""
		if t.B >= 0 && t.E <= len(runes) && t.B <= t.E {
			sub = string(runes[t.B:t.E])
		}
		fmt.Fprintf(&sb, "%v %v\n", t.R, strconv.Quote(sub))
		for _, c := range kids[i] {
			walk(c, d+1)
		}
	}
	walk(root, 0)
	return out, sb.String()
}

// refLineCol: 1-based line and column of rune offset i (buf includes the sentinel, so i == n is a position).
func refLineCol(buf []rune, i int) (line, col int) {
	line, last := 1, -1
	for j := 0; j < i && j < len(buf); j++ {
		if buf[j] == '\n' {
			line++
			last = j
		}
	}
	return line, i - last
}

// refErrorMessage: C11. The message of a parse error for token t: rule name, 1-based line and column of
// begin and end, and the quoted input text between them.
func refErrorMessage(buf []rune, t WTok) string {
	if t.B < 0 || t.E >= len(buf) || t.B > t.E {
		return "(error token outside the input)"
	}
	l1, c1 := refLineCol(buf, t.B)
	l2, c2 := refLineCol(buf, t.E)
	return "\n" + fmt.Sprintf("parse error near %v (line %v symbol %v - line %v symbol %v):\n%v\n", t.R, l1, c1, l2, c2, strconv.Quote(string(buf[t.B:t.E])))
}
