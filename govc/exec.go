package main

// Symbolic execution of a function's CFG into a guarded passive form and named obligations.

import (
	"fmt"
	"go/ast"
	"go/token"
	"go/types"
	"sort"
	"strings"
)

type State struct {
	pc   string
	vals map[string]string
}

func (s *State) clone() *State {
	n := &State{pc: s.pc, vals: make(map[string]string, len(s.vals))}
	for k, v := range s.vals {
		n.vals[k] = v
	}
	return n
}

type Obligation struct {
	Name    string
	Kind    string
	Fn      string
	Unit    string
	Block   *Block
	Upto    int
	PC      string
	Goal    string
	Pos     string
	Detail  string
	Except  string // known-finding id that carves this obligation ("" = none)
	Expect  string // "", or "fail" for obligations that are expected to fail (known finding, canary)
	Canary  bool
	fv      *FV
	Query   string
	Result  SolverResult
	Ground  string
	Trigger string
	Props   string // comma separated property ids this obligation is attributed to ("" = the unit's default)
	solved  bool   // a solver pass has already decided (or given up on) this obligation
}

type FV struct {
	u        *Unit
	fn       *FuncInfo
	fc       *FuncContract
	g        *CFG
	decls    []string
	declared map[string]bool
	cellSort map[string]Sort
	cellType map[string]types.Type
	asserts  map[*Block][]string
	cur      *Block
	obls     []*Obligation
	n        int
	dry      int
	discover []map[string]bool
	entry    *State
	boxed    map[*types.Var]bool
	inout    map[*types.Var]bool
	ordinals map[string]int
	loopIn   map[*Block]*State
	loopMod  map[*Block][]string
	loopVar  map[*Block]string // value of the `decreases` variant at the loop head
	strLits  map[string]int
	lets     map[string]TV
	rngIdx   map[*ast.RangeStmt]string
	results  []*types.Var
	resNames []string
	deferred []*ast.CallExpr
	canaries bool
	retCount int
	exitCell string
	extraPrelude string
	globals  []string
	strict   bool // reading a cell that is not bound is an error (definitional axioms)
}

type TV struct {
	T  string
	Ty types.Type
	S  Sort
	// OldT is the value in the pre-state for bindings of in-out parameters
	OldT string
	// Obj marks a heap struct object designated by its address (T)
	Obj bool
}

type Cx struct {
	st       *State
	old      *State
	env      map[string]TV
	contract bool
	inOld    bool
	scopePos token.Pos
	guard    []string
	loopIn   *State
	rng      *ast.RangeStmt // range statement of the loop whose invariant is being evaluated
	noOb     bool // do not emit safety obligations (contract expressions)
	overflow bool
	what     string
}

func (cx *Cx) with(f func(c *Cx)) *Cx {
	n := *cx
	f(&n)
	return &n
}

func (fv *FV) fresh(base string) string {
	fv.n++
	return fmt.Sprintf("%s@%d", base, fv.n)
}

func (fv *FV) decl(name string, s Sort) string {
	q := sym(name)
	if !fv.declared[q] {
		fv.declared[q] = true
		fv.decls = append(fv.decls, fmt.Sprintf("(declare-const %s %s)", q, s))
	}
	return q
}

func (fv *FV) emit(s string) {
	if fv.dry > 0 {
		return
	}
	fv.asserts[fv.cur] = append(fv.asserts[fv.cur], s)
}

func (fv *FV) assume(st *State, phi string) {
	if phi == "true" {
		return
	}
	pc := fv.decl(fv.fresh("pc"), SBool)
	fv.emit(fmt.Sprintf("(assert (=> %s %s))", pc, and(st.pc, phi)))
	st.pc = pc
}

// get returns the current term of a cell; a cell that has never been written denotes its entry value.
func (fv *FV) get(st *State, cell string, s Sort) string {
	if v, ok := st.vals[cell]; ok {
		return v
	}
	if fv.strict && cell != "alloc" {
		panic(refuse("defpred body reads %s which is not listed in its reads clause", cell))
	}
	if old, ok := fv.cellSort[cell]; ok && old != s && s != "" {
		panic(refuse("cell %s used at sorts %s and %s", cell, old, s))
	}
	if s == "" {
		s = fv.cellSort[cell]
		if s == "" {
			panic(refuse("cell %s has no sort", cell))
		}
	}
	fv.cellSort[cell] = s
	q := sym(cell + "@0")
	if !fv.declared[q] {
		fv.decl(cell+"@0", s)
		// entry value of a variable (captured or global): the facts of its type hold
		if t, ok := fv.cellType[cell]; ok && t != nil && strings.HasPrefix(cell, "v!") {
			if f := fv.typeFacts(t, q, fv.entry); f != "true" {
				fv.globals = append(fv.globals, fmt.Sprintf("(assert %s)", f))
			}
		}
		// entry heap: every stored reference is allocated, every stored integer is in range
		if t, ok := fv.cellType[cell]; ok && t != nil && strings.HasPrefix(cell, "H!") {
			if fact := fv.typeFactsQ(t, sel(q, "r!"), "alloc@0"); fact != "true" {
				fv.decl("alloc@0", SInt)
				fv.globals = append(fv.globals, fmt.Sprintf("(assert (forall ((r! Int)) (! %s :pattern (%s))))", fact, sel(q, "r!")))
			}
		}
	}
	return q
}

func (fv *FV) set(st *State, cell string, s Sort, term string) {
	if _, ok := fv.cellSort[cell]; !ok {
		fv.cellSort[cell] = s
		fv.decl(cell+"@0", s)
	}
	// name the term to keep formulas small
	if len(term) > 40 {
		c := fv.decl(fv.fresh(cell), s)
		fv.emit(fmt.Sprintf("(assert (= %s %s))", c, term))
		term = c
	}
	st.vals[cell] = term
	for _, d := range fv.discover {
		d[cell] = true
	}
}

func (fv *FV) havoc(st *State, cell string) string {
	s := fv.cellSort[cell]
	if s == "" {
		panic(refuse("havoc of unknown cell %s", cell))
	}
	c := fv.decl(fv.fresh(cell), s)
	st.vals[cell] = c
	for _, d := range fv.discover {
		d[cell] = true
	}
	return c
}

func (fv *FV) ordinal(kind string) int {
	n := fv.ordinals[kind]
	fv.ordinals[kind] = n + 1
	return n
}

func (fv *FV) pos(p token.Pos) string {
	if !p.IsValid() {
		return ""
	}
	q := fv.u.Fset.Position(p)
	return fmt.Sprintf("%s:%d", shortPath(q.Filename), q.Line)
}

func shortPath(p string) string {
	if k := strings.LastIndex(p, "/"); k >= 0 {
		if j := strings.LastIndex(p[:k], "/"); j >= 0 {
			return p[j+1:]
		}
	}
	return p
}

// oblige records an obligation `goal` at the current point under st.pc and then assumes it.
func (fv *FV) oblige(st *State, kind, name, goal, detail string, pos token.Pos, cx *Cx) *Obligation {
	if cx != nil && len(cx.guard) > 0 {
		goal = imp(and(cx.guard...), goal)
	}
	if goal == "true" {
		return nil
	}
	var ob *Obligation
	if fv.dry == 0 {
		ob = &Obligation{Name: fv.u.Name + "/" + fv.fn.Key + "#" + name, Kind: kind, Fn: fv.fn.Key, Unit: fv.u.Name, Block: fv.cur,
			Upto: len(fv.asserts[fv.cur]), PC: st.pc, Goal: goal, Pos: fv.pos(pos), Detail: detail, fv: fv}
		fv.obls = append(fv.obls, ob)
	}
	fv.assume(st, goal)
	return ob
}

func (fv *FV) safety(st *State, goal, detail string, pos token.Pos, cx *Cx) {
	if cx != nil && cx.noOb {
		return
	}
	fv.oblige(st, "safety", fmt.Sprintf("safety[%d]", fv.ordinal("safety")), goal, detail, pos, cx)
}

// ---------------------------------------------------------------------------------------------

func NewFV(u *Unit, fn *FuncInfo, fc *FuncContract) *FV {
	return &FV{u: u, fn: fn, fc: fc, declared: map[string]bool{}, cellSort: map[string]Sort{}, cellType: map[string]types.Type{},
		asserts: map[*Block][]string{}, boxed: map[*types.Var]bool{}, inout: map[*types.Var]bool{}, ordinals: map[string]int{},
		loopIn: map[*Block]*State{}, loopMod: map[*Block][]string{}, loopVar: map[*Block]string{}, strLits: map[string]int{}, lets: map[string]TV{}, rngIdx: map[*ast.RangeStmt]string{}}
}

// Verify generates all obligations of the function. A refusal (construct outside the subset)
// is returned as an error and the function is reported as not verified.
func (fv *FV) Verify() (err error) {
	defer func() {
		if r := recover(); r != nil {
			if rf, ok := r.(refusal); ok {
				err = fmt.Errorf("%s: %s", fv.fn.Key, rf.msg)
				return
			}
			panic(r)
		}
	}()
	g, e := BuildCFG(fv.fn.Body, fv.lowerOpts())
	if e != nil {
		return fmt.Errorf("%s: %v", fv.fn.Key, e)
	}
	fv.g = g
	if fv.fc != nil && fv.fc.Lemma {
		fv.checkLemmaShape()
	}
	fv.findBoxed()
	fv.cellSort["alloc"] = SInt
	fv.cur = g.Entry
	st := &State{pc: "true", vals: map[string]string{}}
	fv.entry = &State{pc: "true", vals: map[string]string{}}
	fv.setupEntry(st)
	if c := fv.oblige(st.clone(), "canary", "canary.pre", "false", "precondition is satisfiable (must not be provable)", fv.fn.Pos, nil); c != nil {
		c.Canary = true
	}
	fv.run(nil, g.Entry, st)
	return nil
}

func (fv *FV) findBoxed() {
	ast.Inspect(fv.fn.Body, func(n ast.Node) bool {
		if ue, ok := n.(*ast.UnaryExpr); ok && ue.Op == token.AND {
			if id, ok := ue.X.(*ast.Ident); ok {
				if v, ok := fv.u.Info.Uses[id].(*types.Var); ok {
					fv.boxed[v] = true
				}
			}
		}
		return true
	})
}

func (fv *FV) varCell(v *types.Var) string {
	return fmt.Sprintf("v!%s!%d", v.Name(), fv.u.Fset.Position(v.Pos()).Offset)
}

func (fv *FV) isLocal(v *types.Var) bool {
	b := fv.fn.Body
	if v.Pos() >= b.Pos() && v.Pos() < b.End() {
		return true
	}
	ft := fv.fn.Type()
	return v.Pos() >= ft.Pos() && v.Pos() < ft.End() || (fv.fn.Decl != nil && fv.fn.Decl.Recv != nil && v.Pos() >= fv.fn.Decl.Recv.Pos() && v.Pos() < fv.fn.Decl.Recv.End())
}

func (fv *FV) params() []*types.Var {
	var ps []*types.Var
	if fv.fn.Sig.Recv() != nil {
		ps = append(ps, fv.fn.Sig.Recv())
	}
	for i := 0; i < fv.fn.Sig.Params().Len(); i++ {
		ps = append(ps, fv.fn.Sig.Params().At(i))
	}
	return ps
}

func (fv *FV) setupEntry(st *State) {
	u := fv.u
	fv.get(st, "alloc", SInt)
	fv.assume(st, sx(">=", "alloc@0", num(Stride)))
	for _, p := range fv.params() {
		if p.Name() == "_" || p.Name() == "" {
			continue
		}
		cell := fv.varCell(p)
		if pt, ok := p.Type().(*types.Pointer); ok {
			if _, isStruct := pt.Elem().Underlying().(*types.Struct); isStruct && !u.isHeapStruct(pt.Elem()) {
				// pointer to a value struct: in-out parameter holding the struct value
				fv.inout[p] = true
				s := u.sortOf(pt.Elem())
				fv.get(st, cell, s)
				fv.assume(st, fv.typeFacts(pt.Elem(), sym(cell+"@0"), st))
				continue
			}
		}
		s := u.sortOf(p.Type())
		t := fv.get(st, cell, s)
		fv.assume(st, fv.typeFacts(p.Type(), t, st))
	}
	if fv.fn.Sig.Results() != nil {
		for i := 0; i < fv.fn.Sig.Results().Len(); i++ {
			r := fv.fn.Sig.Results().At(i)
			fv.results = append(fv.results, r)
			if r.Name() != "" && r.Name() != "_" {
				fv.set(st, fv.varCell(r), u.sortOf(r.Type()), u.zero(r.Type()))
			}
		}
	}
	cx := &Cx{st: st, old: fv.entry, contract: true, scopePos: fv.fn.Body.Lbrace + 1, noOb: true, env: map[string]TV{}}
	if fv.fc != nil {
		for _, g := range fv.fc.GhostArgs {
			if _, bound := fv.lets[g]; !bound {
				fv.lets[g] = TV{T: fv.decl("ghost!"+g, SInt), Ty: tInt, S: SInt}
			}
		}
		for _, l := range fv.fc.Lets {
			tv := fv.expr(l.Expr, cx)
			fv.lets[l.Name] = tv
		}
		for _, r := range fv.fc.Requires {
			for _, c := range fv.conjuncts(r.Expr, cx) {
				fv.assume(st, c.term)
			}
		}
		for _, gs := range fv.fc.Ghosts {
			if gs.At == "entry" {
				fv.ghostAssign(gs, st)
			}
		}
	}
}

// typeFacts: integer range, pointer allocatedness for a value of type t.
func (fv *FV) typeFacts(t types.Type, term string, st *State) string {
	u := fv.u
	t = types.Unalias(t)
	switch tt := t.Underlying().(type) {
	case *types.Basic:
		return u.rangeFact(t, term)
	case *types.Pointer, *types.Map:
		return and(sx("<=", "0", term), sx("<", term, fv.get(st, "alloc", SInt)))
	case *types.Slice:
		return and(sx("<=", "0", sx("sl_base", term)), sx("<", sx("sl_base", term), fv.get(st, "alloc", SInt)),
			sx("<=", "0", sx("sl_off", term)), sx("<=", "0", sx("sl_len", term)), sx("<=", sx("sl_len", term), sx("sl_cap", term)))
	case *types.Struct:
		if u.isHeapStruct(t) {
			return "true"
		}
		s := u.sortOf(t)
		dt := u.dtOf(s)
		var fs []string
		for _, f := range dt.Fields {
			fs = append(fs, fv.typeFacts(f.Ty, sx(sym(dt.Name+"_"+f.Name), term), st))
		}
		return and(fs...)
	case *types.Interface:
		if _, ok := t.(*types.TypeParam); ok {
			return u.rangeFact(t, term)
		}
		_ = tt
	}
	if _, ok := t.(*types.TypeParam); ok {
		return u.rangeFact(t, term)
	}
	return "true"
}

// heapFacts assumes, for the given heap cells (nil = all known pointer-valued heap fields of the
// package's heap structs), that every stored reference is allocated and every stored integer is in
// the range of its type. This is the memory-safety invariant of Go itself.
func (fv *FV) heapFacts(st *State, cells []string) {
	u := fv.u
	alloc := fv.get(st, "alloc", SInt)
	want := map[string]bool{}
	for _, c := range cells {
		want[c] = true
	}
	names := append([]string{}, u.Pkg.Types.Scope().Names()...)
	for _, name := range sortedKeys(u.localTypes) {
		// a struct type declared inside a function body: its cells exist only in that function
		if tn := u.localTypes[name]; tn != nil && fv.fn != nil && fv.fn.Body != nil && tn.Pos() >= fv.fn.Body.Pos() && tn.Pos() < fv.fn.Body.End() {
			names = append(names, name)
		}
	}
	for _, name := range names {
		tn := u.typeByName(name)
		if tn == nil || !u.heapStruct[name] {
			continue
		}
		stt, ok := tn.Type().Underlying().(*types.Struct)
		if !ok {
			continue
		}
		for i := 0; i < stt.NumFields(); i++ {
			f := stt.Field(i)
			cell := "H!" + name + "." + f.Name()
			if cells != nil && !want[cell] {
				continue
			}
			if u.isHeapStruct(f.Type()) {
				continue
			}
			fs := u.sortOf(f.Type())
			h := fv.get(st, cell, arr(SInt, fs))
			fv.cellType[cell] = f.Type()
			fact := fv.typeFactsQ(f.Type(), sel(h, "r!"), alloc)
			if fact != "true" {
				fv.assume(st, fmt.Sprintf("(forall ((r! Int)) (! %s :pattern (%s)))", fact, sel(h, "r!")))
			}
		}
	}
}

func (fv *FV) typeFactsQ(t types.Type, term, alloc string) string {
	switch types.Unalias(t).Underlying().(type) {
	case *types.Pointer, *types.Map:
		return and(sx("<=", "0", term), sx("<", term, alloc))
	case *types.Slice:
		return and(sx("<=", "0", sx("sl_base", term)), sx("<", sx("sl_base", term), alloc), sx("<=", "0", sx("sl_off", term)),
			sx("<=", "0", sx("sl_len", term)), sx("<=", sx("sl_len", term), sx("sl_cap", term)))
	case *types.Basic:
		return fv.u.rangeFact(t, term)
	case *types.Struct:
		if !fv.u.isHeapStruct(t) {
			s := fv.u.sortOf(t)
			if dt := fv.u.dtOf(s); dt != nil {
				var fs []string
				for _, f := range dt.Fields {
					fs = append(fs, fv.typeFactsQ(f.Ty, sx(sym(dt.Name+"_"+f.Name), term), alloc))
				}
				return and(fs...)
			}
		}
	}
	if _, ok := types.Unalias(t).(*types.TypeParam); ok {
		return fv.u.rangeFact(t, term)
	}
	return "true"
}

// ---------------------------------------------------------------------------------------------
// running a region of the CFG

type edgeKey struct{ from, to *Block }

// run executes the blocks of region (nil = whole function) in topological order, starting at
// `start` with state `st`. Edges leaving the region are dropped.
func (fv *FV) run(region map[*Block]bool, start *Block, st0 *State) {
	edges := map[edgeKey]*State{}
	for _, b := range fv.g.Order {
		if region != nil && !region[b] {
			continue
		}
		if b.topo < start.topo {
			continue
		}
		var st *State
		if b == start {
			st = st0
			fv.cur = b
			if b.LoopHead && region == nil {
				// entry block that is itself a loop head: treat function entry as the loop entry
				st = fv.enterLoop(b, st)
			} else if b.LoopHead && region != nil {
				// discovery run: the head is executed with the state it was given
			}
		} else {
			var ins []*State
			for _, p := range b.Preds {
				if p.IsBack[b] {
					continue
				}
				if e, ok := edges[edgeKey{p, b}]; ok {
					ins = append(ins, e)
				}
			}
			if len(ins) == 0 {
				continue // unreachable within this run
			}
			fv.cur = b
			st = fv.merge(ins)
			if b.LoopHead {
				st = fv.enterLoop(b, st)
			}
		}
		fv.execBlock(b, st, edges, region)
	}
}

func (fv *FV) merge(ins []*State) *State {
	if len(ins) == 1 {
		return ins[0].clone()
	}
	out := &State{vals: map[string]string{}}
	pc := fv.decl(fv.fresh("pc"), SBool)
	var pcs []string
	for _, s := range ins {
		pcs = append(pcs, s.pc)
	}
	fv.emit(fmt.Sprintf("(assert (=> %s %s))", pc, or(pcs...)))
	out.pc = pc
	cells := map[string]bool{}
	for _, s := range ins {
		for k := range s.vals {
			cells[k] = true
		}
	}
	names := make([]string, 0, len(cells))
	for k := range cells {
		names = append(names, k)
	}
	sort.Strings(names)
	for _, k := range names {
		first := ""
		same := true
		for i, s := range ins {
			v := fv.get(s, k, "")
			if i == 0 {
				first = v
			} else if v != first {
				same = false
			}
		}
		if same {
			out.vals[k] = first
			continue
		}
		c := fv.decl(fv.fresh(k), fv.cellSort[k])
		for _, s := range ins {
			fv.emit(fmt.Sprintf("(assert (=> %s (= %s %s)))", s.pc, c, fv.get(s, k, "")))
		}
		out.vals[k] = c
	}
	return out
}

// enterLoop: check the invariant on entry, havoc what the body writes, assume the invariant.
func (fv *FV) enterLoop(h *Block, in *State) *State {
	invs := fv.loopInvariants(h)
	if invs == nil {
		panic(refuse("loop %d has no invariant", h.LoopOrd))
	}
	entry := in.clone()
	fv.loopIn[h] = entry
	cx := &Cx{st: in, old: fv.entry, contract: true, scopePos: h.ScopePos, noOb: true, loopIn: entry, env: map[string]TV{}, rng: headRange(h)}
	for _, c := range invs {
		for _, cj := range fv.conjuncts(c.Expr, cx) {
			if ob := fv.oblige(in, "inv.init", fmt.Sprintf("inv.init[%d][%d]", h.LoopOrd, fv.ordinal(fmt.Sprintf("inv.init.%d", h.LoopOrd))), cj.term, cj.text, h.Pos, nil); ob != nil {
				ob.Props = c.Tag
			}
		}
	}
	// discover the cells written by the body
	mod, ok := fv.loopMod[h]
	if !ok {
		set := map[string]bool{}
		fv.discover = append(fv.discover, set)
		fv.dry++
		saveOrd := map[string]int{}
		for k, v := range fv.ordinals {
			saveOrd[k] = v
		}
		saveCur := fv.cur
		d := in.clone()
		fv.runLoopBody(h, d)
		fv.cur = saveCur
		fv.ordinals = saveOrd
		fv.dry--
		fv.discover = fv.discover[:len(fv.discover)-1]
		for k := range set {
			mod = append(mod, k)
		}
		sort.Strings(mod)
		fv.loopMod[h] = mod
	}
	st := in.clone()
	var heapCells []string
	for _, cell := range mod {
		c := fv.havoc(st, cell)
		if t, ok := fv.cellType[cell]; ok && t != nil && !strings.HasPrefix(cell, "H!") {
			fv.assume(st, fv.typeFacts(t, c, st))
		}
		if strings.HasPrefix(cell, "H!") {
			heapCells = append(heapCells, cell)
		}
	}
	if a, ok := st.vals["alloc"]; ok {
		fv.assume(st, sx(">=", a, fv.get(entry, "alloc", SInt)))
	}
	if len(heapCells) > 0 {
		fv.heapFacts(st, heapCells)
	}
	cx2 := &Cx{st: st, old: fv.entry, contract: true, scopePos: h.ScopePos, noOb: true, loopIn: entry, env: map[string]TV{}, rng: headRange(h)}
	for _, c := range invs {
		for _, cj := range fv.conjuncts(c.Expr, cx2) {
			fv.assume(st, cj.term)
		}
	}
	if dec := fv.fc.LoopDec[h.LoopOrd]; dec != nil {
		v := fv.decl(fv.fresh("variant"), SInt)
		fv.emit(fmt.Sprintf("(assert (= %s %s))", v, fv.expr(dec.Expr, cx2).T))
		fv.loopVar[h] = v
	}
	return st
}

func (fv *FV) runLoopBody(h *Block, st *State) {
	// execute the natural loop of h once from its head in the given state
	edges := map[edgeKey]*State{}
	for _, b := range fv.g.Order {
		if !h.LoopBody[b] {
			continue
		}
		var s *State
		if b == h {
			s = st
			fv.cur = b
		} else {
			var ins []*State
			for _, p := range b.Preds {
				if p.IsBack[b] {
					continue
				}
				if e, ok := edges[edgeKey{p, b}]; ok {
					ins = append(ins, e)
				}
			}
			if len(ins) == 0 {
				continue
			}
			fv.cur = b
			s = fv.merge(ins)
			if b.LoopHead {
				s = fv.enterLoop(b, s)
			}
		}
		fv.execBlock(b, s, edges, h.LoopBody)
	}
}

func headRange(h *Block) *ast.RangeStmt {
	if h.Cond != nil && h.Cond.Kind == CRangeHas {
		return h.Cond.Range
	}
	return nil
}

func (fv *FV) loopInvariants(h *Block) []*Clause {
	if fv.fc == nil {
		return nil
	}
	return fv.fc.LoopInv[h.LoopOrd]
}

func (fv *FV) execBlock(b *Block, st *State, edges map[edgeKey]*State, region map[*Block]bool) {
	for _, n := range b.Nodes {
		fv.execNode(n, st)
	}
	out := func(to *Block, s *State) {
		if to.LoopHead && b.IsBack[to] {
			fv.backEdge(b, to, s)
			return
		}
		if region != nil && !region[to] {
			return
		}
		edges[edgeKey{b, to}] = s
	}
	switch b.Kind {
	case TJump:
		out(b.Succs[0], st)
	case TBranch:
		cx := fv.codeCx(st)
		var c string
		switch b.Cond.Kind {
		case CExpr:
			c = fv.expr(b.Cond.Expr, cx).T
		case CCaseEq:
			tag := fv.get(st, b.Cond.Aux, "")
			c = eq(tag, fv.expr(b.Cond.Expr, cx).T)
		case CRangeHas:
			c = fv.rangeHas(b.Cond.Range, st)
		case CCell:
			c = fv.get(st, b.Cond.Aux, SBool)
		}
		t, f := st.clone(), st
		fv.assume(t, c)
		fv.assume(f, not(c))
		out(b.Succs[0], t)
		out(b.Succs[1], f)
	case TReturn:
		fv.doReturn(b, st)
	case TPanic:
		if fv.u.PanicIsExit {
			break
		}
		fv.oblige(st, "safety", fmt.Sprintf("safety[%d]", fv.ordinal("safety")), "false", "explicit panic is unreachable", b.Pos, nil)
	}
}

func (fv *FV) backEdge(from, h *Block, st *State) {
	invs := fv.loopInvariants(h)
	entry := fv.loopIn[h]
	cx := &Cx{st: st, old: fv.entry, contract: true, scopePos: h.ScopePos, noOb: true, loopIn: entry, env: map[string]TV{}, rng: headRange(h)}
	for _, c := range invs {
		for _, cj := range fv.conjuncts(c.Expr, cx) {
			if ob := fv.oblige(st, "inv.step", fmt.Sprintf("inv.step[%d][%d]", h.LoopOrd, fv.ordinal(fmt.Sprintf("inv.step.%d", h.LoopOrd))), cj.term, cj.text, from.Pos, nil); ob != nil {
				ob.Props = c.Tag
			}
		}
	}
	if dec := fv.fc.LoopDec[h.LoopOrd]; dec != nil {
		// termination: the variant is bounded below by 0 and strictly smaller after every iteration
		v0 := fv.loopVar[h]
		fv.oblige(st, "decreases", fmt.Sprintf("decreases[%d][%d]", h.LoopOrd, fv.ordinal(fmt.Sprintf("decreases.%d", h.LoopOrd))),
			and(sx("<=", "0", v0), sx("<", fv.expr(dec.Expr, cx).T, v0)), "variant "+dec.Text+" is >= 0 and decreases", from.Pos, nil)
	}
}

func (fv *FV) codeCx(st *State) *Cx {
	return &Cx{st: st, old: fv.entry, overflow: fv.fc != nil && fv.fc.Overflow, env: nil}
}

// ---------------------------------------------------------------------------------------------
// returns

func (fv *FV) doReturn(b *Block, st *State) {
	u := fv.u
	cx := fv.codeCx(st)
	var res []TV
	if b.Ret != nil && len(b.Ret.Results) > 0 {
		if len(b.Ret.Results) == 1 && len(fv.results) > 1 {
			res = fv.callMulti(b.Ret.Results[0], cx)
		} else {
			for _, e := range b.Ret.Results {
				res = append(res, fv.expr(e, cx))
			}
		}
		for i, r := range fv.results {
			if r.Name() != "" && r.Name() != "_" {
				fv.set(st, fv.varCell(r), u.sortOf(r.Type()), res[i].T)
			}
		}
	} else {
		for _, r := range fv.results {
			if r.Name() == "" || r.Name() == "_" {
				panic(refuse("bare return with unnamed results"))
			}
			res = append(res, TV{T: fv.get(st, fv.varCell(r), u.sortOf(r.Type())), Ty: r.Type(), S: u.sortOf(r.Type())})
		}
	}
	for i := range res {
		res[i].Ty = fv.results[i].Type()
		res[i].S = u.sortOf(res[i].Ty)
	}
	// deferred calls run after the results are set
	for i := len(fv.g.Defers) - 1; i >= 0; i-- {
		if b.Ret != nil && len(fv.g.Loops) == 0 && fv.g.Defers[i].Pos() > b.Ret.Pos() {
			continue // loop-free body: a defer statement that comes after this return has not been executed
		}
		fv.callStmt(fv.g.Defers[i].Call, cx)
	}
	if len(fv.g.Defers) > 0 {
		for i, r := range fv.results {
			if r.Name() != "" && r.Name() != "_" {
				res[i].T = fv.get(st, fv.varCell(r), res[i].S)
			}
		}
	}
	// ghost statements attached to the returns (`ghost return : lhs = rhs`, with `result` bound)
	if fv.fc != nil {
		for _, gs := range fv.fc.Ghosts {
			if gs.At == "return" {
				env := map[string]TV{}
				for i, r := range res {
					if len(res) == 1 {
						env["result"] = r
					}
					env[fmt.Sprintf("result%d", i)] = r
				}
				fv.ghostAssignEnv(gs, st, env)
			}
		}
	}
	fv.checkPost(st, res, b.Pos)
}

func (fv *FV) checkPost(st *State, res []TV, pos token.Pos) {
	fv.retCount++
	if fv.fc == nil {
		return
	}
	env := map[string]TV{}
	for i, r := range res {
		if len(res) == 1 {
			env["result"] = r
		}
		env[fmt.Sprintf("result%d", i)] = r
	}
	cx := &Cx{st: st, old: fv.entry, contract: true, scopePos: fv.fn.Body.Lbrace + 1, noOb: true, env: env}
	for _, e := range fv.fc.Ensures {
		for _, cj := range fv.conjuncts(e.Expr, cx) {
			goal := cj.term
			name := fmt.Sprintf("%s.%d", e.Name, fv.ordinal(e.Name))
			if e.Except != "" && e.Region != nil {
				// carved clause: proved outside the region of the known finding
				reg := fv.expr(e.Region, cx.with(func(c *Cx) { c.inOld = true; c.st = fv.entry })).T
				goal = imp(not(reg), goal)
			}
			ob := fv.oblige(st, "ensures", name, goal, cj.text, pos, nil)
			if ob != nil {
				ob.Props = e.Tag
				ob.Except = e.Except
				if e.Tag == "expected-fail" {
					ob.Expect = "fail"
				}
			}
		}
	}
	fv.checkFrame(st, pos)
}

// checkFrame: every cell that the function has written and that is visible to the caller must be
// covered by a modifies clause.
func (fv *FV) checkFrame(st *State, pos token.Pos) {
	var cells []string
	for k := range st.vals {
		cells = append(cells, k)
	}
	sort.Strings(cells)
	allocOld := "alloc@0"
	for _, cell := range cells {
		cur := st.vals[cell]
		if cur == sym(cell+"@0") || cell == "alloc" {
			continue
		}
		if strings.HasPrefix(cell, "v!") {
			if fv.isLocalCell(cell) {
				continue
			}
			if !fv.modifiesVar(cell) {
				fv.oblige(st, "assigns", fmt.Sprintf("assigns[%s]", cellShort(cell)), eq(cur, sym(cell+"@0")),
					"captured variable written but not listed in modifies", pos, nil)
			}
			continue
		}
		if strings.HasPrefix(cell, "$") {
			continue
		}
		if _, ok := fv.u.ExtraCells[cell]; ok {
			if !fv.modifiesVar(cell) {
				fv.oblige(st, "assigns", fmt.Sprintf("assigns[%s]", cell), eq(cur, sym(cell+"@0")), "ghost variable written but not listed in modifies", pos, nil)
			}
			continue
		}
		// heap-like cell keyed by reference: H!T.f, G!T.f, E!sort, MD!/MV!
		fname := cellField(cell)
		var conds []string
		listed := false
		for _, m := range fv.fc.Modifies {
			for _, f := range m.Fields {
				if f == fname {
					listed = true
					if m.Where == nil {
						conds = append(conds, "true")
					} else {
						cx := &Cx{st: fv.entry, old: fv.entry, contract: true, inOld: true, scopePos: fv.fn.Body.Lbrace + 1, noOb: true,
							env: map[string]TV{m.Bound: {T: "r!", S: SInt, Ty: fv.refTypeOfField(fname)}}}
						conds = append(conds, fv.expr(m.Where, cx).T)
					}
				}
			}
		}
		if !listed {
			fv.oblige(st, "assigns", fmt.Sprintf("assigns[%s].%d", fname, fv.ordinal("assigns."+fname)), eq(cur, sym(cell+"@0")),
				"heap cell written (even at fresh addresses) but not listed in modifies", pos, nil)
			continue
		}
		inFoot := or(conds...)
		if inFoot == "true" {
			continue
		}
		old := sym(cell + "@0")
		goal := fmt.Sprintf("(forall ((r! Int)) (! (=> (and (< 0 r!) (< r! %s) %s) (= %s %s)) :pattern (%s)))",
			allocOld, not(inFoot), sel(cur, "r!"), sel(old, "r!"), sel(cur, "r!"))
		if strings.HasPrefix(cell, "E!") || strings.HasPrefix(cell, "M") {
			goal = fmt.Sprintf("(forall ((r! Int)) (! (=> (and (<= 0 r!) (< r! %s) %s) (= %s %s)) :pattern (%s)))",
				allocOld, not(inFoot), sel(cur, "r!"), sel(old, "r!"), sel(cur, "r!"))
		}
		fv.oblige(st, "assigns", fmt.Sprintf("assigns[%s].%d", fname, fv.ordinal("assigns."+fname)), goal,
			"objects outside the modifies footprint are unchanged", pos, nil)
	}
}

func cellShort(cell string) string {
	f := strings.Split(cell, "!")
	if len(f) >= 2 {
		return f[1]
	}
	return cell
}

func cellField(cell string) string {
	switch {
	case strings.HasPrefix(cell, "H!"), strings.HasPrefix(cell, "G!"):
		return cell[2:]
	case strings.HasPrefix(cell, "E!"):
		return "Elems." + cell[2:]
	case strings.HasPrefix(cell, "MD!"):
		return "MapDom." + cell[3:]
	case strings.HasPrefix(cell, "MV!"):
		return "MapVal." + cell[3:]
	case strings.HasPrefix(cell, "P!"):
		return "Ptr." + cell[2:]
	}
	return cell
}

func (fv *FV) refTypeOfField(fname string) types.Type {
	k := strings.Index(fname, ".")
	if k < 0 {
		return nil
	}
	if obj := fv.u.lookupTypeName(fname[:k]); obj != nil {
		return types.NewPointer(obj.Type())
	}
	return nil
}

func (fv *FV) isLocalCell(cell string) bool {
	// v!name!offset : local iff offset lies inside this function
	f := strings.Split(cell, "!")
	if len(f) != 3 {
		return false
	}
	var off int
	fmt.Sscanf(f[2], "%d", &off)
	file := fv.u.Fset.File(fv.fn.Body.Pos())
	lo, hi := file.Offset(fv.fn.Pos), file.Offset(fv.fn.Body.End())
	return off >= lo && off < hi
}

func (fv *FV) modifiesVar(cell string) bool {
	name := cellShort(cell)
	for _, m := range fv.fc.Modifies {
		for _, v := range m.Vars {
			if v == name {
				return true
			}
		}
	}
	return false
}

// ---------------------------------------------------------------------------------------------
// conjunct splitting of contract clauses

type conjunct struct {
	term string
	text string
}

// conjuncts expands predicate macros at the top level and splits the clause into conjuncts, so
// that each becomes an obligation of its own (a conjunction of quantified clauses proved at once
// is what times out; one clause at a time does not).
func (fv *FV) conjuncts(e ast.Expr, cx *Cx) []conjunct {
	var out []conjunct
	var walk func(e ast.Expr, cx *Cx, hyps []string, label string)
	walk = func(e ast.Expr, cx *Cx, hyps []string, label string) {
		e = unparen(e)
		switch x := e.(type) {
		case *ast.BinaryExpr:
			if x.Op == token.LAND {
				walk(x.X, cx, hyps, label)
				walk(x.Y, cx, hyps, label)
				return
			}
		case *ast.CallExpr:
			if id, ok := x.Fun.(*ast.Ident); ok {
				if id.Name == "imp" && len(x.Args) == 2 {
					h := fv.expr(x.Args[0], cx).T
					walk(x.Args[1], cx, append(append([]string{}, hyps...), h), label)
					return
				}
				if id.Name == "old" && len(x.Args) == 1 {
					walk(x.Args[0], cx.with(func(c *Cx) { c.inOld = true; c.st = c.old }), hyps, label)
					return
				}
				if id.Name == "forall" && len(x.Args) >= 2 {
					// forall(x, a == b) over Bool a, b: split into the two implications
					body := unparen(x.Args[len(x.Args)-1])
					if be, ok := body.(*ast.BinaryExpr); ok && be.Op == token.EQL && fv.isBoolExpr(be.X, cx, x) {
						mk := func(a, b ast.Expr) ast.Expr {
							args := append([]ast.Expr{}, x.Args[:len(x.Args)-1]...)
							args = append(args, &ast.CallExpr{Fun: ast.NewIdent("imp"), Args: []ast.Expr{a, b}})
							return &ast.CallExpr{Fun: x.Fun, Args: args}
						}
						t1 := fv.expr(mk(be.X, be.Y), cx).T
						t2 := fv.expr(mk(be.Y, be.X), cx).T
						txt := label + exprText(e)
						out = append(out, conjunct{imp(and(hyps...), t1), txt + " [=>]"})
						out = append(out, conjunct{imp(and(hyps...), t2), txt + " [<=]"})
						return
					}
				}
				if pd, ok := fv.u.CS.Preds[id.Name]; ok && len(pd.Params) == len(x.Args) && !fv.u.NoSplit[id.Name] {
					env := map[string]TV{}
					for k, v := range cx.env {
						env[k] = v
					}
					for i, p := range pd.Params {
						env[p.Name] = fv.expr(x.Args[i], cx)
					}
					walk(pd.Body, cx.with(func(c *Cx) { c.env = env }), hyps, label+id.Name+": ")
					return
				}
			}
		}
		t := fv.expr(e, cx).T
		out = append(out, conjunct{imp(and(hyps...), t), label + exprText(e)})
	}
	walk(e, cx, nil, "")
	return out
}

func (fv *FV) isBoolExpr(e ast.Expr, cx *Cx, q *ast.CallExpr) bool {
	// evaluate under the quantifier's binders to learn the sort
	save := fv.dry
	defer func() { fv.dry = save; recover() }()
	env := map[string]TV{}
	for k, v := range cx.env {
		env[k] = v
	}
	for _, b := range q.Args[:len(q.Args)-1] {
		n, ty := fv.binder(b)
		if n == "" {
			continue
		}
		env[n] = TV{T: sym(n + "!q"), S: SInt, Ty: ty}
	}
	fv.dry++
	tv := fv.expr(e, cx.with(func(c *Cx) { c.env = env }))
	return tv.S == SBool
}

func exprText(e ast.Expr) string {
	return exprString(nil, e)
}

func unparen(e ast.Expr) ast.Expr {
	for {
		p, ok := e.(*ast.ParenExpr)
		if !ok {
			return e
		}
		e = p.X
	}
}
