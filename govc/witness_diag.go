package main

// Witness search for the grammar analyses of unit "tree" (property C15, and the frame obligations of C09 on the same
// functions): small grammars are generated from the abstract syntax of witness_grammar.go, the diagnostics the property
// asks for are computed here, on that abstract syntax, without calling any code of the repository, and compared with what
// peg prints and how it exits with and without -strict.
//
// Reference (from the wording of C15):
//   used but not defined    = names referred to anywhere that have no definition              (each reported once)
//   defined but not used    = defined rules not reachable from the first rule, through any operator  (each reported once)
//   left recursion          = rules that can re-enter themselves without having consumed input: cycles of the relation
//                             "X can be entered at the position where R is entered" (all alternatives; sequence members up
//                             to and including the first one that must consume; the operand of ? * + & ! < >; the body of
//                             a referred rule)
//   rule defined twice      = diagnosed (non-zero exit, message naming the rule), never a crash
//   -strict                 = non-zero exit iff there is a diagnostic; without -strict exit 0 and the same diagnostics
//   no diagnostic           = nothing on standard error, exit 0
// "Must consume" is not well defined for a grammar that IS left recursive (the least and the greatest solution of the
// nullability equations differ exactly there). The reference therefore computes two sets: the rules on a cycle under the
// least solution (every one of them has to be named) and the rules on a cycle when every rule involved in left recursion
// counts as nullable (no other rule may be named). For grammars without left recursion both are empty: exact.

import (
	"bytes"
	"encoding/json"
	"fmt"
	"math/rand"
	"os"
	"os/exec"
	"path/filepath"
	"regexp"
	"sort"
	"strings"
	"time"
)

const diagHeader = "package p\n\ntype T Peg {}\n\n"

type diagExpect struct {
	Undefined   []string `json:"used_but_not_defined"`
	Unused      []string `json:"defined_but_not_used"`
	LeftRecMust []string `json:"left_recursive"`
	LeftRecMay  []string `json:"left_recursive_at_most"`
	Duplicate   []string `json:"defined_twice"`
}

func (e *diagExpect) any() bool { return len(e.Undefined)+len(e.Unused)+len(e.LeftRecMust) > 0 }

// diagCase: the `input` of a diagnostics witness
type diagCase struct {
	Grammar string     `json:"grammar_text"`
	Expect  diagExpect `json:"expected_diagnostics"`
	Race    bool       `json:"race_detector,omitempty"` // the observation is a data race report of a peg built with -race
}

// ---------------------------------------------------------------------------------------------
// the reference analyses

func gxWalk(e *gx, f func(*gx)) {
	f(e)
	for _, k := range e.Kids {
		gxWalk(k, f)
	}
}

// gxNullable: can e succeed without consuming, given the nullability of the rules
func gxNullable(e *gx, null map[string]bool) bool {
	switch e.K {
	case "name":
		return null[e.S]
	case "dot", "class":
		return false
	case "lit", "dlit":
		return len(e.Chars) == 0
	case "seq":
		for _, k := range e.Kids {
			if !gxNullable(k, null) {
				return false
			}
		}
		return true
	case "alt":
		for _, k := range e.Kids {
			if gxNullable(k, null) {
				return true
			}
		}
		return false
	case "plus", "push":
		return gxNullable(e.Kids[0], null)
	}
	return true // ? * & ! action predicate state-change empty
}

// gxLeft: the names that can be entered at the position where e is entered
func gxLeft(e *gx, null map[string]bool, out map[string]bool) {
	switch e.K {
	case "name":
		out[e.S] = true
	case "seq":
		for _, k := range e.Kids {
			gxLeft(k, null, out)
			if !gxNullable(k, null) {
				return
			}
		}
	default:
		for _, k := range e.Kids {
			gxLeft(k, null, out)
		}
	}
}

func diagReference(rules []grule) diagExpect {
	var ex diagExpect
	body := map[string]*gx{}
	var order []string
	dup := map[string]bool{}
	for _, r := range rules {
		if _, ok := body[r.Name]; ok {
			dup[r.Name] = true
			continue
		}
		body[r.Name] = r.Body
		order = append(order, r.Name)
	}
	ex.Duplicate = sortedSet(dup)
	// undefined: referred to anywhere, defined nowhere
	undef := map[string]bool{}
	for _, r := range rules {
		gxWalk(r.Body, func(e *gx) {
			if e.K == "name" && body[e.S] == nil {
				undef[e.S] = true
			}
		})
	}
	ex.Undefined = sortedSet(undef)
	// unused: not reachable from the first rule
	reached := map[string]bool{}
	if len(order) > 0 {
		work := []string{order[0]}
		reached[order[0]] = true
		for len(work) > 0 {
			n := work[len(work)-1]
			work = work[:len(work)-1]
			gxWalk(body[n], func(e *gx) {
				if e.K == "name" && body[e.S] != nil && !reached[e.S] {
					reached[e.S] = true
					work = append(work, e.S)
				}
			})
		}
	}
	unused := map[string]bool{}
	for _, n := range order {
		if !reached[n] {
			unused[n] = true
		}
	}
	ex.Unused = sortedSet(unused)
	// left recursion
	solve := func(start bool, forced map[string]bool) map[string]bool {
		null := map[string]bool{}
		for _, n := range order {
			null[n] = start || forced[n]
		}
		for u := range undef {
			null[u] = start // an undefined rule: never succeeds (least) / unknown (greatest)
		}
		for changed := true; changed; {
			changed = false
			for _, n := range order {
				v := gxNullable(body[n], null) || forced[n]
				if v != null[n] {
					null[n], changed = v, true
				}
			}
		}
		return null
	}
	cycles := func(null map[string]bool) map[string]bool {
		edges := map[string]map[string]bool{}
		for _, n := range order {
			edges[n] = map[string]bool{}
			gxLeft(body[n], null, edges[n])
		}
		on := map[string]bool{}
		for _, n := range order {
			seen := map[string]bool{}
			work := []string{}
			for m := range edges[n] {
				work = append(work, m)
			}
			for len(work) > 0 {
				m := work[len(work)-1]
				work = work[:len(work)-1]
				if seen[m] || edges[m] == nil {
					continue
				}
				seen[m] = true
				for k := range edges[m] {
					work = append(work, k)
				}
			}
			if seen[n] {
				on[n] = true
			}
		}
		return on
	}
	must := cycles(solve(false, nil))
	forced := map[string]bool{}
	may := cycles(solve(true, forced))
	for {
		grew := false
		for n := range may {
			if !forced[n] {
				forced[n], grew = true, true
			}
		}
		if !grew {
			break
		}
		may = cycles(solve(true, forced))
	}
	ex.LeftRecMust, ex.LeftRecMay = sortedSet(must), sortedSet(may)
	return ex
}

// ---------------------------------------------------------------------------------------------
// what peg said

type diagSeen struct {
	Undefined, Unused, LeftRec, Duplicate map[string]int
	Other                                 []string // lines that are none of the documented diagnostics
	Crash                                 bool
}

var (
	reUndefined = regexp.MustCompile(`rule '([^']*)' used but not defined`)
	reUnused    = regexp.MustCompile(`rule '([^']*)' defined but not used`)
	reLeftRec   = regexp.MustCompile(`possible infinite left recursion in rule '([^']*)'`)
	reDuplicate = regexp.MustCompile(`rule '([^']*)' defined more than once`)
)

func parseDiagnostics(stderr string) *diagSeen {
	s := &diagSeen{Undefined: map[string]int{}, Unused: map[string]int{}, LeftRec: map[string]int{}, Duplicate: map[string]int{}}
	if strings.Contains(stderr, "panic:") || strings.Contains(stderr, "fatal error:") || strings.Contains(stderr, "goroutine 1 [") {
		s.Crash = true
	}
	for _, line := range strings.Split(stderr, "\n") {
		line = strings.TrimSpace(line)
		switch {
		case line == "":
		case reUndefined.MatchString(line):
			s.Undefined[reUndefined.FindStringSubmatch(line)[1]]++
		case reUnused.MatchString(line):
			s.Unused[reUnused.FindStringSubmatch(line)[1]]++
		case reLeftRec.MatchString(line):
			s.LeftRec[reLeftRec.FindStringSubmatch(line)[1]]++
		case reDuplicate.MatchString(line):
			s.Duplicate[reDuplicate.FindStringSubmatch(line)[1]]++
		default:
			s.Other = append(s.Other, line)
		}
	}
	return s
}

type diagMismatch struct {
	Category, Observation, Expected, Actual string
}

func countsString(m map[string]int) string {
	var parts []string
	for _, k := range sortedKeys(m) {
		if m[k] == 1 {
			parts = append(parts, k)
		} else {
			parts = append(parts, fmt.Sprintf("%s (x%d)", k, m[k]))
		}
	}
	return "{" + strings.Join(parts, ", ") + "}"
}

// judgeDiagnostics compares one run (mode "-strict" or "") with the reference; exit < 0: the exit status is not known
// (in-process pre-selection) and is not judged.
func judgeDiagnostics(ex *diagExpect, mode string, exit int, stderr string) *diagMismatch {
	seen := parseDiagnostics(stderr)
	run := "peg " + strings.TrimSpace(mode+" grammar")
	if seen.Crash {
		return &diagMismatch{"crash", run + ": standard error", "diagnostics or a parser, never a crash", trunc(stderr, 500)}
	}
	if len(ex.Duplicate) > 0 {
		named := false
		for _, d := range ex.Duplicate {
			if strings.Contains(stderr, "'"+d+"'") {
				named = true
			}
		}
		if exit == 0 || !named {
			return &diagMismatch{"duplicate", run + ": rule defined twice", "a non-zero exit status and a message naming a rule that is defined twice " + fmt.Sprint(ex.Duplicate),
				fmt.Sprintf("exit status %d, standard error: %s", exit, trunc(stderr, 300))}
		}
		return nil
	}
	exact := func(cat, what string, want []string, got map[string]int) *diagMismatch {
		w := map[string]int{}
		for _, n := range want {
			w[n] = 1
		}
		if countsString(w) != countsString(got) {
			return &diagMismatch{cat, run + ": '" + what + "' reported for", countsString(w) + " (each once)", countsString(got)}
		}
		return nil
	}
	if m := exact("undefined", "used but not defined", ex.Undefined, seen.Undefined); m != nil {
		return m
	}
	if m := exact("unused", "defined but not used", ex.Unused, seen.Unused); m != nil {
		return m
	}
	may := map[string]bool{}
	for _, n := range ex.LeftRecMay {
		may[n] = true
	}
	for _, n := range ex.LeftRecMust {
		if seen.LeftRec[n] == 0 {
			return &diagMismatch{"leftrec", run + ": 'possible infinite left recursion' reported for", "at least " + fmt.Sprint(ex.LeftRecMust) + " (these rules can re-enter themselves without consuming)", countsString(seen.LeftRec)}
		}
	}
	for n := range seen.LeftRec {
		if !may[n] {
			return &diagMismatch{"leftrec", run + ": 'possible infinite left recursion' reported for", "at most " + fmt.Sprint(ex.LeftRecMay) + " (no other rule can re-enter itself without consuming)", countsString(seen.LeftRec)}
		}
	}
	if len(seen.Duplicate) > 0 {
		return &diagMismatch{"duplicate", run + ": 'defined more than once' reported for", "{} (no rule is defined twice)", countsString(seen.Duplicate)}
	}
	if len(seen.Other) > 0 {
		return &diagMismatch{"other", run + ": standard error", "only the documented diagnostics", trunc(strings.Join(seen.Other, " | "), 300)}
	}
	if exit >= 0 {
		wantFail := mode == "-strict" && ex.any()
		if wantFail != (exit != 0) {
			want := "exit status 0 (diagnostics are warnings without -strict; a grammar without diagnostics generates)"
			if wantFail {
				want = "a non-zero exit status (-strict and the grammar has a diagnostic)"
			}
			return &diagMismatch{"strict", run + ": exit status", want, fmt.Sprintf("exit status %d, standard error: %s", exit, trunc(stderr, 300))}
		}
	}
	return nil
}

// diagFunctions: the functions of the analyses a mismatch of a category runs through. The list primitives and the type
// accessors are used by every analysis.
func diagFunctions(category string) []string {
	prim := []string{"Tree.Compile", "Type.GetType", "node.String", "node.GetID", "node.Init", "node.Front", "node.Next", "node.Len", "node.PushFront", "node.PopFront", "node.PushBack", "verifLast"}
	switch category {
	case "unused", "undefined":
		return append(prim, "Tree.countRules", "Tree.warn")
	case "leftrec":
		return append(prim, "Tree.checkRecursion", "Tree.warn")
	case "strict", "other":
		return append(prim, "Tree.warn")
	}
	if category == "race" {
		return []string{"frame", "Tree.Compile", "Tree.countRules", "Tree.checkRecursion", "Tree.warn"}
	}
	return append(prim, "Tree.countRules", "Tree.checkRecursion", "Tree.warn", "node.CheckAlwaysSucceeds", "node.checkAlwaysSucceedsRecursion")
}

// ---------------------------------------------------------------------------------------------
// the grammar family

func diagText(rules []grule) string {
	p := newPrinter(0, false)
	text := diagHeader
	for _, r := range rules {
		text += p.rule(r) + "\n"
	}
	return text
}

var diagOps = []string{"query", "star", "plus", "and", "not", "push"}

// diagCurated: one grammar per operator and position (the shapes the property names), plus the historical defects
func diagCurated() [][]grule {
	a, b := gLit("a"), gLit("b")
	A, B, C, U := gName("A"), gName("B"), gName("C"), gName("U")
	var out [][]grule
	g := func(rs ...grule) { out = append(out, rs) }
	r := func(n string, e *gx) grule { return grule{n, e} }
	g(r("A", a))
	g(r("A", gSeq(a, B)), r("B", b))
	for _, op := range append([]string{""}, diagOps...) {
		w := func(e *gx) *gx {
			if op == "" {
				return e
			}
			return gUn(op, e)
		}
		g(r("A", gSeq(w(A), a)))              // direct, through the operator
		g(r("A", gSeq(a, w(A))))              // not left recursive
		g(r("A", gSeq(w(a), A)))              // behind a prefix that may be empty
		g(r("A", gSeq(B, a)), r("B", w(A)))   // indirect
		g(r("A", gAlt(a, w(A))))              // in a later alternative
		g(r("A", gSeq(w(B), a)), r("B", b))   // B is used through the operator
		g(r("A", a), r("B", gSeq(w(B), b)))   // unreachable and left recursive
		g(r("A", gSeq(w(U), a)))              // undefined through the operator
		g(r("A", a), r("B", w(C)), r("C", b)) // C used only from the unreachable B
		g(r("A", gSeq(w(B), a)), r("B", gSeq(w(C), b)), r("C", gAlt(a, gNil())), r("D", a))
	}
	g(r("A", gSeq(gAlt(a, gNil()), A)))
	g(r("A", gSeq(gNil(), A)))
	g(r("A", gSeq(&gx{K: "action", S: " x() "}, A)))
	g(r("A", gSeq(&gx{K: "pred", S: " true "}, A)))
	g(r("A", gSeq(A, B)), r("B", gSeq(B, a)))
	g(r("A", gSeq(B, a)), r("B", gSeq(C, b)), r("C", gSeq(gUn("query", a), A)))
	g(r("A", gSeq(B, U)), r("B", gNil()), r("C", gSeq(U, A)))
	g(r("A", gSeq(B, C)), r("B", gNil()), r("C", b)) // empty body: defined
	g(r("A", a), r("A", b))                          // defined twice
	g(r("A", gSeq(B, a)), r("B", a), r("B", b))
	g(r("A", gSeq(a, B)), r("B", gSeq(b, A)), r("C", gSeq(C, a)), r("D", U))
	g(r("A", gAlt(gSeq(A, a), U)))                                         // both analyses warn
	g(r("A", gSeq(B, U)), r("B", gAlt(gSeq(B, a), b)))                     // left recursion and a reachable undefined rule
	g(r("A", gSeq(B, a)), r("B", gAlt(gSeq(B, a), b)), r("C", gSeq(C, U))) // left recursion, unused, undefined
	return out
}

// diagBodies: the bodies of the exhaustive two-rule family
func diagBodies() []*gx {
	atoms := []*gx{gLit("a"), gName("A"), gName("B")}
	var l1 []*gx
	l1 = append(l1, atoms...)
	for _, op := range diagOps {
		for _, x := range atoms {
			l1 = append(l1, gUn(op, x))
		}
	}
	out := append([]*gx{}, l1...)
	heads := []*gx{gLit("a"), gUn("query", gLit("a")), gName("A"), gName("B")}
	for _, x := range l1 {
		for _, y := range atoms {
			out = append(out, gSeq(x, y), gAlt(x, y))
		}
		out = append(out, gAlt(x, gNil()), gAlt(gLit("a"), x))
	}
	for _, x := range heads {
		for _, y := range l1[len(atoms):] {
			out = append(out, gSeq(x, y))
		}
	}
	return out
}

func diagRandomExpr(rng *rand.Rand, names []string, depth int) *gx {
	if depth == 0 || rng.Intn(4) == 0 {
		switch k := rng.Intn(8); {
		case k < 3:
			return gLit(string(rune('a' + rng.Intn(3))))
		case k < 7:
			return gName(names[rng.Intn(len(names))])
		default:
			return gDot()
		}
	}
	switch k := rng.Intn(10); {
	case k < 3:
		n := 2 + rng.Intn(2)
		var kids []*gx
		for i := 0; i < n; i++ {
			kids = append(kids, diagRandomExpr(rng, names, depth-1))
		}
		return gSeq(kids...)
	case k < 5:
		n := 2 + rng.Intn(2)
		var kids []*gx
		for i := 0; i < n; i++ {
			kids = append(kids, diagRandomExpr(rng, names, depth-1))
		}
		if rng.Intn(4) == 0 {
			kids = append(kids, gNil())
		}
		return gAlt(kids...)
	default:
		return gUn(diagOps[rng.Intn(len(diagOps))], diagRandomExpr(rng, names, depth-1))
	}
}

func diagRandom(rng *rand.Rand) []grule {
	n := 2 + rng.Intn(3)
	names := []string{"A", "B", "C", "D"}[:n]
	refs := append([]string{}, names...)
	if rng.Intn(3) == 0 {
		refs = append(refs, "U")
	}
	var rules []grule
	for _, nm := range names {
		body := diagRandomExpr(rng, refs, 1+rng.Intn(3))
		if rng.Intn(15) == 0 {
			body = gNil()
		}
		rules = append(rules, grule{nm, body})
	}
	if rng.Intn(25) == 0 {
		rules = append(rules, grule{names[rng.Intn(n)], gLit("z")})
	}
	return rules
}

// ---------------------------------------------------------------------------------------------
// running peg

type pegRun struct {
	Exit   int
	Stderr string
}

// runPeg runs the binary on a grammar text (written into a fresh directory) with the given options.
func runPeg(bin, text string, opts []string, env []string) (*pegRun, error) {
	d, err := os.MkdirTemp(witnessDir("peg"), "g-")
	if err != nil {
		return nil, err
	}
	defer os.RemoveAll(d)
	if err := os.WriteFile(filepath.Join(d, "g.peg"), []byte(text), 0o644); err != nil {
		return nil, err
	}
	args := append(append([]string{}, opts...), "-output", filepath.Join(d, "g.go"), filepath.Join(d, "g.peg"))
	cmd := exec.Command(bin, args...)
	cmd.Dir = d
	cmd.Env = append(os.Environ(), env...)
	var stderr bytes.Buffer
	cmd.Stderr = &stderr
	if err := cmd.Start(); err != nil {
		return nil, err
	}
	done := make(chan error, 1)
	go func() { done <- cmd.Wait() }()
	res := &pegRun{}
	select {
	case <-done:
		res.Exit = cmd.ProcessState.ExitCode()
	case <-time.After(20 * time.Second):
		_ = cmd.Process.Kill()
		<-done
		res.Exit = -2
		stderr.WriteString("\nfatal error: killed, no exit within 20 s")
	}
	res.Stderr = stderr.String()
	return res, nil
}

// judgeWithCLI runs peg with and without -strict and returns the first mismatch with the reference.
func judgeWithCLI(bin, text string, ex *diagExpect) (*diagMismatch, error) {
	for _, mode := range []string{"-strict", ""} {
		var opts []string
		if mode != "" {
			opts = []string{mode}
		}
		run, err := runPeg(bin, text, opts, nil)
		if err != nil {
			return nil, err
		}
		if m := judgeDiagnostics(ex, mode, run.Exit, run.Stderr); m != nil {
			return m, nil
		}
	}
	return nil, nil
}

func diagWitness(text string, ex diagExpect, m *diagMismatch, race bool) *UnitWitness {
	in, _ := json.Marshal(diagCase{Grammar: text, Expect: ex, Race: race})
	return &UnitWitness{Unit: "tree", Kind: "diagnostics", Functions: diagFunctions(m.Category), Input: in, Observation: m.Observation, Expected: m.Expected, Actual: m.Actual,
		Rerun: "govc replay-unit <this file>: builds peg from " + repoDir + ", writes grammar_text to a file, runs `peg -strict -output g.go g.peg` and `peg -output g.go g.peg` and compares standard error and exit status with expected_diagnostics"}
}

func (r *Run) witnessDiagnostics(obs []*Obligation, deadline time.Time) *searchNote {
	note := &searchNote{Unit: "tree", Functions: failingFunctions(obs)}
	t, err := buildTools()
	if err != nil {
		note.Detail = "peg does not build: " + trunc(err.Error(), 300)
		return note
	}
	report := func(text string, ex diagExpect, m *diagMismatch, race bool) *searchNote {
		w := diagWitness(text, ex, m, race)
		note.Found = true
		attach(obs, w, false)
		note.Detail = fmt.Sprintf("%s: %s; expected %s; actual %s", strings.TrimSpace(strings.TrimPrefix(text, diagHeader)), m.Observation, m.Expected, m.Actual)
		return note
	}
	// grammars on which both analyses warn (for the race probe)
	var multi []string
	for _, rules := range diagCurated() {
		if ex := diagReference(rules); len(ex.LeftRecMust) > 0 && len(ex.Undefined)+len(ex.Unused) > 0 && len(ex.Duplicate) == 0 {
			multi = append(multi, diagText(rules))
		}
	}
	// 0. failing frame obligations (C09: the two analyses of Compile run concurrently): the race detector first
	raceDone := false
	for _, ob := range obs {
		if _, fn := obligationUnitFn(ob); fn == "frame" && !raceDone {
			raceDone = true
			if text, m := raceProbe(multi, deadline, 4); m != nil {
				w := diagWitness(text, diagReference(nil), m, true)
				note.Found = true
				attach(obs, w, false)
				note.Detail = "race detector: " + trunc(m.Actual, 300) + "; "
			}
		}
	}
	open := false
	for _, ob := range obs {
		open = open || ob.Ground == ""
	}
	if !open {
		return note
	}
	// 1. the curated grammars, with the binary, in both modes
	for _, rules := range diagCurated() {
		if time.Now().After(deadline) {
			return note
		}
		text, ex := diagText(rules), diagReference(rules)
		note.Tried++
		m, err := judgeWithCLI(t.Peg, text, &ex)
		if err == nil && m != nil {
			return report(text, ex, m, false)
		}
	}
	// 2. the exhaustive two-rule family and random grammars of 2-4 rules: pre-selected in process (-strict only), confirmed with the binary
	type cand struct {
		rules []grule
		text  string
		ex    diagExpect
	}
	var cases []cand
	bodies := diagBodies()
	rng := rand.New(rand.NewSource(int64(r.Seed) + 15))
	for _, x := range bodies {
		for _, y := range bodies {
			cases = append(cases, cand{rules: []grule{{"A", x}, {"B", y}}})
		}
	}
	rng.Shuffle(len(cases), func(i, j int) { cases[i], cases[j] = cases[j], cases[i] })
	nRandom := 20000
	if r.Tier == "thorough" {
		nRandom = 400000
	}
	// random grammars are interleaved so that both kinds are covered when the budget ends early
	var mixed []cand
	for i := 0; i < len(cases) || nRandom > 0; i++ {
		if i < len(cases) {
			mixed = append(mixed, cases[i])
		}
		if nRandom > 0 && i%3 == 0 {
			mixed = append(mixed, cand{rules: diagRandom(rng)})
			nRandom--
		}
	}
	const batch = 8000
	unconfirmed := 0 // flagged in process, not reproduced by the binary
	for lo := 0; lo < len(mixed); lo += batch {
		if time.Until(deadline) < 3*time.Second {
			break
		}
		part := mixed[lo:min(lo+batch, len(mixed))]
		texts := make([]string, len(part))
		for i := range part {
			part[i].text, part[i].ex = diagText(part[i].rules), diagReference(part[i].rules)
			texts[i] = part[i].text
		}
		results, err := runHarness(texts, deadline.Add(-2*time.Second), 4)
		if err != nil {
			note.Detail = "harness: " + trunc(err.Error(), 300)
			break
		}
		confirmed := 0
		for i, res := range results {
			if res == nil {
				continue
			}
			note.Tried++
			c := &part[i]
			var m *diagMismatch
			switch {
			case res.Crash != "":
				m = &diagMismatch{Category: "crash"}
			case res.Panic != "":
				m = &diagMismatch{Category: "crash"}
			case res.ParseError != "":
				m = &diagMismatch{Category: "crash"} // the family is syntactically valid: let the binary say what happens
			default:
				m = judgeDiagnostics(&c.ex, "-strict", -1, res.CompileError)
			}
			if m == nil {
				continue
			}
			if confirmed++; confirmed > 20 {
				break
			}
			if cm, err := judgeWithCLI(t.Peg, c.text, &c.ex); err == nil && cm != nil {
				// drop rules (not the first one) as long as a mismatch of the same kind remains
				rules := c.rules
				for again := true; again; {
					again = false
					for k := 1; k < len(rules); k++ {
						fewer := append(append([]grule{}, rules[:k]...), rules[k+1:]...)
						fx := diagReference(fewer)
						if fm, err := judgeWithCLI(t.Peg, diagText(fewer), &fx); err == nil && fm != nil && fm.Category == cm.Category {
							rules, cm, again = fewer, fm, true
							break
						}
					}
				}
				return report(diagText(rules), diagReference(rules), cm, false)
			}
			unconfirmed++
		}
	}
	// 3. the two analyses run concurrently: on grammars on which both warn, the warnings must not depend on the schedule
	if !raceDone && time.Until(deadline) > 15*time.Second && len(multi) > 0 {
		if text, m := raceProbe(multi, deadline, 3); m != nil {
			return report(text, diagReference(nil), m, true)
		}
		note.Detail += "race detector: no report on " + fmt.Sprint(len(multi)) + " grammars with warnings from both analyses; "
	}
	if unconfirmed > 0 {
		note.Detail += fmt.Sprintf("%d grammars flagged by the in-process pre-selection did not reproduce with the binary; ", unconfirmed)
	}
	note.Detail += "peg's diagnostics agree with the reference on every grammar tried"
	return note
}

var raceOnce struct {
	done bool
	bin  string
	err  error
}

// raceBinary builds peg with the race detector (needs cgo).
func raceBinary() (string, error) {
	if !raceOnce.done {
		raceOnce.done = true
		raceOnce.bin = filepath.Join(scratchDir, "tools", "peg-race")
		_ = os.MkdirAll(filepath.Dir(raceOnce.bin), 0o755)
		cmd := exec.Command("go", "build", "-race", "-o", raceOnce.bin, ".")
		cmd.Dir = repoDir
		cmd.Env = append(goEnv(), "CGO_ENABLED=1")
		if out, err := cmd.CombinedOutput(); err != nil {
			raceOnce.err = fmt.Errorf("go build -race: %v: %s", err, trunc(string(out), 300))
		}
	}
	return raceOnce.bin, raceOnce.err
}

var reRaceFunc = regexp.MustCompile(`tree\.\(\*Tree\)\.([A-Za-z]+)`)

// raceProbe runs the race-detector build on the grammars; a report is a mismatch (category by the functions in the report).
func raceProbe(texts []string, deadline time.Time, rounds int) (string, *diagMismatch) {
	bin, err := raceBinary()
	if err != nil {
		return "", nil
	}
	for round := 0; round < rounds; round++ {
		for _, text := range texts {
			if time.Until(deadline) < 2*time.Second {
				return "", nil
			}
			run, err := runPeg(bin, text, nil, []string{"GOMAXPROCS=4", "GORACE=halt_on_error=1 exitcode=66"})
			if err != nil {
				return "", nil
			}
			if run.Exit == 66 || strings.Contains(run.Stderr, "DATA RACE") {
				fns := map[string]bool{}
				for _, m := range reRaceFunc.FindAllStringSubmatch(run.Stderr, -1) {
					fns[m[1]] = true
				}
				return text, &diagMismatch{Category: "race", Observation: "peg built with -race (GOMAXPROCS=4) on the grammar: race detector",
					Expected: "no data race: the two analyses of Compile run concurrently and must not share written state",
					Actual:   "WARNING: DATA RACE involving " + strings.Join(sortedSet(fns), ", ") + ": " + trunc(run.Stderr, 400)}
			}
		}
	}
	return "", nil
}

func replayDiagnostics(w *UnitWitness) (*UnitWitness, error) {
	var c diagCase
	if err := json.Unmarshal(w.Input, &c); err != nil {
		return nil, err
	}
	if c.Race {
		text, m := raceProbe([]string{c.Grammar}, time.Now().Add(50*time.Second), 15)
		if raceOnce.err != nil {
			return nil, raceOnce.err
		}
		if m == nil {
			return nil, nil
		}
		return diagWitness(text, c.Expect, m, true), nil
	}
	t, err := buildTools()
	if err != nil {
		return nil, err
	}
	m, err := judgeWithCLI(t.Peg, c.Grammar, &c.Expect)
	if err != nil || m == nil {
		return nil, err
	}
	return diagWitness(c.Grammar, c.Expect, m, false), nil
}

var _ = sort.Strings
