package main

import (
	"flag"
	"fmt"
	"os"
	"sort"
	"strings"
)

var repoDir = "/repo"
var verifDir = "/verif"

func main() {
	if len(os.Args) < 2 {
		fmt.Println("usage: govc <check|debug> ...")
		os.Exit(2)
	}
	os.Setenv("PATH", "/opt/veriftools/go1.26.8/bin:"+os.Getenv("PATH"))
	for _, kv := range [][2]string{{"GOFLAGS", "-mod=mod"}, {"GOPROXY", "off"}, {"GOSUMDB", "off"}, {"GOTOOLCHAIN", "local"}, {"CGO_ENABLED", "0"}} {
		os.Setenv(kv[0], kv[1])
	}
	if d := os.Getenv("GOVC_REPO"); d != "" {
		repoDir = d
	}
	var err error
	scratchDir, err = os.MkdirTemp("/var/tmp", "govc-")
	if err != nil {
		fmt.Println(err)
		os.Exit(2)
	}
	code := 0
	func() {
		if os.Getenv("GOVC_KEEP") == "" {
			defer os.RemoveAll(scratchDir)
		} else {
			fmt.Println("scratch:", scratchDir)
		}
		switch os.Args[1] {
		case "debug":
			code = cmdDebug(os.Args[2:])
		case "check":
			code = cmdCheck(os.Args[2:])
		default:
			fmt.Println("unknown command")
			code = 2
		}
	}()
	os.Exit(code)
}

// debug <unit> [-f func] [-dump dir] : print every obligation and its verdict
func cmdDebug(args []string) int {
	fs := flag.NewFlagSet("debug", flag.ExitOnError)
	fn := fs.String("f", "", "comma separated function keys")
	dump := fs.String("dump", "", "directory to dump failing queries")
	budget := fs.Int("t", 10, "budget seconds")
	all := fs.Bool("all", false, "print discharged obligations too")
	optsFlag := fs.String("o", "", "peg options for a grammar unit")
	_ = fs.Parse(args[1:])
	r := NewRun("debug", "quick", 0)
	r.Budget = *budget
	if strings.HasPrefix(args[0], "schema:") {
		files, err := writeSchemas(scratchDir+"/schemas", strings.TrimPrefix(args[0], "schema:"), 0)
		if err != nil {
			fmt.Println(err)
			return 2
		}
		for _, sf := range files {
			gp, err := Generate(sf.Name, sf.Path, strings.Fields(*optsFlag))
			if err != nil {
				fmt.Println("generate:", sf.Name, trunc(err.Error(), 2000))
				continue
			}
			var only map[string]bool
			if *fn != "" {
				only = map[string]bool{}
				for _, k := range strings.Split(*fn, ",") {
					only[k] = true
				}
			}
			gp.verifyClosures(r, only)
		}
	} else if strings.HasSuffix(args[0], ".peg") {
		// debug <grammar.peg> [-o "-inline -switch"] [-f Rule,...]
		gp, err := Generate("dbg", args[0], strings.Fields(*optsFlag))
		if err != nil {
			fmt.Println("generate:", err)
			return 2
		}
		var only map[string]bool
		if *fn != "" {
			only = map[string]bool{}
			for _, k := range strings.Split(*fn, ",") {
				only[k] = true
			}
		}
		gp.verifyClosures(r, only)
	} else {
		u, keys, err := loadNamedUnit(args[0])
		if err != nil {
			fmt.Println("load:", err)
			return 2
		}
		if *fn != "" {
			keys = strings.Split(*fn, ",")
		}
		r.verifyFuncs(u, keys)
	}
	r.solveAll()
	for _, f := range r.Fns {
		fmt.Printf("FUNC %-30s verified=%v obligations=%d %s\n", f.Key, f.Verified, f.NObl, f.Reason)
	}
	sort.SliceStable(r.Obls, func(i, j int) bool { return r.Obls[i].Fn < r.Obls[j].Fn })
	bad := 0
	for _, ob := range r.Obls {
		ok := ob.Result.Verdict == VUnsat
		if ob.Canary {
			ok = ob.Result.Verdict != VUnsat
		}
		if ok && !*all {
			continue
		}
		if !ok {
			bad++
		}
		fmt.Printf("%-8s %-60s %s %.2fs %s\n      %s\n", ob.Result.Verdict, ob.Name, ob.Result.Backend, ob.Result.Seconds, ob.Pos, ob.Detail)
		if !ok && *dump != "" {
			_ = os.MkdirAll(*dump, 0o755)
			fmt.Println("      dumped:", dumpQuery(ob, *dump))
		}
	}
	fmt.Printf("obligations=%d not-as-expected=%d\n", len(r.Obls), bad)
	return 0
}


func loadNamedUnit(name string) (*Unit, []string, error) {
	switch name {
	case "set":
		return loadSetUnit()
	}
	return nil, nil, fmt.Errorf("unknown unit %s", name)
}

func loadSetUnit() (*Unit, []string, error) {
	u, err := LoadUnit("set", repoDir, []string{"./set"}, "verif")
	if err != nil {
		return nil, nil, err
	}
	if err := u.CS.ParseFile(repoDir + "/set/contracts_verif.go"); err != nil {
		return nil, nil, err
	}
	keys := []string{"NewSet", "Set.Has", "Set.Add", "Set.AddRange", "Set.Len", "Set.Copy", "Set.Union", "Set.Intersects", "Set.Complement", "Set.Equal", "Set.String"}
	return u, keys, nil
}
