package main

import (
	"flag"
	"fmt"
	"os"
	"sort"
	"strings"
)

var repoDir = "/repo"
var verifDir = "/verif"

func main() {
	if len(os.Args) < 2 {
		fmt.Println("usage: govc <check|debug|replay-unit> ...")
		os.Exit(2)
	}
	os.Setenv("PATH", "/opt/veriftools/go1.26.8/bin:"+os.Getenv("PATH"))
	for _, kv := range [][2]string{{"GOFLAGS", "-mod=mod"}, {"GOPROXY", "off"}, {"GOSUMDB", "off"}, {"GOTOOLCHAIN", "local"}, {"CGO_ENABLED", "0"}} {
		os.Setenv(kv[0], kv[1])
	}
	if d := os.Getenv("GOVC_VERIF"); d != "" {
		verifDir = d
	}
	if d := os.Getenv("GOVC_REPO"); d != "" {
		repoDir = d
	}
	var err error
	scratchBase := "/var/tmp"
	if d := os.Getenv("GOVC_SCRATCH"); d != "" {
		scratchBase = d // a private place for the scratch directory
	}
	scratchDir, err = os.MkdirTemp(scratchBase, "govc-")
	if err != nil {
		fmt.Println(err)
		os.Exit(2)
	}
	code := 0
	func() {
		if os.Getenv("GOVC_KEEP") == "" {
			defer os.RemoveAll(scratchDir)
		} else {
			fmt.Println("scratch:", scratchDir)
		}
		switch os.Args[1] {
		case "debug":
			code = cmdDebug(os.Args[2:])
		case "check":
			code = cmdCheck(os.Args[2:])
		case "pwitness":
			// pwitness <grammar>: cross-check the reference interpreter against the real generated parser (debug aid)
			code = cmdParserWitness(os.Args[2:])
		case "replay":
			// replay <replay.json>: re-run the failing input of a replay file on the parser generated from the current tree
			code = cmdReplay(os.Args[2:])
		case "schemas":
			// schemas <dir> [tier]: write the schema grammars of the tier into dir (development aid)
			tier := "quick"
			if len(os.Args) > 3 {
				tier = os.Args[3]
			}
			if len(os.Args) < 3 {
				fmt.Println("usage: govc schemas <dir> [quick|thorough]")
				code = 2
			} else if files, err := writeSchemas(os.Args[2], tier, 0); err != nil {
				fmt.Println(err)
				code = 2
			} else {
				for _, f := range files {
					fmt.Println(f.Path)
				}
			}
		case "replay-unit":
			code = cmdReplayUnit(os.Args[2:])
		case "witness":
			code = cmdWitness(os.Args[2:])
		default:
			fmt.Println("unknown command")
			code = 2
		}
	}()
	os.Exit(code)
}

// debug <unit> [-f func] [-dump dir] : print every obligation and its verdict
func cmdDebug(args []string) int {
	fs := flag.NewFlagSet("debug", flag.ExitOnError)
	fn := fs.String("f", "", "comma separated function keys")
	dump := fs.String("dump", "", "directory to dump failing queries")
	budget := fs.Int("t", 10, "budget seconds")
	all := fs.Bool("all", false, "print discharged obligations too")
	optsFlag := fs.String("o", "", "peg options for a grammar unit")
	model := fs.Bool("model", false, "for every proof obligation that does not discharge, print a candidate countermodel")
	_ = fs.Parse(args[1:])
	r := NewRun("debug", "quick", 0)
	r.Budget = *budget
	if strings.HasPrefix(args[0], "schema:") {
		files, err := writeSchemas(scratchDir+"/schemas", strings.TrimPrefix(args[0], "schema:"), 0)
		if err != nil {
			fmt.Println(err)
			return 2
		}
		for _, sf := range files {
			gp, err := Generate(sf.Name, sf.Path, strings.Fields(*optsFlag))
			if err != nil {
				fmt.Println("generate:", sf.Name, trunc(err.Error(), 2000))
				continue
			}
			var only map[string]bool
			if *fn != "" {
				only = map[string]bool{}
				for _, k := range strings.Split(*fn, ",") {
					only[k] = true
				}
			}
			gp.verifyClosures(r, only)
		}
	} else if strings.HasSuffix(args[0], ".peg") {
		// debug <grammar.peg> [-o "-inline -switch"] [-f Rule,...]
		gp, err := Generate("dbg", args[0], strings.Fields(*optsFlag))
		if err != nil {
			fmt.Println("generate:", err)
			return 2
		}
		var only map[string]bool
		if *fn != "" {
			only = map[string]bool{}
			for _, k := range strings.Split(*fn, ",") {
				only[k] = true
			}
		}
		gp.verifyClosures(r, only)
	} else if args[0] == "C10" {
		// debug C10: the whole property (builder contracts, escape table, stack discipline of peg.peg)
		if err := runC10(r); err != nil {
			fmt.Println("C10:", err)
			return 2
		}
	} else if args[0] == "pegpeg" {
		// debug pegpeg: only the checks on the text / rule tree of peg.peg
		u, _, err := loadTreeUnit()
		if err != nil {
			fmt.Println("load:", err)
			return 2
		}
		r.Obls = append(r.Obls, escapeTable(repoDir+"/peg.peg")...)
		r.Obls = append(r.Obls, stackDiscipline(u)...)
		r.Obls = append(r.Obls, denotation(u)...)
	} else {
		u, keys, err := loadNamedUnit(args[0])
		if err != nil {
			fmt.Println("load:", err)
			return 2
		}
		if *fn != "" {
			keys = strings.Split(*fn, ",")
		}
		r.verifyFuncs(u, keys)
	}
	r.solveAll()
	for _, f := range r.Fns {
		fmt.Printf("FUNC %-30s verified=%v obligations=%d %s\n", f.Key, f.Verified, f.NObl, f.Reason)
	}
	sort.SliceStable(r.Obls, func(i, j int) bool { return r.Obls[i].Fn < r.Obls[j].Fn })
	bad := 0
	for _, ob := range r.Obls {
		ok := ob.Result.Verdict == VUnsat
		if ob.Canary {
			ok = ob.Result.Verdict != VUnsat
		}
		if ok && !*all {
			continue
		}
		if !ok {
			bad++
		}
		fmt.Printf("%-8s %-60s %s %.2fs %s\n      %s\n", ob.Result.Verdict, ob.Name, ob.Result.Backend, ob.Result.Seconds, ob.Pos, ob.Detail)
		if !ok && !ob.Canary && *model {
			fmt.Println("      " + strings.ReplaceAll(candidateModel(ob), "\n", "\n      "))
		}
		if (!ok || *all) && *dump != "" { // with -all every printed obligation is dumped
			_ = os.MkdirAll(*dump, 0o755)
			fmt.Println("      dumped:", dumpQuery(ob, *dump))
		}
	}
	if *all || *model {
		for _, a := range sortedKeys(r.Assume) {
			fmt.Println("ASSUMED", a)
		}
	}
	fmt.Printf("obligations=%d not-as-expected=%d\n", len(r.Obls), bad)
	return 0
}


func loadNamedUnit(name string) (*Unit, []string, error) {
	switch name {
	case "set":
		return loadSetUnit()
	case "runtime":
		return loadRuntimeUnit()
	case "runtime-noast":
		return loadRuntimeNoastUnit()
	case "main":
		return loadMainUnit()
	case "tree":
		return loadTreeUnit()
	}
	return nil, nil, fmt.Errorf("unknown unit %s", name)
}

func loadSetUnit() (*Unit, []string, error) {
	u, err := LoadUnit("set", repoDir, []string{"./set"}, "verif")
	if err != nil {
		return nil, nil, err
	}
	if err := u.CS.ParseFile(repoDir + "/set/contracts_verif.go"); err != nil {
		return nil, nil, err
	}
	// assumed contract of fmt.Sprintf: no precondition, modifies nothing, unconstrained string result
	u.TrustedExt["fmt.Sprintf"] = &ExtSpec{Key: "fmt.Sprintf", Params: []string{"format"}}
	keys := []string{"NewSet", "Set.Has", "Set.Add", "Set.AddRange", "Set.Len", "Set.Copy", "Set.Union", "Set.Intersects", "Set.Complement", "Set.Equal", "Set.String"}
	for _, k := range sortedKeys(u.CS.Funcs) {
		if u.CS.Funcs[k].Lemma {
			keys = append(keys, k) // lemma functions (verif-only Go code) are verified like the others
		}
	}
	return u, keys, nil
}

// loadRuntimeUnit: the parser runtime (template text) instantiated on the carrier grammar.
// loadRuntimeNoastUnit: the carrier grammar generated with -noast; the template functions that exist in a -noast
// parser (add, matchDot, reset, parse, translatePositions, Error) against tree/contracts_tmpl_noast_verif.go.
func loadRuntimeNoastUnit() (*Unit, []string, error) {
	gp, err := Generate("runtime-noast", verifDir+"/carriers/carrier.peg", []string{"-noast"})
	if err != nil {
		return nil, nil, err
	}
	u := gp.Unit
	u.NoSplit = map[string]bool{"inputOK": true}
	u.SkipSMT = false
	u.OpaquePreds = map[string]bool{}
	u.TrustedExt["slices.Sort"] = &ExtSpec{Key: "slices.Sort", Params: []string{"x"}, Contract: mkContract("slices.Sort",
		"requires soff(x) == 0",
		"ensures forall(i, j, imp(0 <= i && i <= j && j < len(x), x[i] <= x[j]))",
		"ensures forall(i, imp(0 <= i && i < len(x), 0 <= sortPerm(sbase(x), i) && sortPerm(sbase(x), i) < len(x) && x[sortPerm(sbase(x), i)] == old(x[i])))",
		"ensures forall(i, imp(0 <= i && i < len(x), 0 <= sortInv(sbase(x), i) && sortInv(sbase(x), i) < len(x) && x[i] == old(x[sortInv(sbase(x), i)])))",
		"modifies Elems.Int at b where b == sbase(x)")}
	u.TrustedExt["fmt.Sprintf"] = &ExtSpec{Key: "fmt.Sprintf", Params: []string{"format"}}
	u.TrustedExt["strconv.Quote"] = &ExtSpec{Key: "strconv.Quote", Params: []string{"s"}, Contract: mkContract("strconv.Quote",
		"ensures result == quoteOf(s)")}
	return u, runtimeNoastFuncs, nil
}

var runtimeNoastFuncs = []string{"Init.add", "Init.matchDot", "Init.reset", "Init.parse", "translatePositions", "parseError.Error"}

func loadRuntimeUnit() (*Unit, []string, error) {
	gp, err := Generate("runtime", verifDir+"/carriers/carrier.peg", nil)
	if err != nil {
		return nil, nil, err
	}
	u := gp.Unit
	u.NoSplit = map[string]bool{"inputOK": true}
	u.SkipSMT = false
	u.TrustedExt["slices.Sort"] = &ExtSpec{Key: "slices.Sort", Params: []string{"x"}, Contract: mkContract("slices.Sort",
		"requires soff(x) == 0",
		"ensures forall(i, j, imp(0 <= i && i <= j && j < len(x), x[i] <= x[j]))",
		"ensures forall(i, imp(0 <= i && i < len(x), 0 <= sortPerm(sbase(x), i) && sortPerm(sbase(x), i) < len(x) && x[sortPerm(sbase(x), i)] == old(x[i])))",
		"ensures forall(i, imp(0 <= i && i < len(x), 0 <= sortInv(sbase(x), i) && sortInv(sbase(x), i) < len(x) && x[i] == old(x[sortInv(sbase(x), i)])))",
		"modifies Elems.Int at b where b == sbase(x)")}
	u.TrustedExt["slices.Clone"] = &ExtSpec{Key: "slices.Clone", Params: []string{"x"}, Contract: mkContract("slices.Clone",
		"ensures soff(result) == 0 && len(result) == len(x) && fresh(sbase(result)) && sbase(result) > 0",
		"ensures forall(i, imp(0 <= i && i < len(x), at(elems(result), i) == at(elems(x), soff(x) + i)))",
		"modifies Elems.DT_token at b where false")}
	u.OpaquePreds = map[string]bool{}
	u.TrustedExt["fmt.Sprintf"] = &ExtSpec{Key: "fmt.Sprintf", Params: []string{"format"}}
	// strconv.Quote is a function of its argument (quoteOf is an uninterpreted spec function): nothing else is assumed
	u.TrustedExt["strconv.Quote"] = &ExtSpec{Key: "strconv.Quote", Params: []string{"s"}, Contract: mkContract("strconv.Quote",
		"ensures result == quoteOf(s)")}
	// output model of the syntax tree printers: every fmt.Fprint / fmt.Fprintf call appends one record (writer, format,
	// first operand, second operand) to the ghost output log outW/outFmt/outA/outB (length outN) and touches no program
	// state. Fprint has no format: its record has the empty format. (Assumed contracts; they are used by node.print only.)
	outLog := []string{
		"ensures outN == old(outN) + 1 && outW == put(old(outW), old(outN), w)",
		"modifies var outN, outW, outFmt, outA, outB"}
	u.TrustedExt["fmt.Fprint"] = &ExtSpec{Key: "fmt.Fprint", Params: []string{"w"}, Contract: mkContract("fmt.Fprint", append(outLog,
		"ensures outFmt == put(old(outFmt), old(outN), \"\") && outA == put(old(outA), old(outN), va0) && outB == put(old(outB), old(outN), \"\")")...)}
	u.TrustedExt["fmt.Fprintf"] = &ExtSpec{Key: "fmt.Fprintf", Params: []string{"w", "format"}, Contract: mkContract("fmt.Fprintf", append(outLog,
		"ensures outFmt == put(old(outFmt), old(outN), format) && outA == put(old(outA), old(outN), va0) && outB == put(old(outB), old(outN), va1)")...)}
	// (*bytes.Buffer).String: unconstrained result, nothing modified
	u.TrustedExt["(bytes.Buffer).String"] = &ExtSpec{Key: "(bytes.Buffer).String"}
	keys := []string{"tokens.Add", "tokens.Trim", "Init.add", "Init.matchDot", "translatePositions", "Init.reset", "Init.parse", "parseError.Error", "Init.memoize", "Init.memoizedResult", "tokens.Tokens", gp.structName() + ".Execute",
		"tokens.AST", "print.printFunc", "node.print", "node.Print", "node.PrettyPrint", "tokens.PrintSyntaxTree", "tokens.WriteSyntaxTree", "tokens.PrettyPrintSyntaxTree",
		gp.structName() + ".PrintSyntaxTree", gp.structName() + ".WriteSyntaxTree", gp.structName() + ".SprintSyntaxTree"}
	return u, keys, nil
}

// loadTreeUnit: the grammar analyses of package tree (tree/peg.go): list primitives, countRules, checkRecursion, warn,
// checkAlwaysSucceedsRecursion (property C15). Compile itself is outside the subset and is not part of the unit.
func loadTreeUnit() (*Unit, []string, error) {
	u, err := LoadUnit("tree", repoDir, []string{"./tree"}, "verif")
	if err != nil {
		return nil, nil, err
	}
	if err := u.CS.ParseFile(repoDir + "/tree/contracts_verif.go"); err != nil {
		return nil, nil, err
	}
	// ASSUMED: fmt.Errorf never returns nil and modifies nothing; the text of the error is not specified
	u.TrustedExt["fmt.Errorf"] = &ExtSpec{Key: "fmt.Errorf", Params: []string{"format"}, Contract: mkContract("fmt.Errorf", "ensures result != nil")}
	// ASSUMED: range over (*node).Iterator / Iterator2 walks front, next, ... (ListIter in expr.go). The model was written for
	// exactly this source text of the two methods; Front and Next, which they call, are verified in this unit.
	u.ListIters = map[string]*ListIter{
		"node.Iterator":  {Struct: "node", Front: "front", Next: "next"},
		"node.Iterator2": {Struct: "node", Front: "front", Next: "next", WithIndex: true},
	}
	want := map[string]string{
		"node.Iterator":  "{element:=n.Front()returnfunc(yieldfunc(*node)bool){forelement!=nil{if!yield(element){return}element=element.Next()}}}",
		"node.Iterator2": "{element:=n.Front()returnfunc(yieldfunc(int,*node)bool){i:=0forelement!=nil{if!yield(i,element){return}i++element=element.Next()}}}",
	}
	for k, w := range want {
		fi, ok := u.Funcs[k]
		if !ok {
			return nil, nil, fmt.Errorf("tree unit: %s not found", k)
		}
		got := exprString(u.Fset, fi.Body) // source text without white space
		if got != w {
			return nil, nil, fmt.Errorf("tree unit: the body of %s is not the one the range-over-func model was written for:\n got  %s\n want %s", k, got, w)
		}
	}
	// ASSUMED library contracts used by the tree builder (property C10); lower/upper/digits/numval/intMax: tree/contracts_verif.go
	//   strconv.ParseInt(s, base, bitSize): by its documentation, for a plain digit string: the value, or, when the value does
	//   not fit a signed integer of bitSize bits, the largest such integer and a non-nil error
	u.TrustedExt["strconv.ParseInt"] = &ExtSpec{Key: "strconv.ParseInt", Params: []string{"s", "base", "bitSize"}, Contract: mkContract("strconv.ParseInt",
		"requires 2 <= base && base <= 36 && (bitSize == 8 || bitSize == 16 || bitSize == 32 || bitSize == 64)",
		"ensures 0 - intMax(bitSize) - 1 <= result0 && result0 <= intMax(bitSize)",
		"ensures digits(s, base) ==> numval(s, base) >= 0",
		"ensures digits(s, base) && numval(s, base) <= intMax(bitSize) ==> result0 == numval(s, base) && result1 == nil",
		"ensures digits(s, base) && numval(s, base) > intMax(bitSize) ==> result0 == intMax(bitSize) && result1 != nil")}
	//   strings.ToLower / ToUpper: the Unicode mappings named lower / upper; on a single ASCII letter: the letter of the other
	//   case (code point +-32), or the letter itself
	u.TrustedExt["strings.ToLower"] = &ExtSpec{Key: "strings.ToLower", Params: []string{"s"}, Contract: mkContract("strings.ToLower",
		"ensures result == lower(s)",
		"ensures upperLetter(s) ==> result == strOfRune(runeAt(s, 0) + 32)",
		"ensures lowerLetter(s) ==> result == s")}
	u.TrustedExt["strings.ToUpper"] = &ExtSpec{Key: "strings.ToUpper", Params: []string{"s"}, Contract: mkContract("strings.ToUpper",
		"ensures result == upper(s)",
		"ensures lowerLetter(s) ==> result == strOfRune(runeAt(s, 0) - 32)",
		"ensures upperLetter(s) ==> result == s")}
	//   strconv.Quote(s): the Go-syntax double-quoted form of s, named quoted(s); it starts and ends with a quote character
	u.TrustedExt["strconv.Quote"] = &ExtSpec{Key: "strconv.Quote", Params: []string{"s"}, Contract: mkContract("strconv.Quote",
		"ensures result == quoted(s) && len(result) >= 2")}
	keys := []string{"Type.GetType", "node.String", "node.GetID", "node.Init", "node.Front", "node.Next", "node.Len", "node.PushFront", "node.PopFront", "node.PushBack",
		"Tree.warn", "Tree.checkRecursion", "Tree.countRules", "node.CheckAlwaysSucceeds", "node.checkAlwaysSucceedsRecursion", "verifLast"}
	keys = append(keys, builderKeys...)
	for _, k := range sortedKeys(u.CS.Funcs) {
		if u.CS.Funcs[k].Lemma {
			keys = append(keys, k)
		}
	}
	return u, keys, nil
}

// builderKeys: the tree builder called by the actions of peg.peg (property C10; contracts in tree/contracts_verif.go)
var builderKeys = []string{"Tree.AddRule", "Tree.AddExpression", "Tree.AddName", "Tree.AddDot", "Tree.AddCharacter", "Tree.AddDoubleCharacter",
	"Tree.AddHexaCharacter", "Tree.AddOctalCharacter", "Tree.AddPredicate", "Tree.AddStateChange", "Tree.AddNil", "Tree.AddAction", "Tree.AddPackage",
	"Tree.AddSpace", "Tree.AddComment", "Tree.AddImport", "Tree.AddImportAlias", "Tree.AddState", "Tree.addList", "Tree.AddAlternate", "Tree.AddSequence",
	"Tree.AddRange", "Tree.AddDoubleRange", "Tree.addFix", "Tree.AddPeekFor", "Tree.AddPeekNot", "Tree.AddQuery", "Tree.AddStar", "Tree.AddPlus",
	"Tree.AddPush", "Tree.AddPeg", "verifNegatedClass", "verifTrailingSlash", "escape", "node.Escaped", "New"}
