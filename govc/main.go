package main

import (
	"flag"
	"fmt"
	"os"
	"sort"
	"strings"
)

var repoDir = "/repo"
var verifDir = "/verif"

func main() {
	if len(os.Args) < 2 {
		fmt.Println("usage: govc <check|debug> ...")
		os.Exit(2)
	}
	os.Setenv("PATH", "/opt/veriftools/go1.26.8/bin:"+os.Getenv("PATH"))
	for _, kv := range [][2]string{{"GOFLAGS", "-mod=mod"}, {"GOPROXY", "off"}, {"GOSUMDB", "off"}, {"GOTOOLCHAIN", "local"}, {"CGO_ENABLED", "0"}} {
		os.Setenv(kv[0], kv[1])
	}
	if d := os.Getenv("GOVC_VERIF"); d != "" {
		verifDir = d
	}
	if d := os.Getenv("GOVC_REPO"); d != "" {
		repoDir = d
	}
	var err error
	scratchDir, err = os.MkdirTemp("/var/tmp", "govc-")
	if err != nil {
		fmt.Println(err)
		os.Exit(2)
	}
	code := 0
	func() {
		if os.Getenv("GOVC_KEEP") == "" {
			defer os.RemoveAll(scratchDir)
		} else {
			fmt.Println("scratch:", scratchDir)
		}
		switch os.Args[1] {
		case "debug":
			code = cmdDebug(os.Args[2:])
		case "check":
			code = cmdCheck(os.Args[2:])
		default:
			fmt.Println("unknown command")
			code = 2
		}
	}()
	os.Exit(code)
}

// debug <unit> [-f func] [-dump dir] : print every obligation and its verdict
func cmdDebug(args []string) int {
	fs := flag.NewFlagSet("debug", flag.ExitOnError)
	fn := fs.String("f", "", "comma separated function keys")
	dump := fs.String("dump", "", "directory to dump failing queries")
	budget := fs.Int("t", 10, "budget seconds")
	all := fs.Bool("all", false, "print discharged obligations too")
	optsFlag := fs.String("o", "", "peg options for a grammar unit")
	model := fs.Bool("model", false, "for every proof obligation that does not discharge, print a candidate countermodel")
	_ = fs.Parse(args[1:])
	r := NewRun("debug", "quick", 0)
	r.Budget = *budget
	if strings.HasPrefix(args[0], "schema:") {
		files, err := writeSchemas(scratchDir+"/schemas", strings.TrimPrefix(args[0], "schema:"), 0)
		if err != nil {
			fmt.Println(err)
			return 2
		}
		for _, sf := range files {
			gp, err := Generate(sf.Name, sf.Path, strings.Fields(*optsFlag))
			if err != nil {
				fmt.Println("generate:", sf.Name, trunc(err.Error(), 2000))
				continue
			}
			var only map[string]bool
			if *fn != "" {
				only = map[string]bool{}
				for _, k := range strings.Split(*fn, ",") {
					only[k] = true
				}
			}
			gp.verifyClosures(r, only)
		}
	} else if strings.HasSuffix(args[0], ".peg") {
		// debug <grammar.peg> [-o "-inline -switch"] [-f Rule,...]
		gp, err := Generate("dbg", args[0], strings.Fields(*optsFlag))
		if err != nil {
			fmt.Println("generate:", err)
			return 2
		}
		var only map[string]bool
		if *fn != "" {
			only = map[string]bool{}
			for _, k := range strings.Split(*fn, ",") {
				only[k] = true
			}
		}
		gp.verifyClosures(r, only)
	} else {
		u, keys, err := loadNamedUnit(args[0])
		if err != nil {
			fmt.Println("load:", err)
			return 2
		}
		if *fn != "" {
			keys = strings.Split(*fn, ",")
		}
		r.verifyFuncs(u, keys)
	}
	r.solveAll()
	for _, f := range r.Fns {
		fmt.Printf("FUNC %-30s verified=%v obligations=%d %s\n", f.Key, f.Verified, f.NObl, f.Reason)
	}
	sort.SliceStable(r.Obls, func(i, j int) bool { return r.Obls[i].Fn < r.Obls[j].Fn })
	bad := 0
	for _, ob := range r.Obls {
		ok := ob.Result.Verdict == VUnsat
		if ob.Canary {
			ok = ob.Result.Verdict != VUnsat
		}
		if ok && !*all {
			continue
		}
		if !ok {
			bad++
		}
		fmt.Printf("%-8s %-60s %s %.2fs %s\n      %s\n", ob.Result.Verdict, ob.Name, ob.Result.Backend, ob.Result.Seconds, ob.Pos, ob.Detail)
		if !ok && !ob.Canary && *model {
			fmt.Println("      " + strings.ReplaceAll(candidateModel(ob), "\n", "\n      "))
		}
		if (!ok || *all) && *dump != "" { // with -all every printed obligation is dumped
			_ = os.MkdirAll(*dump, 0o755)
			fmt.Println("      dumped:", dumpQuery(ob, *dump))
		}
	}
	if *all || *model {
		for _, a := range sortedKeys(r.Assume) {
			fmt.Println("ASSUMED", a)
		}
	}
	fmt.Printf("obligations=%d not-as-expected=%d\n", len(r.Obls), bad)
	return 0
}


func loadNamedUnit(name string) (*Unit, []string, error) {
	switch name {
	case "set":
		return loadSetUnit()
	case "runtime":
		return loadRuntimeUnit()
	case "main":
		return loadMainUnit()
	}
	return nil, nil, fmt.Errorf("unknown unit %s", name)
}

func loadSetUnit() (*Unit, []string, error) {
	u, err := LoadUnit("set", repoDir, []string{"./set"}, "verif")
	if err != nil {
		return nil, nil, err
	}
	if err := u.CS.ParseFile(repoDir + "/set/contracts_verif.go"); err != nil {
		return nil, nil, err
	}
	// assumed contract of fmt.Sprintf: no precondition, modifies nothing, unconstrained string result
	u.TrustedExt["fmt.Sprintf"] = &ExtSpec{Key: "fmt.Sprintf", Params: []string{"format"}}
	keys := []string{"NewSet", "Set.Has", "Set.Add", "Set.AddRange", "Set.Len", "Set.Copy", "Set.Union", "Set.Intersects", "Set.Complement", "Set.Equal", "Set.String"}
	for _, k := range sortedKeys(u.CS.Funcs) {
		if u.CS.Funcs[k].Lemma {
			keys = append(keys, k) // lemma functions (verif-only Go code) are verified like the others
		}
	}
	return u, keys, nil
}

// loadRuntimeUnit: the parser runtime (template text) instantiated on the carrier grammar.
func loadRuntimeUnit() (*Unit, []string, error) {
	gp, err := Generate("runtime", verifDir+"/carriers/carrier.peg", nil)
	if err != nil {
		return nil, nil, err
	}
	u := gp.Unit
	u.NoSplit = map[string]bool{"inputOK": true}
	u.SkipSMT = false
	u.TrustedExt["slices.Sort"] = &ExtSpec{Key: "slices.Sort", Params: []string{"x"}, Contract: mkContract("slices.Sort",
		"requires soff(x) == 0",
		"ensures forall(i, j, imp(0 <= i && i <= j && j < len(x), x[i] <= x[j]))",
		"ensures forall(i, imp(0 <= i && i < len(x), 0 <= sortPerm(sbase(x), i) && sortPerm(sbase(x), i) < len(x) && x[sortPerm(sbase(x), i)] == old(x[i])))",
		"ensures forall(i, imp(0 <= i && i < len(x), 0 <= sortInv(sbase(x), i) && sortInv(sbase(x), i) < len(x) && x[i] == old(x[sortInv(sbase(x), i)])))",
		"modifies Elems.Int at b where b == sbase(x)")}
	u.TrustedExt["slices.Clone"] = &ExtSpec{Key: "slices.Clone", Params: []string{"x"}, Contract: mkContract("slices.Clone",
		"ensures soff(result) == 0 && len(result) == len(x) && fresh(sbase(result)) && sbase(result) > 0",
		"ensures forall(i, imp(0 <= i && i < len(x), at(elems(result), i) == at(elems(x), soff(x) + i)))",
		"modifies Elems.DT_token at b where false")}
	u.OpaquePreds = map[string]bool{}
	u.TrustedExt["fmt.Sprintf"] = &ExtSpec{Key: "fmt.Sprintf", Params: []string{"format"}}
	u.TrustedExt["strconv.Quote"] = &ExtSpec{Key: "strconv.Quote", Params: []string{"s"}}
	keys := []string{"tokens.Add", "tokens.Trim", "Init.add", "Init.matchDot", "translatePositions", "Init.reset", "Init.parse", "parseError.Error", "Init.memoize", "Init.memoizedResult", "tokens.Tokens", gp.structName() + ".Execute"}
	return u, keys, nil
}
