package main

// Running many grammar texts through the front end and the generator of the working tree in few processes
// (witness/harness.go.txt). Only a pre-selection: whatever it flags is confirmed with the peg binary / treedump.

import (
	"bufio"
	"encoding/json"
	"fmt"
	"os"
	"os/exec"
	"path/filepath"
	"strconv"
	"strings"
	"sync"
	"time"
)

type harnessResult struct {
	I            int      `json:"i"`
	ParseError   string   `json:"parse_error"`
	Tree         []*PNode `json:"tree"`
	CompileError string   `json:"compile_error"`
	Panic        string   `json:"panic"`
	Crash        string   // the process died or hung on this text: what it printed last
}

var harnessOnce sync.Once
var harnessBin string
var harnessErr error

// buildHarness compiles the harness against the working tree (next to the tools of closures.go).
func buildHarness() (string, error) {
	harnessOnce.Do(func() {
		if _, err := buildTools(); err != nil {
			harnessErr = err
			return
		}
		dir := filepath.Join(scratchDir, "tools", "harness")
		_ = os.MkdirAll(dir, 0o755)
		src, err := witnessFiles.ReadFile("witness/harness.go.txt")
		if err != nil {
			harnessErr = err
			return
		}
		_ = os.WriteFile(filepath.Join(dir, "main.go"), src, 0o644)
		pp, err := os.ReadFile(filepath.Join(repoDir, "peg.peg.go"))
		if err != nil {
			harnessErr = err
			return
		}
		_ = os.WriteFile(filepath.Join(dir, "peg.peg.go"), pp, 0o644)
		_ = os.WriteFile(filepath.Join(dir, "go.mod"), []byte("module harness\n\ngo 1.26\n\nrequire github.com/pointlander/peg v0.0.0\n\nreplace github.com/pointlander/peg => "+repoDir+"\n"), 0o644)
		harnessBin = filepath.Join(scratchDir, "tools", "witness-harness")
		if out, err := runCmd(dir, "go", "build", "-o", harnessBin, "."); err != nil {
			harnessErr = fmt.Errorf("go build harness: %v\n%s", err, trunc(out, 600))
		}
	})
	return harnessBin, harnessErr
}

// runHarness runs the texts through `procs` harness processes; result i is nil when the deadline came first.
func runHarness(texts []string, deadline time.Time, procs int) ([]*harnessResult, error) {
	bin, err := buildHarness()
	if err != nil {
		return nil, err
	}
	results := make([]*harnessResult, len(texts))
	if len(texts) == 0 {
		return results, nil
	}
	if procs > len(texts) {
		procs = 1
	}
	dir := witnessDir(fmt.Sprintf("harness-%d", time.Now().UnixNano()))
	var wg sync.WaitGroup
	chunk := (len(texts) + procs - 1) / procs
	for c := 0; c < procs; c++ {
		lo, hi := c*chunk, min((c+1)*chunk, len(texts))
		if lo >= hi {
			continue
		}
		wg.Add(1)
		go func(c, lo, hi int) {
			defer wg.Done()
			file := filepath.Join(dir, fmt.Sprintf("texts-%d.json", c))
			data, _ := json.Marshal(texts[lo:hi])
			if os.WriteFile(file, data, 0o644) != nil {
				return
			}
			first := 0
			for first < hi-lo && time.Now().Before(deadline) {
				first = harnessProcess(bin, file, first, lo, results, deadline)
			}
		}(c, lo, hi)
	}
	wg.Wait()
	return results, nil
}

// harnessProcess runs one process from text `first` of the chunk and returns the index to continue with (after a crash:
// the text after the one that killed the process).
func harnessProcess(bin, file string, first, offset int, results []*harnessResult, deadline time.Time) int {
	cmd := exec.Command(bin, file, strconv.Itoa(first))
	cmd.Env = goEnv()
	stdout, err := cmd.StdoutPipe()
	if err != nil {
		return len(results)
	}
	var stderr strings.Builder
	cmd.Stderr = &stderr
	if cmd.Start() != nil {
		return len(results)
	}
	timer := time.AfterFunc(time.Until(deadline), func() { _ = cmd.Process.Kill() })
	defer timer.Stop()
	sc := bufio.NewScanner(stdout)
	sc.Buffer(make([]byte, 1<<20), 64<<20)
	begun, done, timedOut := -1, -1, false
	for sc.Scan() {
		line := sc.Text()
		switch {
		case strings.HasPrefix(line, "TIMEOUT "):
			timedOut = true
		case strings.HasPrefix(line, "BEGIN "):
			begun, _ = strconv.Atoi(line[6:])
		case strings.HasPrefix(line, "{"):
			var r harnessResult
			if json.Unmarshal([]byte(line), &r) == nil {
				done = r.I
				r.I += offset
				results[r.I] = &r
			}
		}
	}
	_ = cmd.Wait()
	if time.Now().After(deadline) {
		return len(results)
	}
	if begun < 0 && done < 0 {
		return len(results) // the process did not get to work at all
	}
	if begun > done {
		// the process ended inside text `begun`: fatal error (stack overflow), os.Exit in the code under test, or the time-out
		tail := stderr.String()
		if len(tail) > 1200 {
			tail = tail[:600] + " ... " + tail[len(tail)-600:]
		}
		what := "the process ended while working on this text: "
		if timedOut {
			what = "no result within 10 s (a loop that does not terminate?): "
		}
		results[begun+offset] = &harnessResult{I: begun + offset, Crash: what + tail}
		return begun + 1
	}
	return done + 1
}
