package main

// Grammars for the witness searches of unit "tree": an abstract syntax of .peg grammars written down independently of the
// front end under verification (from docs/peg-file-syntax.md and the wording of property C10), a printer that turns it
// into grammar text in every documented spelling (quotes, escapes, arrows, comments, white space, grouping), and the
// normal form in which an expected rule tree (the abstract syntax itself) and the tree built by the real front end
// (treedump JSON) are compared.

import (
	"fmt"
	"math/rand"
	"sort"
	"strconv"
	"strings"
)

// gchar: one character of a literal or class with the way it is spelled in the text.
// Sp: "" raw, "esc" named escape (\n ...), "oct" shortest octal, "oct3" three octal digits, "hex" \0x.., "HEX" \0X.. (upper case digits)
type gchar struct {
	R  rune
	Sp string
}

// gitem: a member of a class: one character, or the range Lo-Hi
type gitem struct {
	Lo      gchar
	Hi      gchar
	IsRange bool
}

// gx: an expression. K: name dot lit dlit class seq alt query star plus and not push action pred state nil
type gx struct {
	K     string
	S     string  // name; text of an action / predicate / state change
	Chars []gchar // lit (single quotes), dlit (double quotes: case-insensitive)
	Items []gitem // class
	Neg   bool    // [^...]
	Dbl   bool    // [[...]]: case-insensitive
	Kids  []*gx
}

type grule struct {
	Name string
	Body *gx
}

type gimport struct{ Alias, Path string }

type ggrammar struct {
	Comments    []string // header comments (text after the marker)
	Package     string
	Imports     []gimport
	MultiImport bool // import ( ... ) form
	Type, State string
	Rules       []grule
}

func gName(s string) *gx      { return &gx{K: "name", S: s} }
func gLit(s string) *gx       { return &gx{K: "lit", Chars: gChars(s)} }
func gDLit(s string) *gx      { return &gx{K: "dlit", Chars: gChars(s)} }
func gUn(k string, e *gx) *gx { return &gx{K: k, Kids: []*gx{e}} }
func gSeq(es ...*gx) *gx      { return &gx{K: "seq", Kids: es} }
func gAlt(es ...*gx) *gx      { return &gx{K: "alt", Kids: es} }
func gNil() *gx               { return &gx{K: "nil"} }
func gDot() *gx               { return &gx{K: "dot"} }
func gChars(s string) []gchar {
	var cs []gchar
	for _, r := range s {
		cs = append(cs, gchar{R: r})
	}
	return cs
}

// the documented single-character escapes (property C10: "letters, quotes, brackets, dash, backslash")
var gNamedEscape = map[rune]string{7: "a", 8: "b", 27: "e", 12: "f", 10: "n", 13: "r", 9: "t", 11: "v", '\'': "'", '"': "\"", '[': "[", ']': "]", '-': "-", '\\': "\\"}

func isOctDigit(r rune) bool { return r >= '0' && r <= '7' }
func isHexDigit(r rune) bool {
	return r >= '0' && r <= '9' || r >= 'a' && r <= 'f' || r >= 'A' && r <= 'F'
}
func isASCIILetter(r rune) bool { return r >= 'a' && r <= 'z' || r >= 'A' && r <= 'Z' }

// gprinter turns the abstract syntax into text. With variants it chooses spellings at random (seeded); without, it
// prints one canonical form. used collects the builder methods the documented derivation of the text calls.
type gprinter struct {
	rng      *rand.Rand
	variants bool
	used     map[string]bool
}

func newPrinter(seed int64, variants bool) *gprinter {
	return &gprinter{rng: rand.New(rand.NewSource(seed)), variants: variants, used: map[string]bool{}}
}

func (p *gprinter) pick(n int) int {
	if !p.variants {
		return 0
	}
	return p.rng.Intn(n)
}

// sp: optional white space / comment between two tokens; sp1: the same but never empty
func (p *gprinter) sp() string {
	switch p.pick(10) {
	case 0, 1, 2, 3:
		return " "
	case 4, 5:
		return ""
	case 6:
		return "\t"
	case 7:
		return "\n\t  "
	case 8:
		return " # a comment ' [ {\n "
	default:
		return " // another comment\r\n "
	}
}

func (p *gprinter) sp1() string {
	if s := p.sp(); s != "" {
		return s
	}
	return " "
}

// char spells one character. ctx: the characters that cannot appear raw; next: the character that follows in the text
// (0 at the end) so that a numeric escape is not continued by it.
func (p *gprinter) char(c gchar, ctx string, next rune) string {
	raw := func() (string, bool) {
		if c.R < 0x20 || c.R == 0x7f || strings.ContainsRune(ctx, c.R) || c.R == '\\' {
			return "", false
		}
		return string(c.R), true
	}
	sp := c.Sp
	for tries := 0; tries < 4; tries++ {
		switch sp {
		case "":
			if s, ok := raw(); ok {
				p.used["Tree.AddCharacter"] = true
				return s
			}
			sp = "esc"
		case "esc":
			if n, ok := gNamedEscape[c.R]; ok {
				p.used["Tree.AddCharacter"] = true
				return "\\" + n
			}
			sp = "oct3"
		case "oct", "oct3":
			if c.R > 0o377 {
				sp = "hex"
				continue
			}
			d := strconv.FormatInt(int64(c.R), 8)
			if sp == "oct3" || isOctDigit(next) || (d == "0" && (next == 'x' || next == 'X')) {
				d = fmt.Sprintf("%03o", c.R)
			}
			p.used["Tree.AddOctalCharacter"] = true
			return "\\" + d
		case "hex", "HEX":
			if isHexDigit(next) {
				if c.R <= 0o377 {
					sp = "oct3"
				} else {
					sp = ""
				}
				continue
			}
			p.used["Tree.AddHexaCharacter"] = true
			if sp == "HEX" {
				return "\\0X" + strings.ToUpper(strconv.FormatInt(int64(c.R), 16))
			}
			return "\\0x" + strconv.FormatInt(int64(c.R), 16)
		}
	}
	p.used["Tree.AddCharacter"] = true
	return string(c.R)
}

// nextRune: the first character of the spelling that follows (only raw characters can continue a numeric escape)
func nextRaw(cs []gchar, i int) rune {
	if i+1 < len(cs) && cs[i+1].Sp == "" {
		return cs[i+1].R
	}
	return 0
}

// precedence levels: alternation 0 < sequence 1 < prefix 2 < suffix 3 < primary 4
func (p *gprinter) expr(e *gx, level int) string {
	paren := func(s string, own int) string {
		if own < level || (p.variants && p.rng.Intn(12) == 0) {
			p.used["(grouping)"] = true
			return "(" + p.sp() + s + p.sp() + ")"
		}
		return s
	}
	switch e.K {
	case "name":
		p.used["Tree.AddName"] = true
		return e.S
	case "dot":
		p.used["Tree.AddDot"] = true
		return "."
	case "lit", "dlit":
		q, ctx := "'", "'"
		if e.K == "dlit" {
			q, ctx = "\"", "\""
		}
		var sb strings.Builder
		sb.WriteString(q)
		for i, c := range e.Chars {
			if e.K == "dlit" && isASCIILetter(c.R) && c.Sp == "" {
				p.used["Tree.AddDoubleCharacter"], p.used["Tree.AddAlternate"], p.used["Tree.addList"] = true, true, true
				sb.WriteRune(c.R)
				continue
			}
			sb.WriteString(p.char(c, ctx, nextRaw(e.Chars, i)))
		}
		sb.WriteString(q)
		if len(e.Chars) > 1 {
			p.used["Tree.AddSequence"], p.used["Tree.addList"] = true, true
		}
		return sb.String()
	case "class":
		open, close := "[", "]"
		if e.Dbl {
			open, close = "[[", "]]"
		}
		var sb strings.Builder
		sb.WriteString(open)
		if e.Neg {
			sb.WriteString("^")
			p.used["Tree.AddPeekNot"], p.used["Tree.AddDot"], p.used["Tree.AddSequence"], p.used["verifNegatedClass"] = true, true, true, true
			p.used["Tree.addFix"], p.used["Tree.addList"] = true, true
		}
		const ctx = "[]-^"
		one := func(c gchar, next rune) string {
			if e.Dbl && isASCIILetter(c.R) && c.Sp == "" {
				p.used["Tree.AddDoubleCharacter"], p.used["Tree.AddAlternate"], p.used["Tree.addList"] = true, true, true
				return string(c.R)
			}
			return p.char(c, ctx, next)
		}
		for i, it := range e.Items {
			next := rune(0)
			if i+1 < len(e.Items) && e.Items[i+1].Lo.Sp == "" {
				next = e.Items[i+1].Lo.R
			}
			if it.IsRange {
				// the ends of a range are plain characters (Char '-' Char) also in a case-insensitive class
				sb.WriteString(p.char(it.Lo, ctx, '-') + "-" + p.char(it.Hi, ctx, next))
				if e.Dbl {
					p.used["Tree.AddDoubleRange"], p.used["Tree.AddAlternate"] = true, true
				} else {
					p.used["Tree.AddRange"] = true
				}
				p.used["Tree.addList"] = true
			} else {
				sb.WriteString(one(it.Lo, next))
			}
		}
		if len(e.Items) > 1 {
			p.used["Tree.AddAlternate"], p.used["Tree.addList"] = true, true
		}
		sb.WriteString(close)
		return sb.String()
	case "seq":
		var parts []string
		for _, k := range e.Kids {
			parts = append(parts, p.expr(k, 2))
		}
		p.used["Tree.AddSequence"], p.used["Tree.addList"] = true, true
		s := parts[0]
		for _, x := range parts[1:] {
			s += p.sp1() + x
		}
		return paren(s, 1)
	case "alt":
		p.used["Tree.AddAlternate"], p.used["Tree.addList"] = true, true
		s := ""
		for i, k := range e.Kids {
			if k.K == "nil" && i == len(e.Kids)-1 && i > 0 {
				// an empty last alternative is written as a trailing slash
				s += p.sp() + "/"
				p.used["Tree.AddNil"], p.used["verifTrailingSlash"] = true, true
				continue
			}
			if i > 0 {
				s += p.sp() + "/" + p.sp()
			}
			s += p.expr(k, 1)
		}
		return paren(s, 0)
	case "query", "star", "plus":
		op := map[string]string{"query": "?", "star": "*", "plus": "+"}[e.K]
		p.used[map[string]string{"query": "Tree.AddQuery", "star": "Tree.AddStar", "plus": "Tree.AddPlus"}[e.K]], p.used["Tree.addFix"] = true, true
		return paren(p.expr(e.Kids[0], 4)+p.sp()+op, 3)
	case "and", "not":
		op := map[string]string{"and": "&", "not": "!"}[e.K]
		p.used[map[string]string{"and": "Tree.AddPeekFor", "not": "Tree.AddPeekNot"}[e.K]], p.used["Tree.addFix"] = true, true
		kid := p.expr(e.Kids[0], 3)
		if strings.HasPrefix(kid, "{") {
			kid = "(" + kid + ")" // & followed by { would be a predicate
		}
		return paren(op+p.sp()+kid, 2)
	case "push":
		p.used["Tree.AddPush"], p.used["Tree.addFix"] = true, true
		return "<" + p.sp() + p.expr(e.Kids[0], 0) + p.sp() + ">"
	case "action":
		p.used["Tree.AddAction"] = true
		return "{" + e.S + "}"
	case "pred":
		p.used["Tree.AddPredicate"] = true
		return paren("&"+p.sp()+"{"+e.S+"}", 2)
	case "state":
		p.used["Tree.AddStateChange"] = true
		return paren("!"+p.sp()+"{"+e.S+"}", 2)
	case "nil":
		p.used["Tree.AddNil"] = true
		if level == 0 {
			return ""
		}
		return "(" + p.sp() + ")"
	}
	return "?" + e.K
}

// rule prints one definition (without a trailing newline)
func (p *gprinter) rule(r grule) string {
	arrow := "<-"
	if p.pick(3) == 2 {
		arrow = "←"
	}
	p.used["Tree.AddRule"], p.used["Tree.AddExpression"] = true, true
	return r.Name + p.sp() + arrow + p.sp() + p.expr(r.Body, 0)
}

func (p *gprinter) header(g *ggrammar) string {
	var sb strings.Builder
	for i, c := range g.Comments {
		marker := "#"
		if i%2 == 1 {
			marker = "//"
		}
		sb.WriteString(marker + c + "\n")
		p.used["Tree.AddComment"] = true
	}
	sb.WriteString("package " + g.Package + "\n\n")
	p.used["Tree.AddPackage"], p.used["Tree.AddPeg"], p.used["Tree.AddState"], p.used["New"] = true, true, true, true
	imp := func(im gimport) string {
		p.used["Tree.AddImport"] = true
		if im.Alias != "" {
			p.used["Tree.AddImportAlias"] = true
			return im.Alias + " \"" + im.Path + "\""
		}
		return "\"" + im.Path + "\""
	}
	if g.MultiImport && len(g.Imports) > 0 {
		sb.WriteString("import (\n")
		for _, im := range g.Imports {
			sb.WriteString("\t" + imp(im) + "\n")
		}
		sb.WriteString(")\n\n")
	} else {
		for _, im := range g.Imports {
			sb.WriteString("import " + imp(im) + "\n")
		}
	}
	sb.WriteString("type " + g.Type + " Peg {" + g.State + "}\n\n")
	return sb.String()
}

// print: the text of the grammar and, per rule, the text of its definition
func (p *gprinter) print(g *ggrammar) (string, []string) {
	text := p.header(g)
	var rules []string
	for _, r := range g.Rules {
		rt := p.rule(r)
		rules = append(rules, rt)
		text += rt + "\n"
		if p.pick(4) == 3 {
			text += "# between rules\n"
		}
	}
	return text, rules
}

// ---------------------------------------------------------------------------------------------
// normal form of rule trees

// ntree: K = Name Dot Set Seq Alt Nil Action Predicate StateChange PeekFor PeekNot Query Star Plus Push (or a node type
// that should not occur). Set: sorted disjoint closed intervals lo,hi,lo,hi...
type ntree struct {
	K    string
	S    string
	Set  []rune
	Kids []*ntree
}

func (n *ntree) String() string {
	switch n.K {
	case "Set":
		var parts []string
		for i := 0; i+1 < len(n.Set); i += 2 {
			if n.Set[i] == n.Set[i+1] {
				parts = append(parts, fmt.Sprintf("%U", n.Set[i]))
			} else {
				parts = append(parts, fmt.Sprintf("%U-%U", n.Set[i], n.Set[i+1]))
			}
		}
		return "{" + strings.Join(parts, ",") + "}"
	case "Name", "Action", "Predicate", "StateChange":
		return n.K + "(" + strconv.Quote(n.S) + ")"
	case "Dot", "Nil":
		return n.K
	}
	var parts []string
	for _, k := range n.Kids {
		parts = append(parts, k.String())
	}
	s := n.K
	if n.S != "" {
		s += "<" + n.S + ">"
	}
	return s + "(" + strings.Join(parts, ", ") + ")"
}

func setOf(pairs ...rune) *ntree { return &ntree{K: "Set", Set: mergeIntervals(pairs)} }

func mergeIntervals(p []rune) []rune {
	type iv struct{ lo, hi rune }
	var ivs []iv
	for i := 0; i+1 < len(p); i += 2 {
		lo, hi := p[i], p[i+1]
		if lo > hi {
			// an empty range matches nothing; keep it visible
			ivs = append(ivs, iv{lo, hi})
			continue
		}
		ivs = append(ivs, iv{lo, hi})
	}
	sort.Slice(ivs, func(i, j int) bool { return ivs[i].lo < ivs[j].lo })
	var out []rune
	for _, v := range ivs {
		if n := len(out); n >= 2 && v.lo <= v.hi && out[n-2] <= out[n-1] && v.lo <= out[n-1]+1 {
			if v.hi > out[n-1] {
				out[n-1] = v.hi
			}
			continue
		}
		out = append(out, v.lo, v.hi)
	}
	return out
}

// normList flattens nested lists of the same kind (sequence and ordered choice are associative); in a choice, neighbouring
// one-character alternatives are merged into one set (each consumes exactly one character, their order cannot matter);
// a list of one element is the element.
func normList(kind string, kids []*ntree) *ntree {
	var flat []*ntree
	for _, k := range kids {
		if k.K == kind {
			flat = append(flat, k.Kids...)
		} else {
			flat = append(flat, k)
		}
	}
	if kind == "Alt" {
		var merged []*ntree
		for _, k := range flat {
			if n := len(merged); k.K == "Set" && n > 0 && merged[n-1].K == "Set" {
				merged[n-1] = setOf(append(append([]rune{}, merged[n-1].Set...), k.Set...)...)
				continue
			}
			merged = append(merged, k)
		}
		flat = merged
	}
	if len(flat) == 1 {
		return flat[0]
	}
	return &ntree{K: kind, Kids: flat}
}

func lowerUpper(r rune) (rune, rune) {
	if r >= 'A' && r <= 'Z' {
		return r + 32, r
	}
	if r >= 'a' && r <= 'z' {
		return r, r - 32
	}
	return r, r
}

// gxNorm: the meaning of an expression as the documentation states it
func gxNorm(e *gx) *ntree {
	switch e.K {
	case "name":
		return &ntree{K: "Name", S: e.S}
	case "dot":
		return &ntree{K: "Dot"}
	case "lit", "dlit":
		var kids []*ntree
		for _, c := range e.Chars {
			if e.K == "dlit" && isASCIILetter(c.R) && c.Sp == "" {
				l, u := lowerUpper(c.R)
				kids = append(kids, setOf(l, l, u, u))
			} else {
				kids = append(kids, setOf(c.R, c.R))
			}
		}
		return normList("Seq", kids)
	case "class":
		var pairs []rune
		for _, it := range e.Items {
			lo, hi := it.Lo.R, it.Lo.R
			if it.IsRange {
				hi = it.Hi.R
			}
			pairs = append(pairs, lo, hi)
			if e.Dbl && (it.IsRange || it.Lo.Sp == "") {
				// case-insensitive: the range in both cases (the generator only makes ranges whose ends are letters of the same case, or digits)
				ll, lu := lowerUpper(lo)
				hl, hu := lowerUpper(hi)
				pairs = append(pairs, ll, hl, lu, hu)
			}
		}
		set := setOf(pairs...)
		if e.Neg {
			return normList("Seq", []*ntree{{K: "PeekNot", Kids: []*ntree{set}}, {K: "Dot"}})
		}
		return set
	case "seq", "alt":
		var kids []*ntree
		for _, k := range e.Kids {
			kids = append(kids, gxNorm(k))
		}
		return normList(map[string]string{"seq": "Seq", "alt": "Alt"}[e.K], kids)
	case "query", "star", "plus", "and", "not", "push":
		k := map[string]string{"query": "Query", "star": "Star", "plus": "Plus", "and": "PeekFor", "not": "PeekNot", "push": "Push"}[e.K]
		return &ntree{K: k, Kids: []*ntree{gxNorm(e.Kids[0])}}
	case "action":
		return &ntree{K: "Action", S: e.S}
	case "pred":
		return &ntree{K: "Predicate", S: e.S}
	case "state":
		return &ntree{K: "StateChange", S: e.S}
	case "nil":
		return &ntree{K: "Nil"}
	}
	return &ntree{K: "?" + e.K}
}

// pnodeNorm: the tree the real front end built, in the same normal form
func pnodeNorm(n *PNode) *ntree {
	kids := func() []*ntree {
		var out []*ntree
		for _, k := range n.Kids {
			out = append(out, pnodeNorm(k))
		}
		return out
	}
	switch n.TypeName {
	case "Name":
		return &ntree{K: "Name", S: n.Str}
	case "Dot":
		return &ntree{K: "Dot"}
	case "Nil":
		return &ntree{K: "Nil"}
	case "Character":
		rs := []rune(n.Str)
		if len(rs) == 1 {
			return setOf(rs[0], rs[0])
		}
		return &ntree{K: "Character", S: strconv.QuoteToASCII(n.Str)}
	case "Range":
		if len(n.Kids) == 2 && n.Kids[0].TypeName == "Character" && n.Kids[1].TypeName == "Character" {
			a, b := []rune(n.Kids[0].Str), []rune(n.Kids[1].Str)
			if len(a) == 1 && len(b) == 1 {
				return setOf(a[0], b[0])
			}
		}
		return &ntree{K: "Range", Kids: kids()}
	case "Sequence":
		return normList("Seq", kids())
	case "Alternate":
		return normList("Alt", kids())
	case "Action", "Predicate", "StateChange":
		return &ntree{K: n.TypeName, S: n.Str}
	case "PeekFor", "PeekNot", "Query", "Star", "Plus", "Push":
		return &ntree{K: n.TypeName, Kids: kids()}
	}
	return &ntree{K: n.TypeName, S: n.Str, Kids: kids()}
}

// expectedLines / actualLines: a grammar as a list of comparable lines: header items in order, then one line per rule
func expectedLines(g *ggrammar) []string {
	var out []string
	for _, c := range g.Comments {
		out = append(out, "comment "+strconv.Quote(c))
	}
	out = append(out, "package "+g.Package)
	for _, im := range g.Imports {
		if im.Alias != "" {
			out = append(out, "import alias "+im.Alias)
		}
		out = append(out, "import "+strconv.Quote(im.Path))
	}
	out = append(out, "type "+g.Type+" state "+strconv.Quote(g.State))
	for i, r := range g.Rules {
		out = append(out, fmt.Sprintf("rule %d %s = %s", i, r.Name, gxNorm(r.Body)))
	}
	return out
}

func actualLines(top []*PNode) []string {
	var out []string
	for _, n := range top {
		switch n.TypeName {
		case "Space":
		case "Comment":
			out = append(out, "comment "+strconv.Quote(n.Str))
		case "Package":
			out = append(out, "package "+n.Str)
		case "Import":
			if strings.HasPrefix(n.Str, "=") {
				out = append(out, "import alias "+n.Str[1:])
			} else {
				out = append(out, "import "+strconv.Quote(n.Str))
			}
		case "Peg":
			st := "<no state>"
			if len(n.Kids) == 1 && n.Kids[0].TypeName == "State" {
				st = strconv.Quote(n.Kids[0].Str)
			}
			out = append(out, "type "+n.Str+" state "+st)
		case "Rule":
			body := "<no body>"
			if len(n.Kids) == 1 {
				body = pnodeNorm(n.Kids[0]).String()
			} else if len(n.Kids) > 1 {
				body = fmt.Sprintf("<%d bodies>", len(n.Kids))
			}
			out = append(out, fmt.Sprintf("rule %d %s = %s", n.ID, n.Str, body))
		default:
			out = append(out, "unexpected top-level node "+n.TypeName+" "+strconv.Quote(n.Str))
		}
	}
	return out
}

// firstDifference of two line lists ("" = equal)
func firstDifference(want, got []string) (string, string) {
	for i := 0; i < len(want) || i < len(got); i++ {
		w, g := "<nothing>", "<nothing>"
		if i < len(want) {
			w = want[i]
		}
		if i < len(got) {
			g = got[i]
		}
		if w != g {
			return w, g
		}
	}
	return "", ""
}
