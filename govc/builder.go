package main

// Property C10 (front end). Three parts, run by runC10:
//
//  1. the tree builder (tree/peg.go: Add*, addList, addFix) as a stack machine: Go functions verified against
//     tree/contracts_verif.go (unit "tree", builderKeys in main.go);
//  2. the escape table of peg.peg: every alternative of the rule Escape passes to AddCharacter the documented code point
//     (checked on the text of peg.peg: literal matched + Go string literal in the action);
//  3. the stack discipline of peg.peg: with the effects (operands needed, operands pushed) that the contracts of part 1
//     state for the builder methods, every derivation of a rule X changes the operand stack by exactly d_X and never
//     reaches below the level at which X was entered;
//  4. denotation (denote.go, denotestatic.go): every construct of the documented syntax reaches the builder calls that give
//     it its documented meaning.
//
// Parts 2 and 3 are decided by this file itself (constant evaluation / a small abstract interpretation of the rule tree);
// each check is recorded as an obligation of kind "lemma" with backend "text-analysis".

import (
	"encoding/json"
	"fmt"
	"os"
	"path/filepath"
	"regexp"
	"sort"
	"strconv"
	"strings"
)

func textObligation(name, detail string, ok bool, witness string) *Obligation {
	ob := &Obligation{Name: "pegpeg#" + name, Kind: "lemma", Unit: "pegpeg", Fn: "peg.peg", Detail: detail, Goal: "text", PC: "true", Pos: "peg.peg"}
	if ok {
		ob.Result = SolverResult{Verdict: VUnsat, Backend: "text-analysis"}
	} else {
		ob.Result = SolverResult{Verdict: VSat, Backend: "text-analysis", Output: witness}
		ob.Detail += " -- " + witness
	}
	return ob
}

func runC10(r *Run) error {
	u, _, err := loadTreeUnit()
	if err != nil {
		return err
	}
	r.Units = append(r.Units, u)
	r.verifyFuncs(u, builderKeys)
	r.Obls = append(r.Obls, escapeTable(filepath.Join(repoDir, "peg.peg"))...)
	r.Obls = append(r.Obls, stackDiscipline(u)...)
	r.Obls = append(r.Obls, denotation(u)...)
	r.Assume["peg.peg (denote.*): the interpreter of denote.go implements the PEG semantics of DESIGN.md section 4 and hands every action the text of the last completed capture (properties C01/C04 for peg.peg.go; replayed against the real front end by denote.model)"] = true
	r.Assume["peg.peg (denote.*): the meaning of a construct is the tree written by denote() from docs/peg-file-syntax.md and the property text; sequence and ordered choice are compared modulo associativity; lower/upper are strings.ToLower/ToUpper (B-A1)"] = true
	r.Assume["peg.peg: actions inside a lookahead (& !) are never executed (the generated parser discards the tokens of a lookahead)"] = true
	r.Assume["peg.peg: the rule tree of peg.peg is obtained with the front end under verification itself (treedump)"] = true
	return nil
}

// ---------------------------------------------------------------------------------------------
// part 2: the escape table

// documentedEscapes: the backslash escapes of the .peg syntax and the code points they denote.
var documentedEscapes = map[string]rune{"a": 7, "b": 8, "e": 27, "f": 12, "n": 10, "r": 13, "t": 9, "v": 11, "'": 39, "\"": 34, "[": 91, "]": 93, "-": 45, "\\": 92}

// pegItem: one item of an alternative of a rule, as scanned from the text of a .peg file.
type pegItem struct {
	Kind string // "lit" (quoted literal, decoded), "class" ([...] text), "action" ({...} text), "begin", "end", "other"
	Text string
}

// scanRuleAlternatives finds `name <- ...` in the text of a .peg file and returns its top-level alternatives.
// It understands exactly what the rule Escape uses: quoted literals (with \\ as the only escape inside), classes,
// < >, actions with nested braces and Go string literals, # comments. Anything else is returned as "other".
func scanRuleAlternatives(text, name string) ([][]pegItem, error) {
	re := regexp.MustCompile(`(?m)^` + regexp.QuoteMeta(name) + `[ \t]*<-`)
	loc := re.FindStringIndex(text)
	if loc == nil {
		return nil, fmt.Errorf("rule %s not found", name)
	}
	body := text[loc[1]:]
	// the rule ends where the next definition starts
	if next := regexp.MustCompile(`(?m)^[A-Za-z_][A-Za-z_0-9]*[ \t]*<-`).FindStringIndex(body); next != nil {
		body = body[:next[0]]
	}
	var alts [][]pegItem
	var cur []pegItem
	i := 0
	for i < len(body) {
		c := body[i]
		switch {
		case c == ' ' || c == '\t' || c == '\n' || c == '\r':
			i++
		case c == '#':
			for i < len(body) && body[i] != '\n' {
				i++
			}
		case c == '/':
			alts = append(alts, cur)
			cur = nil
			i++
		case c == '\'' || c == '"':
			j := i + 1
			var sb strings.Builder
			for j < len(body) && body[j] != c {
				if body[j] == '\\' {
					if j+1 < len(body) && body[j+1] == '\\' {
						sb.WriteByte('\\')
						j += 2
						continue
					}
					return nil, fmt.Errorf("rule %s: escape %q inside a literal is not understood by the scanner", name, body[j:min(j+2, len(body))])
				}
				sb.WriteByte(body[j])
				j++
			}
			if j >= len(body) {
				return nil, fmt.Errorf("rule %s: unterminated literal", name)
			}
			kind := "lit"
			if c == '"' {
				kind = "ilit" // case-insensitive literal
			}
			cur = append(cur, pegItem{kind, sb.String()})
			i = j + 1
		case c == '[':
			j := i + 1
			for j < len(body) && body[j] != ']' {
				if body[j] == '\\' {
					j++
				}
				j++
			}
			if j >= len(body) {
				return nil, fmt.Errorf("rule %s: unterminated class", name)
			}
			cur = append(cur, pegItem{"class", body[i : j+1]})
			i = j + 1
		case c == '<':
			cur = append(cur, pegItem{"begin", "<"})
			i++
		case c == '>':
			cur = append(cur, pegItem{"end", ">"})
			i++
		case c == '{':
			depth, j := 0, i
			for j < len(body) {
				switch body[j] {
				case '{':
					depth++
				case '}':
					depth--
				case '"':
					// Go string literal inside the action
					j++
					for j < len(body) && body[j] != '"' {
						if body[j] == '\\' {
							j++
						}
						j++
					}
				}
				j++
				if depth == 0 {
					break
				}
			}
			if depth != 0 {
				return nil, fmt.Errorf("rule %s: unbalanced action", name)
			}
			cur = append(cur, pegItem{"action", strings.TrimSpace(body[i+1 : j-1])})
			i = j
		default:
			j := i
			for j < len(body) && !strings.ContainsRune(" \t\r\n/'\"[<>{#", rune(body[j])) {
				j++
			}
			if j == i {
				j++
			}
			cur = append(cur, pegItem{"other", body[i:j]})
			i = j
		}
	}
	alts = append(alts, cur)
	return alts, nil
}

var reAddCall = regexp.MustCompile(`^p\.(Add[A-Za-z]*)\((.*)\)$`)

// escapeTable: one obligation per alternative of Escape, one for the set of escapes, one for the order of the numeric forms.
func escapeTable(pegFile string) []*Obligation {
	var obs []*Obligation
	data, err := os.ReadFile(pegFile)
	if err != nil {
		return []*Obligation{textObligation("escape.read", "peg.peg can be read", false, err.Error())}
	}
	alts, err := scanRuleAlternatives(string(data), "Escape")
	if err != nil {
		return []*Obligation{textObligation("escape.scan", "the rule Escape of peg.peg is understood by the scanner", false, err.Error())}
	}
	seen := map[string]bool{}
	hexAt, oct3At, oct2At := -1, -1, -1
	for k, alt := range alts {
		var lits, shape []string
		action := ""
		for _, it := range alt {
			shape = append(shape, it.Kind)
			switch it.Kind {
			case "lit", "ilit":
				lits = append(lits, it.Text)
			case "action":
				action = it.Text
			}
		}
		sh := strings.Join(shape, " ")
		m := reAddCall.FindStringSubmatch(action)
		name := fmt.Sprintf("escape[%d]", k)
		switch {
		case m == nil:
			obs = append(obs, textObligation(name, "alternative of Escape ends in one call of a builder method", false, fmt.Sprintf("items %q action %q", sh, action)))
		case m[1] == "AddCharacter" && (sh == "lit action" || sh == "ilit action"):
			// `\X` { p.AddCharacter("...") }
			matched := lits[0]
			if len(matched) < 2 || matched[0] != '\\' {
				obs = append(obs, textObligation(name, "escape alternative matches a backslash followed by the escape character", false, fmt.Sprintf("matches %q", matched)))
				continue
			}
			x := matched[1:]
			want, documented := documentedEscapes[x]
			got, uerr := strconv.Unquote(m[2])
			detail := fmt.Sprintf("Escape: \\%s denotes U+%04X: the action passes the Go literal %s to AddCharacter", x, want, m[2])
			switch {
			case !documented:
				obs = append(obs, textObligation(name, "Escape: \\"+x+" is a documented escape", false, "not in the documented table"))
			case uerr != nil:
				obs = append(obs, textObligation(name, detail, false, "argument is not a Go string literal: "+uerr.Error()))
			default:
				rs := []rune(got)
				ok := len(rs) == 1 && rs[0] == want && len(got) == len(string(want))
				obs = append(obs, textObligation(name, detail, ok, fmt.Sprintf("the literal evaluates to %+q", got)))
			}
			if seen[x] {
				obs = append(obs, textObligation(name+".dup", "Escape: \\"+x+" has one alternative", false, "second alternative for the same escape"))
			}
			seen[x] = true
		case m[1] == "AddHexaCharacter":
			// shape: '\\' "0x" < [0-9a-fA-F]+ > { ... }: the class is followed by "+" (scanned as "other")
			ok := len(alt) == 7 && alt[0].Kind == "lit" && alt[0].Text == "\\" && alt[1].Kind == "ilit" && alt[1].Text == "0x" && alt[2].Kind == "begin" &&
				alt[3].Kind == "class" && alt[3].Text == "[0-9a-fA-F]" && alt[4].Kind == "other" && alt[4].Text == "+" && alt[5].Kind == "end" && m[2] == "text"
			obs = append(obs, textObligation(name, "Escape: \\0x<hex digits> passes exactly the hex digits to AddHexaCharacter (so digits(text, 16) holds)", ok, fmt.Sprintf("items %q action %q", sh, action)))
			hexAt = k
		case m[1] == "AddOctalCharacter":
			var classes []string
			okShape := len(alt) >= 5 && alt[0].Kind == "lit" && alt[0].Text == "\\" && alt[1].Kind == "begin" && alt[len(alt)-2].Kind == "end" && m[2] == "text"
			rest := ""
			for _, it := range alt[2:max(2, len(alt)-2)] {
				rest += it.Text
				if it.Kind == "class" {
					classes = append(classes, it.Text)
				}
			}
			switch rest {
			case "[0-3][0-7][0-7]":
				oct3At = k
				obs = append(obs, textObligation(name, "Escape: \\ooo (three octal digits, the first 0-3) passes exactly the digits to AddOctalCharacter (digits(text, 8), value <= 0377)", okShape, fmt.Sprintf("items %q", sh)))
			case "[0-7][0-7]?":
				oct2At = k
				obs = append(obs, textObligation(name, "Escape: \\o and \\oo (one or two octal digits) pass exactly the digits to AddOctalCharacter (digits(text, 8), value <= 077)", okShape, fmt.Sprintf("items %q", sh)))
			default:
				obs = append(obs, textObligation(name, "Escape: octal alternative has one of the documented digit patterns", false, fmt.Sprintf("pattern %q", rest)))
			}
		default:
			obs = append(obs, textObligation(name, "alternative of Escape is one of the documented forms", false, fmt.Sprintf("items %q action %q", sh, action)))
		}
	}
	var missing, have []string
	for x := range documentedEscapes {
		if !seen[x] {
			missing = append(missing, x)
		}
	}
	for x := range seen {
		have = append(have, x)
	}
	sort.Strings(missing)
	sort.Strings(have)
	obs = append(obs, textObligation("escape.set", fmt.Sprintf("the single-character escapes of peg.peg are exactly the %d documented ones (a b e f n r t v ' \" [ ] - \\)", len(documentedEscapes)),
		len(missing) == 0 && len(have) == len(documentedEscapes), fmt.Sprintf("missing %q, present %q", missing, have)))
	obs = append(obs, textObligation("escape.numeric", "peg.peg has the forms \\0x<hex>, \\ooo and \\o[o], tried in this order (ordered choice: \\0x41 is not read as \\0 followed by x41, \\101 not as \\10 followed by 1)",
		hexAt >= 0 && oct3At > hexAt && oct2At > oct3At, fmt.Sprintf("positions hex=%d octal3=%d octal2=%d", hexAt, oct3At, oct2At)))
	return obs
}

// ---------------------------------------------------------------------------------------------
// part 3: stack discipline of peg.peg

// operandRules: the syntactic categories of peg.peg that denote one expression: a derivation of such a rule leaves exactly
// one operand (the tree of what it has matched) on the stack; every other rule leaves the operand stack as it found it.
var operandRules = map[string]bool{"Expression": true, "Sequence": true, "Prefix": true, "Suffix": true, "Primary": true, "Literal": true, "Class": true,
	"Ranges": true, "DoubleRanges": true, "Range": true, "DoubleRange": true, "Char": true, "DoubleChar": true, "Escape": true}

type builderEffect struct{ Need, Delta, Finished int }

var reNeed = regexp.MustCompile(`t\.hi >= (\d+)`)
var reMoved = regexp.MustCompile(`moved\(t, (-?\d+), (\d+)\)`)
var reIdentCall = regexp.MustCompile(`\b([A-Za-z_][A-Za-z0-9_]*)\(`)

// effectOf reads the stack effect of a builder method off its contract: `t.hi >= k` in the preconditions (operands needed)
// and `moved(t, d, f)` in the postconditions (operand depth changes by d, f finished items are appended), looking through
// the predicates the clauses mention.
func effectOf(cs *ContractSet, method string) (builderEffect, error) {
	fc := cs.Funcs["Tree."+method]
	if fc == nil {
		return builderEffect{}, fmt.Errorf("builder method %s has no contract", method)
	}
	expand := func(cl []*Clause) string {
		var parts []string
		for _, c := range cl {
			parts = append(parts, c.Text)
		}
		text := strings.Join(parts, " ; ")
		seen := map[string]bool{}
		for depth := 0; depth < 4; depth++ {
			add := ""
			for _, m := range reIdentCall.FindAllStringSubmatch(text, -1) {
				if pd, ok := cs.Preds[m[1]]; ok && !seen[m[1]] {
					seen[m[1]] = true
					add += " ; " + pd.Text
				}
			}
			if add == "" {
				break
			}
			text += add
		}
		return text
	}
	var e builderEffect
	for _, m := range reNeed.FindAllStringSubmatch(expand(fc.Requires), -1) {
		if k, _ := strconv.Atoi(m[1]); k > e.Need {
			e.Need = k
		}
	}
	m := reMoved.FindStringSubmatch(expand(fc.Ensures))
	if m == nil {
		return e, fmt.Errorf("contract of %s states no stack effect moved(t, d, f)", method)
	}
	e.Delta, _ = strconv.Atoi(m[1])
	e.Finished, _ = strconv.Atoi(m[2])
	return e, nil
}

// apath: an abstract derivation: net change of the operand depth, lowest level reached relative to the start (min over the
// builder calls of depth-before-the-call minus operands-needed, capped at 0), and how it was chosen (for the witness).
type apath struct {
	D, M  int
	Trace string
}

type stackInterp struct {
	cs      *ContractSet
	effects map[string]builderEffect
	errs    []string
	used    map[string]bool
}

func seqPaths(a, b []apath) []apath {
	var out []apath
	for _, x := range a {
		for _, y := range b {
			t := x.Trace
			if y.Trace != "" {
				if t != "" {
					t += " "
				}
				t += y.Trace
			}
			out = append(out, apath{x.D + y.D, min(x.M, x.D+y.M), t})
		}
	}
	return dedupPaths(out)
}

func dedupPaths(ps []apath) []apath {
	seen := map[[2]int]bool{}
	var out []apath
	for _, p := range ps {
		k := [2]int{p.D, p.M}
		if !seen[k] {
			seen[k] = true
			out = append(out, p)
		}
	}
	return out
}

func tag(ps []apath, t string) []apath {
	out := make([]apath, len(ps))
	for i, p := range ps {
		out[i] = p
		if p.Trace == "" {
			out[i].Trace = t
		} else {
			out[i].Trace = t + " " + p.Trace
		}
	}
	return out
}

func (si *stackInterp) action(text string) []apath {
	p := apath{}
	for _, stmt := range strings.Split(text, ";") {
		stmt = strings.TrimSpace(stmt)
		if stmt == "" {
			continue
		}
		m := reAddCall.FindStringSubmatch(stmt)
		if m == nil {
			si.errs = append(si.errs, fmt.Sprintf("action statement %q is not a call of a builder method", stmt))
			continue
		}
		e, ok := si.effects[m[1]]
		if !ok {
			var err error
			e, err = effectOf(si.cs, m[1])
			if err != nil {
				si.errs = append(si.errs, err.Error())
				continue
			}
			si.effects[m[1]] = e
		}
		si.used[m[1]] = true
		p.M = min(p.M, p.D-e.Need)
		p.D += e.Delta
	}
	return []apath{p}
}

func (si *stackInterp) eval(n *PNode) []apath {
	unit := []apath{{}}
	switch n.TypeName {
	case "Action":
		return si.action(n.Str)
	case "Name":
		if operandRules[n.Str] {
			return []apath{{D: 1}}
		}
		return unit
	case "Sequence":
		cur := unit
		for _, k := range n.Kids {
			cur = seqPaths(cur, si.eval(k))
		}
		return cur
	case "Alternate", "UnorderedAlternate":
		var out []apath
		for i, k := range n.Kids {
			out = append(out, tag(si.eval(k), fmt.Sprintf("alt%d", i+1))...)
		}
		return dedupPaths(out)
	case "Query":
		e := si.eval(n.Kids[0])
		return dedupPaths(append(tag(unit, "?absent"), tag(e, "?present")...))
	case "Star":
		e := si.eval(n.Kids[0])
		return dedupPaths(append(append(tag(unit, "*0"), tag(e, "*1")...), tag(seqPaths(e, e), "*2")...))
	case "Plus":
		e := si.eval(n.Kids[0])
		return dedupPaths(append(tag(e, "+1"), tag(seqPaths(e, e), "+2")...))
	case "Push", "ImplicitPush":
		return si.eval(n.Kids[0])
	case "PeekFor", "PeekNot":
		return unit // the tokens (hence the actions) of a lookahead are discarded
	case "Predicate", "StateChange":
		if strings.Contains(n.Str, "p.Add") {
			si.errs = append(si.errs, "a semantic predicate calls a builder method: "+n.Str)
		}
		return unit
	case "Dot", "Character", "String", "Range", "Nil", "Commit":
		return unit
	}
	si.errs = append(si.errs, "node type "+n.TypeName+" is not understood")
	return unit
}

// pegTree returns the rule tree of a grammar (treedump tool, built from the repository under verification).
func pegTree(grammar string) ([]*PNode, error) {
	t, err := buildTools()
	if err != nil {
		return nil, err
	}
	out, err := runCmd(scratchDir, t.TreeDump, grammar)
	if err != nil {
		return nil, fmt.Errorf("treedump %s: %v\n%s", grammar, err, trunc(out, 800))
	}
	var top []*PNode
	if err := json.Unmarshal([]byte(out), &top); err != nil {
		return nil, err
	}
	return top, nil
}

func stackDiscipline(u *Unit) []*Obligation {
	top, err := pegTree(filepath.Join(repoDir, "peg.peg"))
	if err != nil {
		return []*Obligation{textObligation("stack.tree", "the rule tree of peg.peg can be obtained", false, trunc(err.Error(), 600))}
	}
	si := &stackInterp{cs: u.CS, effects: map[string]builderEffect{}, used: map[string]bool{}}
	var obs []*Obligation
	defined := map[string]bool{}
	for _, n := range top {
		if n.TypeName != "Rule" || len(n.Kids) == 0 {
			continue
		}
		defined[n.Str] = true
		want := 0
		if operandRules[n.Str] {
			want = 1
		}
		si.errs = nil
		paths := si.eval(n.Kids[0])
		var bad []string
		for _, p := range paths {
			switch {
			case p.D != want:
				bad = append(bad, fmt.Sprintf("a derivation [%s] changes the depth by %+d", p.Trace, p.D))
			case p.M < 0:
				bad = append(bad, fmt.Sprintf("a derivation [%s] calls a builder method with %d operand(s) too few above the level of entry", p.Trace, -p.M))
			}
		}
		bad = append(bad, si.errs...)
		obs = append(obs, textObligation("stack["+n.Str+"]", fmt.Sprintf("rule %s: every derivation changes the operand stack by exactly %+d and uses no operand below its level of entry", n.Str, want),
			len(bad) == 0, strings.Join(bad, "; ")))
	}
	var undefined []string
	for r := range operandRules {
		if !defined[r] {
			undefined = append(undefined, r)
		}
	}
	sort.Strings(undefined)
	obs = append(obs, textObligation("stack.rules", "every operand-producing syntactic category is a rule of peg.peg", len(undefined) == 0, strings.Join(undefined, ", ")))
	// every builder method called by an action has a verified contract (part 1)
	isKey := map[string]bool{}
	for _, k := range builderKeys {
		isKey[k] = true
	}
	var unverified []string
	var table []string
	for _, m := range sortedKeys(si.used) {
		if !isKey["Tree."+m] {
			unverified = append(unverified, m)
		}
		e := si.effects[m]
		table = append(table, fmt.Sprintf("%s:need %d,%+d", m, e.Need, e.Delta))
	}
	obs = append(obs, textObligation("stack.methods", "every builder method called by an action of peg.peg is verified against the contract its effect is read from ("+strings.Join(table, "; ")+")",
		len(unverified) == 0, strings.Join(unverified, ", ")))
	// the composite actions verified as Go functions (lemmas_verif.go) are the actions of peg.peg
	obs = append(obs, compositeActions(u, top)...)
	obs = append(obs, grammarShape(top)...)
	return obs
}

// compositeActions: the statement lists of the verification-only functions verifNegatedClass / verifTrailingSlash are the
// texts of the corresponding actions of peg.peg.
func compositeActions(u *Unit, top []*PNode) []*Obligation {
	norm := func(s string) string {
		s = strings.Join(strings.Fields(s), "")
		return strings.Trim(strings.ReplaceAll(s, ";", ""), "{}")
	}
	bodyOf := func(key string) string {
		fi, ok := u.Funcs[key]
		if !ok {
			return "<missing " + key + ">"
		}
		return strings.ReplaceAll(norm(exprString(u.Fset, fi.Body)), "t.", "p.")
	}
	var actions func(n *PNode, guard string, out *[]string)
	actions = func(n *PNode, guard string, out *[]string) {
		if n.TypeName == "Sequence" {
			g := ""
			for _, k := range n.Kids {
				if k.TypeName == "Character" || k.TypeName == "Name" {
					g = k.Str
					if k.TypeName == "Name" && g != "Slash" {
						continue
					}
					guard = g
				}
				if k.TypeName == "Action" {
					*out = append(*out, guard+" => "+norm(k.Str))
				} else {
					actions(k, guard, out)
				}
			}
			return
		}
		for _, k := range n.Kids {
			actions(k, guard, out)
		}
	}
	var obs []*Obligation
	for _, n := range top {
		if n.TypeName != "Rule" || len(n.Kids) == 0 {
			continue
		}
		var acts []string
		actions(n.Kids[0], "", &acts)
		switch n.Str {
		case "Class":
			want := "^ => " + bodyOf("verifNegatedClass")
			cnt := 0
			for _, a := range acts {
				if a == want {
					cnt++
				}
			}
			obs = append(obs, textObligation("action.negated", "Class: after '^' both class forms run the statement list verified as verifNegatedClass (Sequence(PeekNot(class), Dot))",
				cnt == 2 && len(acts) == 2, fmt.Sprintf("actions %q, verified %q", acts, want)))
		case "Expression":
			want := "Slash => " + bodyOf("verifTrailingSlash")
			cnt := 0
			for _, a := range acts {
				if a == want {
					cnt++
				}
			}
			obs = append(obs, textObligation("action.trailingslash", "Expression: a trailing slash runs the statement list verified as verifTrailingSlash (adds the empty alternative)",
				cnt == 1, fmt.Sprintf("actions %q, verified %q", acts, want)))
		}
	}
	return obs
}

// ---------------------------------------------------------------------------------------------
// further checks on the rule tree of peg.peg: equivalent spellings, balanced braces, precedence levels

func ruleBody(top []*PNode, name string) *PNode {
	for _, n := range top {
		if n.TypeName == "Rule" && n.Str == name && len(n.Kids) > 0 {
			return n.Kids[0]
		}
	}
	return nil
}

// plainText: the string matched by a node made of characters only ("" and false otherwise)
func plainText(n *PNode) (string, bool) {
	switch n.TypeName {
	case "Character":
		return n.Str, true
	case "Sequence":
		s := ""
		for _, k := range n.Kids {
			t, ok := plainText(k)
			if !ok {
				return "", false
			}
			s += t
		}
		return s, true
	}
	return "", false
}

// firstAlternation: the first Alternate node in preorder
func firstAlternation(n *PNode) *PNode {
	if n.TypeName == "Alternate" {
		return n
	}
	for _, k := range n.Kids {
		if a := firstAlternation(k); a != nil {
			return a
		}
	}
	return nil
}

func collect(n *PNode, f func(*PNode)) {
	f(n)
	for _, k := range n.Kids {
		collect(k, f)
	}
}

// braceInterp: the abstract interpretation of part 3 with "depth" = number of open braces: '{' opens (+1), '}' closes
// (needs 1, -1), any other character is neutral; a dot is neutral only right after a lookahead that excludes both braces.
func bracePaths(top []*PNode, n *PNode, declared map[string]bool, errs *[]string) []apath {
	unit := []apath{{}}
	any := []apath{{}, {D: 1}, {D: -1, M: -1}}
	switch n.TypeName {
	case "Character":
		var cur = unit
		for _, c := range n.Str {
			switch c {
			case '{':
				cur = seqPaths(cur, []apath{{D: 1}})
			case '}':
				cur = seqPaths(cur, []apath{{D: -1, M: -1}})
			}
		}
		return cur
	case "Name":
		if declared[n.Str] {
			return unit // balanced: its own obligation
		}
		return any
	case "Dot", "Range", "String":
		return any
	case "Sequence":
		cur := unit
		for i, k := range n.Kids {
			if k.TypeName == "Dot" && i > 0 && n.Kids[i-1].TypeName == "PeekNot" {
				ex := map[string]bool{}
				collect(n.Kids[i-1], func(m *PNode) {
					if m.TypeName == "Character" {
						ex[m.Str] = true
					}
				})
				if ex["{"] && ex["}"] {
					continue // [^{}]: neither brace
				}
			}
			cur = seqPaths(cur, bracePaths(top, k, declared, errs))
		}
		return cur
	case "Alternate":
		var out []apath
		for i, k := range n.Kids {
			out = append(out, tag(bracePaths(top, k, declared, errs), fmt.Sprintf("alt%d", i+1))...)
		}
		return dedupPaths(out)
	case "Query":
		return dedupPaths(append(tag(unit, "?absent"), tag(bracePaths(top, n.Kids[0], declared, errs), "?present")...))
	case "Star":
		e := bracePaths(top, n.Kids[0], declared, errs)
		return dedupPaths(append(append(tag(unit, "*0"), tag(e, "*1")...), tag(seqPaths(e, e), "*2")...))
	case "Plus":
		e := bracePaths(top, n.Kids[0], declared, errs)
		return dedupPaths(append(tag(e, "+1"), tag(seqPaths(e, e), "+2")...))
	case "Push", "ImplicitPush":
		return bracePaths(top, n.Kids[0], declared, errs)
	case "PeekFor", "PeekNot", "Action", "Predicate", "StateChange", "Nil":
		return unit
	}
	*errs = append(*errs, "node type "+n.TypeName+" is not understood")
	return any
}

func grammarShape(top []*PNode) []*Obligation {
	var obs []*Obligation
	// equivalent spellings: the alternation of spellings consists of plain character sequences (no action inside), so the
	// tree that is built cannot depend on the spelling used
	for _, sp := range []struct {
		rule string
		want []string
		what string
	}{{"LeftArrow", []string{"<-", "\u2190"}, "both arrow spellings (<- and U+2190)"}, {"Comment", []string{"#", "//"}, "both comment markers (# and //)"},
		{"HeaderComment", []string{"#", "//"}, "both comment markers (# and //) in the header"}} {
		b := ruleBody(top, sp.rule)
		var got []string
		ok := b != nil
		if ok {
			a := firstAlternation(b)
			ok = a != nil
			if ok {
				for _, k := range a.Kids {
					t, plain := plainText(k)
					ok = ok && plain
					got = append(got, t)
				}
			}
		}
		sort.Strings(got)
		want := append([]string{}, sp.want...)
		sort.Strings(want)
		ok = ok && strings.Join(got, " ") == strings.Join(want, " ")
		obs = append(obs, textObligation("spelling["+sp.rule+"]", "rule "+sp.rule+": "+sp.what+" are alternatives of one plain-text alternation without actions: the tree built does not depend on the spelling",
			ok, fmt.Sprintf("alternatives %+q", got)))
	}
	// nested braces in actions are balanced
	for _, rn := range []string{"ActionBody", "Action"} {
		b := ruleBody(top, rn)
		var errs, bad []string
		if b == nil {
			bad = append(bad, "rule not found")
		} else {
			for _, p := range bracePaths(top, b, map[string]bool{"ActionBody": true, "Spacing": true}, &errs) {
				if p.D != 0 || p.M < 0 {
					bad = append(bad, fmt.Sprintf("a derivation [%s] has brace balance %+d (lowest %d)", p.Trace, p.D, p.M))
				}
			}
		}
		bad = append(bad, errs...)
		obs = append(obs, textObligation("braces["+rn+"]", "rule "+rn+": the text of every derivation is balanced in { } (never closes a brace it has not opened), given that of the rules it refers to",
			len(bad) == 0, strings.Join(bad, "; ")))
	}
	// Spacing (referred to by Action) matches no brace outside comments... it can: a comment may contain braces; Action's captured
	// text < ActionBody* > ends before Spacing, so the text handed to AddAction is ActionBody* only
	if b := ruleBody(top, "Action"); b != nil {
		ok := false
		if b.TypeName == "Sequence" && len(b.Kids) == 4 && b.Kids[0].Str == "{" && b.Kids[1].TypeName == "Push" && b.Kids[2].Str == "}" && b.Kids[3].Str == "Spacing" {
			st := b.Kids[1].Kids[0]
			ok = st.TypeName == "Star" && st.Kids[0].TypeName == "Name" && st.Kids[0].Str == "ActionBody"
		}
		obs = append(obs, textObligation("braces.capture", "rule Action is '{' < ActionBody* > '}' Spacing: the action text captured is exactly a sequence of ActionBody", ok, "unexpected shape"))
	}
	// precedence: alternation < sequence < prefix < suffix: each level refers only to the next tighter level and calls only
	// the builder methods of its own operators
	level := []struct {
		rule     string
		refs     string // operand-producing rules referred to
		builders string
	}{{"Expression", "Sequence", "AddAlternate AddNil"}, {"Sequence", "Prefix", "AddSequence"}, {"Prefix", "Suffix", "AddPeekFor AddPeekNot AddPredicate AddStateChange"},
		{"Suffix", "Primary", "AddPlus AddQuery AddStar"}, {"Primary", "Class Expression Literal", "AddAction AddDot AddName AddPush"}}
	for _, lv := range level {
		b := ruleBody(top, lv.rule)
		refs, calls := map[string]bool{}, map[string]bool{}
		if b != nil {
			collect(b, func(m *PNode) {
				switch m.TypeName {
				case "Name":
					if operandRules[m.Str] {
						refs[m.Str] = true
					}
				case "Action":
					for _, st := range strings.Split(m.Str, ";") {
						if mm := reAddCall.FindStringSubmatch(strings.TrimSpace(st)); mm != nil {
							calls[mm[1]] = true
						}
					}
				}
			})
		}
		gr, gc := strings.Join(sortedKeys(refs), " "), strings.Join(sortedKeys(calls), " ")
		obs = append(obs, textObligation("precedence["+lv.rule+"]", fmt.Sprintf("rule %s: operands come from {%s} only and are combined with {%s} only", lv.rule, lv.refs, lv.builders),
			b != nil && gr == lv.refs && gc == lv.builders, fmt.Sprintf("refers to {%s}, calls {%s}", gr, gc)))
	}
	return obs
}
