package main

// Frame analysis at field granularity (DESIGN.md 3.8): for every function of a package the set of
// locations it may write and read, closed over calls inside the package. Used for the frame
// obligations of C09 (the two analysis goroutines of Compile do not interfere; nothing reachable
// from Compile depends on map order, time or randomness; no package-level variable is assigned)
// and C14 (a generated parser keeps its state in the instance).
//
// Locations: "field T.f" (any object of type T), "mapelem T.f" / "elem T.f" (contents of the map/
// slice/array stored in that field), "pkgvar name", "local name@pos" (a variable of an enclosing
// function, incl. its elements), "param-elem" (elements of a slice/array/map parameter).

import (
	"fmt"
	"go/ast"
	"go/token"
	"go/types"
	"sort"
	"strings"
)

type Effects struct {
	Writes map[string]token.Pos
	Reads  map[string]token.Pos
	Calls  map[string]token.Pos // callee keys inside the package
	Sites  map[string][]*ast.CallExpr
	Ext    map[string]token.Pos // external callees (pkg.Func / (pkg.T).M)
	Go     []token.Pos
	MapRng []token.Pos
}

func newEffects() *Effects {
	return &Effects{Writes: map[string]token.Pos{}, Reads: map[string]token.Pos{}, Calls: map[string]token.Pos{}, Ext: map[string]token.Pos{}, Sites: map[string][]*ast.CallExpr{}}
}

type effectAnalysis struct {
	u    *Unit
	fx   map[string]*Effects // per function key, direct effects
	full map[string]*Effects // closed over calls
}

func analyseEffects(u *Unit) *effectAnalysis {
	ea := &effectAnalysis{u: u, fx: map[string]*Effects{}, full: map[string]*Effects{}}
	for key, fi := range u.Funcs {
		ea.fx[key] = ea.direct(fi)
	}
	return ea
}

// locOfExpr names the location denoted by an lvalue/rvalue expression (coarsely).
func (ea *effectAnalysis) locOfExpr(e ast.Expr, fi *FuncInfo) (string, bool) {
	u := ea.u
	switch x := unparen(e).(type) {
	case *ast.Ident:
		obj := u.Info.Uses[x]
		if obj == nil {
			obj = u.Info.Defs[x]
		}
		v, ok := obj.(*types.Var)
		if !ok {
			return "", false
		}
		if v.Pkg() != nil && v.Parent() == v.Pkg().Scope() {
			return "pkgvar " + v.Name(), true
		}
		if v.Pos() >= fi.Pos && v.Pos() < fi.Body.End() {
			return "", false // own local or parameter: not a shared location by itself
		}
		return fmt.Sprintf("local %s@%d", v.Name(), u.Fset.Position(v.Pos()).Offset), true
	case *ast.SelectorExpr:
		if sel, ok := u.Info.Selections[x]; ok && sel.Kind() == types.FieldVal {
			rt := sel.Recv()
			if p, ok := rt.(*types.Pointer); ok {
				rt = p.Elem()
			}
			// attribute the field to the struct that declares it (embedded fields)
			f := sel.Obj().(*types.Var)
			owner := typeName(rt)
			idx := sel.Index()
			cur := rt
			for _, i := range idx[:len(idx)-1] {
				if p, ok := cur.Underlying().(*types.Pointer); ok {
					cur = p.Elem()
				}
				st := cur.Underlying().(*types.Struct)
				cur = st.Field(i).Type()
				if p, ok := cur.(*types.Pointer); ok {
					cur = p.Elem()
				}
				owner = typeName(cur)
			}
			return "field " + owner + "." + f.Name(), true
		}
		if id, ok := x.X.(*ast.Ident); ok {
			if _, isPkg := u.Info.Uses[id].(*types.PkgName); isPkg {
				if v, ok := u.Info.Uses[x.Sel].(*types.Var); ok {
					return "pkgvar " + v.Pkg().Name() + "." + v.Name(), true
				}
			}
		}
		return "", false
	case *ast.IndexExpr:
		if base, ok := ea.locOfExpr(x.X, fi); ok {
			kind := "elem "
			if t := u.Info.TypeOf(x.X); t != nil {
				if _, isMap := t.Underlying().(*types.Map); isMap {
					kind = "mapelem "
				}
			}
			return kind + strings.TrimPrefix(strings.TrimPrefix(base, "field "), "local "), true
		}
		// element of a parameter/local slice or map: shared with the caller
		if id, ok := unparen(x.X).(*ast.Ident); ok {
			if v, ok := u.Info.Uses[id].(*types.Var); ok {
				return "param-elem " + v.Name(), true
			}
		}
		return "", false
	case *ast.StarExpr:
		return ea.locOfExpr(x.X, fi)
	}
	return "", false
}

func (ea *effectAnalysis) direct(fi *FuncInfo) *Effects {
	u := ea.u
	fx := newEffects()
	write := func(e ast.Expr) {
		if l, ok := ea.locOfExpr(e, fi); ok {
			if _, seen := fx.Writes[l]; !seen {
				fx.Writes[l] = e.Pos()
			}
		}
	}
	var inspect func(n ast.Node) bool
	inspect = func(n ast.Node) bool {
		switch x := n.(type) {
		case *ast.FuncLit:
			if x != fi.Lit {
				// a nested literal that is a function of its own (indexed) is analysed separately; an
				// anonymous one (goroutine body, callback) is part of this function
				for _, other := range u.Funcs {
					if other.Lit == x {
						return false
					}
				}
			}
		case *ast.AssignStmt:
			for _, l := range x.Lhs {
				write(l)
			}
		case *ast.IncDecStmt:
			write(x.X)
		case *ast.RangeStmt:
			if x.Tok == token.ASSIGN {
				if x.Key != nil {
					write(x.Key)
				}
				if x.Value != nil {
					write(x.Value)
				}
			}
			if t := u.Info.TypeOf(x.X); t != nil {
				if _, isMap := t.Underlying().(*types.Map); isMap {
					fx.MapRng = append(fx.MapRng, x.Pos())
				}
			}
		case *ast.GoStmt:
			fx.Go = append(fx.Go, x.Pos())
		case *ast.SelectorExpr, *ast.Ident, *ast.IndexExpr:
			if l, ok := ea.locOfExpr(x.(ast.Expr), fi); ok {
				if _, seen := fx.Reads[l]; !seen {
					fx.Reads[l] = x.Pos()
				}
			}
		case *ast.CallExpr:
			ea.callee(x, fi, fx)
			// append(x.f, ...) assigned back is a write through the assignment; delete(m, k) writes the map
			if id, ok := x.Fun.(*ast.Ident); ok && id.Name == "delete" && len(x.Args) > 0 {
				if l, ok := ea.locOfExpr(x.Args[0], fi); ok {
					fx.Writes["mapelem "+strings.TrimPrefix(strings.TrimPrefix(l, "field "), "local ")] = x.Pos()
				}
			}
		}
		return true
	}
	ast.Inspect(fi.Body, inspect)
	return fx
}

func (ea *effectAnalysis) callee(call *ast.CallExpr, fi *FuncInfo, fx *Effects) {
	u := ea.u
	fun := unparen(call.Fun)
	if ix, ok := fun.(*ast.IndexExpr); ok {
		fun = unparen(ix.X)
	}
	switch f := fun.(type) {
	case *ast.Ident:
		switch o := u.Info.Uses[f].(type) {
		case *types.Func:
			if o.Pkg() == u.Pkg.Types {
				fx.Calls[o.Name()] = call.Pos()
				fx.Sites[o.Name()] = append(fx.Sites[o.Name()], call)
			} else if o.Pkg() != nil {
				fx.Ext[o.Pkg().Path()+"."+o.Name()] = call.Pos()
			}
		case *types.Var:
			// closure bound to a name of an enclosing function
			for outer := fi; outer != nil; outer = outer.Outer {
				if _, ok := u.Funcs[outer.Name+"."+o.Name()]; ok {
					fx.Calls[outer.Name+"."+o.Name()] = call.Pos()
					fx.Sites[outer.Name+"."+o.Name()] = append(fx.Sites[outer.Name+"."+o.Name()], call)
					return
				}
			}
		}
	case *ast.SelectorExpr:
		if id, ok := f.X.(*ast.Ident); ok {
			if pn, isPkg := u.Info.Uses[id].(*types.PkgName); isPkg {
				fx.Ext[pn.Imported().Path()+"."+f.Sel.Name] = call.Pos()
				return
			}
		}
		if sel, ok := u.Info.Selections[f]; ok && sel.Kind() == types.MethodVal {
			fn := sel.Obj().(*types.Func)
			sig := fn.Type().(*types.Signature)
			rt := sig.Recv().Type()
			if p, ok := rt.(*types.Pointer); ok {
				rt = p.Elem()
			}
			if fn.Pkg() == u.Pkg.Types {
				fx.Calls[typeName(rt)+"."+fn.Name()] = call.Pos()
				fx.Sites[typeName(rt)+"."+fn.Name()] = append(fx.Sites[typeName(rt)+"."+fn.Name()], call)
			} else if fn.Pkg() != nil {
				fx.Ext["("+fn.Pkg().Path()+"."+typeName(rt)+")."+fn.Name()] = call.Pos()
			}
		}
	}
}

// effectsOf computes the effects of a function including everything it calls inside the package.
// Writes/reads of the elements of a parameter ("param-elem p") are translated at every call site
// to the location of the argument: dropped when the argument is a variable local to the caller.
func (ea *effectAnalysis) effectsOf(fi *FuncInfo, direct *Effects) *Effects {
	type summary struct {
		w, r map[string]token.Pos
	}
	memo := map[string]*summary{}
	onStack := map[string]bool{}
	out := newEffects()
	var summ func(key string, fx *Effects, f *FuncInfo) *summary
	summ = func(key string, fx *Effects, f *FuncInfo) *summary {
		if s, ok := memo[key]; ok {
			return s
		}
		s := &summary{w: map[string]token.Pos{}, r: map[string]token.Pos{}}
		memo[key] = s
		if onStack[key] {
			return s
		}
		onStack[key] = true
		defer func() { onStack[key] = false }()
		for l, p := range fx.Writes {
			s.w[l] = p
		}
		for l, p := range fx.Reads {
			s.r[l] = p
		}
		for l, p := range fx.Ext {
			if _, has := out.Ext[l]; !has {
				out.Ext[l] = p
			}
		}
		out.Go = append(out.Go, fx.Go...)
		out.MapRng = append(out.MapRng, fx.MapRng...)
		for ck := range fx.Calls {
			cfi, ok := ea.u.Funcs[ck]
			if !ok {
				continue
			}
			cs := summ(ck, ea.fx[ck], cfi)
			// parameter names of the callee in order (receiver excluded)
			var params []string
			for i := 0; i < cfi.Sig.Params().Len(); i++ {
				params = append(params, cfi.Sig.Params().At(i).Name())
			}
			translate := func(l string, p token.Pos, dst map[string]token.Pos) {
				if !strings.HasPrefix(l, "param-elem ") {
					if _, has := dst[l]; !has {
						dst[l] = p
					}
					return
				}
				pname := strings.TrimPrefix(l, "param-elem ")
				idx := -1
				for i, n := range params {
					if n == pname {
						idx = i
					}
				}
				for _, site := range fx.Sites[ck] {
					if idx < 0 || idx >= len(site.Args) {
						dst["elem ?"+pname] = p // receiver or unknown: keep conservatively
						continue
					}
					arg := site.Args[idx]
					if al, ok := ea.locOfExpr(arg, f); ok {
						dst["elem "+strings.TrimPrefix(strings.TrimPrefix(al, "field "), "local ")] = p
					} else if id, ok := unparen(arg).(*ast.Ident); ok {
						if v, ok := ea.u.Info.Uses[id].(*types.Var); ok && f.Sig != nil {
							isParam := false
							for i := 0; i < f.Sig.Params().Len(); i++ {
								if f.Sig.Params().At(i) == v {
									isParam = true
								}
							}
							if isParam {
								dst["param-elem "+v.Name()] = p
							}
							// otherwise: a variable local to the caller: not a shared location
						}
					}
				}
			}
			for l, p := range cs.w {
				translate(l, p, s.w)
			}
			for l, p := range cs.r {
				translate(l, p, s.r)
			}
		}
		return s
	}
	top := summ("$top", direct, fi)
	out.Writes, out.Reads = top.w, top.r
	return out
}

func keysOf(m map[string]token.Pos) []string {
	var ks []string
	for k := range m {
		ks = append(ks, k)
	}
	sort.Strings(ks)
	return ks
}

// frameObligation creates an obligation decided by the frame analysis itself.
func frameObligation(unit, name, detail string, ok bool, witness string) *Obligation {
	ob := &Obligation{Name: unit + "#frame[" + name + "]", Kind: "frame", Unit: unit, Fn: "frame", Detail: detail, Goal: "frame", PC: "true"}
	if ok {
		ob.Result = SolverResult{Verdict: VUnsat, Backend: "frame-analysis"}
	} else {
		ob.Result = SolverResult{Verdict: VSat, Backend: "frame-analysis", Output: witness}
		ob.Detail += " -- " + witness
	}
	return ob
}

// sharedLoc: is the location shared between goroutines / visible outside the function?
func sharedLoc(l string) bool {
	return strings.HasPrefix(l, "field ") || strings.HasPrefix(l, "mapelem ") || strings.HasPrefix(l, "elem ") || strings.HasPrefix(l, "pkgvar ") || strings.HasPrefix(l, "local ")
}
