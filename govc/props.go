package main

// Property registry: which units and programs decide which property.

import (
	"fmt"
	"path/filepath"
	"strings"
)

func init() {
	register(&propertyDef{ID: "C16", Level: "proof", Run: runC16})
	for _, id := range []string{"C01", "C03", "C11", "C13"} {
		id := id
		register(&propertyDef{ID: id, Level: "translation_validation", Run: func(r *Run) error { return runClosureProperty(r, id, [][]string{{}}, false) }})
	}
	register(&propertyDef{ID: "C02", Level: "translation_validation", Run: func(r *Run) error {
		return runClosureProperty(r, "C02", [][]string{{"-inline"}, {"-switch"}, {"-inline", "-switch"}}, false)
	}})
	register(&propertyDef{ID: "C07", Level: "translation_validation", Run: func(r *Run) error {
		return runClosureProperty(r, "C07", [][]string{{"-noast"}, {"-noast", "-inline"}, {"-noast", "-switch"}, {"-noast", "-inline", "-switch"}}, false)
	}})
	register(&propertyDef{ID: "C17", Level: "translation_validation", Run: func(r *Run) error {
		return runClosureProperty(r, "C17", [][]string{{}, {"-inline"}, {"-switch"}, {"-inline", "-switch"}}, true)
	}})
}

func runC16(r *Run) error {
	u, keys, err := loadSetUnit()
	if err != nil {
		return err
	}
	r.Units = append(r.Units, u)
	r.verifyFuncs(u, keys)
	return nil
}

// attributed: does the obligation belong to property id (for closure units)?
func attributed(ob *Obligation, id string) bool {
	if ob.Canary || ob.Kind == "unit" {
		return true
	}
	if ob.Props != "" {
		for _, p := range strings.Split(ob.Props, ",") {
			p = strings.TrimSpace(p)
			if p == id {
				return true
			}
			// C02 and C17 are about verdict, prefix and tokens under the option sets
			if (id == "C02" || id == "C17") && (p == "C01" || p == "C03") {
				return true
			}
		}
		return false
	}
	if id == "C07" && (ob.Kind == "safety" || ob.Kind == "requires" || ob.Kind == "assigns") {
		return true
	}
	switch ob.Kind {
	case "safety", "overflow":
		return id == "C13"
	case "assigns":
		return id == "C13" || id == "C14"
	case "requires":
		if strings.Contains(ob.Name, "requires@Init.memoize") {
			return id == "C06"
		}
		return id == "C13"
	}
	return false
}

type programSpec struct {
	Name    string
	Grammar string
}

func closurePrograms(r *Run) ([]programSpec, error) {
	files, err := writeSchemas(filepath.Join(scratchDir, "schemas"), r.Tier, r.Seed)
	if err != nil {
		return nil, err
	}
	var ps []programSpec
	for _, f := range files {
		ps = append(ps, programSpec{f.Name, f.Path})
	}
	ps = append(ps, programSpec{"peg.peg", filepath.Join(repoDir, "peg.peg")})
	if r.Tier == "thorough" {
		for _, g := range []string{"calculator/calculator.peg", "calculatorast/calculator.peg", "fexl/fexl.peg", "longtest/long.peg", "c/c.peg", "java/java_1_7.peg"} {
			ps = append(ps, programSpec{strings.ReplaceAll(g, "/", "_"), filepath.Join(repoDir, "grammars", g)})
		}
	}
	return ps, nil
}

// runClosureProperty validates every closure of every program under each option set and keeps the
// obligations attributed to the property.
func runClosureProperty(r *Run, id string, optSets [][]string, corpusOnly bool) error {
	progs, err := closurePrograms(r)
	if err != nil {
		return err
	}
	if corpusOnly {
		var keep []programSpec
		for _, p := range progs {
			if !strings.Contains(p.Name, "schema") && !strings.HasPrefix(p.Name, "hz-") {
				keep = append(keep, p)
			}
		}
		progs = keep
	}
	var samples []any
	for _, p := range progs {
		for _, opts := range optSets {
			name := p.Name
			if len(opts) > 0 {
				name += strings.Join(opts, "")
			}
			gp, err := Generate(name, p.Grammar, opts)
			if err != nil {
				// a program that cannot be generated, or whose output does not type-check, is a failed obligation
				r.Obls = append(r.Obls, &Obligation{Name: name + "#unit.welltyped", Kind: "unit", Unit: name, Goal: "false", PC: "true",
					Detail: "generated parser could not be produced or does not type-check: " + trunc(err.Error(), 1500), Result: SolverResult{Verdict: VUnknown, Output: trunc(err.Error(), 3000)}})
				continue
			}
			r.Units = append(r.Units, gp.Unit)
			before := len(r.Obls)
			gp.verifyClosures(r, nil)
			kept := r.Obls[:before]
			for _, ob := range r.Obls[before:] {
				if attributed(ob, id) {
					kept = append(kept, ob)
				}
			}
			r.Obls = kept
			if len(samples) < 6 {
				samples = append(samples, map[string]any{"program": name, "grammar": p.Grammar, "options": opts, "closures": len(gp.Unit.Funcs)})
			}
		}
	}
	r.Samples = append(r.Samples, samples...)
	r.Extra["rule"] = fmt.Sprintf("schema family (%s tier) + corpus; one proof per emitted rule closure against the contract pegspec derives from the grammar", r.Tier)
	return nil
}
