package main

// Property registry: which units and programs decide which property.

import (
	"go/parser"
	"os"
	"os/exec"
	"encoding/json"
	"time"
	"fmt"
	"go/ast"
	"go/token"
	"go/types"
	"path/filepath"
	"strings"
	"sync"
)

func init() {
	register(&propertyDef{ID: "C16", Level: "proof", Run: runC16})
	for _, id := range []string{"C01", "C03", "C11", "C13", "C06"} {
		id := id
		register(&propertyDef{ID: id, Level: "translation_validation", Run: func(r *Run) error {
			if err := runRuntime(r, id); err != nil {
				return err
			}
			if id == "C11" || id == "C13" {
				if err := runRuntimeNoast(r); err != nil { // error positions and memory safety of a -noast parser's runtime
					return err
				}
			}
			return runClosureProperty(r, id, closureOptionSets(id, r.Tier), false)
		}})
	}
	register(&propertyDef{ID: "C09", Level: "other", Run: runC09})
	register(&propertyDef{ID: "C14", Level: "other", Run: runC14})
	// C04 and C05 are stated over the tokens of a successful parse: besides Execute / AST and the runtime core they validate
	// the token clauses (C03) of the emitted closures, so that an emitter change that corrupts the token sequence is
	// reported under these properties too
	register(&propertyDef{ID: "C04", Level: "proof", Run: func(r *Run) error {
		if err := runRuntime(r, "C04"); err != nil {
			return err
		}
		return runClosureProperty(r, "C04", closureOptionSets("C04", r.Tier), false)
	}})
	register(&propertyDef{ID: "C12", Level: "proof", Run: func(r *Run) error {
		if err := runRuntime(r, "C12"); err != nil {
			return err
		}
		return runRuntimeNoast(r) // Reset of a -noast parser
	}})
	register(&propertyDef{ID: "C05", Level: "proof", Run: func(r *Run) error {
		if err := runRuntime(r, "C05"); err != nil {
			return err
		}
		return runClosureProperty(r, "C05", closureOptionSets("C05", r.Tier), false)
	}})
	register(&propertyDef{ID: "C18", Level: "proof", Run: func(r *Run) error {
		u, keys, err := loadMainUnit()
		if err != nil {
			return err
		}
		r.Units = append(r.Units, u)
		r.verifyFuncs(u, keys)
		compileErrorFlow(r)
		return nil
	}})
	// C15: the grammar analyses of package tree (countRules, checkRecursion, warn, list primitives) against tree/contracts_verif.go
	register(&propertyDef{ID: "C15", Level: "proof", Run: func(r *Run) error {
		u, keys, err := loadTreeUnit()
		if err != nil {
			return err
		}
		r.Units = append(r.Units, u)
		// the tree builder (builderKeys) belongs to property C10
		isBuilder := map[string]bool{}
		for _, k := range builderKeys {
			isBuilder[k] = true
		}
		var own []string
		for _, k := range keys {
			if !isBuilder[k] {
				own = append(own, k)
			}
		}
		r.verifyFuncs(u, own)
		boundedDiagnostics(r)
		return nil
	}})
	// C10: the tree builder as a stack machine, the escape table and the stack discipline of peg.peg (builder.go)
	register(&propertyDef{ID: "C10", Level: "proof", Run: runC10})
	register(&propertyDef{ID: "C02", Level: "translation_validation", Run: func(r *Run) error {
		if err := runRuntime(r, "C02"); err != nil {
			return err
		}
		// the -switch optimiser computes first-character sets with package set (Union, AddRange, Intersects, Complement, Has,
		// Len): its contracts are part of what C02 rests on
		if err := runC16(r); err != nil {
			return err
		}
		return runClosureProperty(r, "C02", [][]string{{"-inline"}, {"-switch"}, {"-inline", "-switch"}}, false)
	}})
	register(&propertyDef{ID: "C07", Level: "translation_validation", Run: func(r *Run) error {
		if err := runRuntimeNoast(r); err != nil {
			return err
		}
		return runClosureProperty(r, "C07", [][]string{{"-noast"}, {"-noast", "-inline"}, {"-noast", "-switch"}, {"-noast", "-inline", "-switch"}}, false)
	}})
	register(&propertyDef{ID: "C17", Level: "translation_validation", Run: func(r *Run) error {
		if err := runRuntime(r, "C17"); err != nil {
			return err
		}
		bootstrapChain(r)
		return runClosureProperty(r, "C17", [][]string{{}, {"-inline"}, {"-switch"}, {"-inline", "-switch"}}, true)
	}})
}

func runC16(r *Run) error {
	u, keys, err := loadSetUnit()
	if err != nil {
		return err
	}
	r.Units = append(r.Units, u)
	r.verifyFuncs(u, keys)
	return nil
}

// attributed: does the obligation belong to property id (for closure units)?
func attributed(ob *Obligation, id string) bool {
	if ob.Canary || ob.Kind == "unit" {
		return true
	}
	if ob.Props != "" {
		for _, p := range strings.Split(ob.Props, ",") {
			p = strings.TrimSpace(p)
			if p == id {
				return true
			}
			// C02 and C17 are about verdict, prefix and tokens under the option sets
			if (id == "C02" || id == "C17") && (p == "C01" || p == "C03") {
				return true
			}
			// C04 and C05 rest on the token sequence
			if (id == "C04" || id == "C05") && p == "C03" {
				return true
			}
		}
		return false
	}
	if id == "C07" && (ob.Kind == "safety" || ob.Kind == "requires" || ob.Kind == "assigns") {
		return true
	}
	switch ob.Kind {
	case "safety", "overflow":
		return id == "C13"
	case "assigns":
		return id == "C13" || id == "C14"
	case "requires":
		if strings.Contains(ob.Name, "requires@Init.memoize") {
			return id == "C06"
		}
		return id == "C13"
	}
	return false
}

// compileErrorFlow: C18's contract of main assumes that (*tree.Tree).Compile returns nil only after the complete parser was
// written and returns the error on every failure path. Compile is outside the VC generator's subset (13.10), but this part
// of it is a handful of straight-line statements of its own body, and the assumption is checked on them as frame-style
// obligations over the syntax tree of tree/peg.go (nested function literals are not Compile's own control flow):
//   errflow.branches  every `if err != nil { ... }` of Compile's body ends in `return err` (or a return that wraps err) and
//                     does not assign err inside the branch (the error that is returned is the one that was tested);
//   errflow.checked   every statement of Compile's body that assigns err from a call is directly followed by such a branch;
//   errflow.success   the only `return nil` of Compile is its last statement.
func compileErrorFlow(r *Run) {
	fset := token.NewFileSet()
	file, err := parser.ParseFile(fset, filepath.Join(repoDir, "tree", "peg.go"), nil, 0)
	add := func(name, detail string, ok bool, why string) {
		r.Obls = append(r.Obls, frameObligation("tree", "compile.errflow."+name, detail, ok, why))
	}
	if err != nil {
		add("source", "tree/peg.go parses", false, err.Error())
		return
	}
	var compile *ast.FuncDecl
	for _, d := range file.Decls {
		if fd, ok := d.(*ast.FuncDecl); ok && fd.Name.Name == "Compile" && fd.Recv != nil {
			compile = fd
		}
	}
	if compile == nil || compile.Body == nil {
		add("source", "(*Tree).Compile is found in tree/peg.go", false, "no method Compile")
		return
	}
	pos := func(n ast.Node) string { return fset.Position(n.Pos()).String() }
	isErrNotNil := func(e ast.Expr) bool {
		b, ok := e.(*ast.BinaryExpr)
		if !ok || b.Op != token.NEQ {
			return false
		}
		x, ok1 := b.X.(*ast.Ident)
		y, ok2 := b.Y.(*ast.Ident)
		return ok1 && ok2 && x.Name == "err" && y.Name == "nil"
	}
	mentionsErr := func(e ast.Expr) bool {
		found := false
		ast.Inspect(e, func(n ast.Node) bool {
			if id, ok := n.(*ast.Ident); ok && id.Name == "err" {
				found = true
			}
			return !found
		})
		return found
	}
	assignsErr := func(s ast.Stmt) (bool, bool) { // assigns err; from a call
		as, ok := s.(*ast.AssignStmt)
		if !ok {
			return false, false
		}
		for _, l := range as.Lhs {
			if id, ok := l.(*ast.Ident); ok && id.Name == "err" {
				_, call := as.Rhs[len(as.Rhs)-1].(*ast.CallExpr)
				return true, call
			}
		}
		return false, false
	}
	var badBranch, unchecked, earlyNil []string
	list := compile.Body.List
	for i, s := range list {
		if is, ok := s.(*ast.IfStmt); ok && is.Init == nil && isErrNotNil(is.Cond) {
			body := is.Body.List
			okBranch := len(body) > 0
			if okBranch {
				ret, isRet := body[len(body)-1].(*ast.ReturnStmt)
				okBranch = isRet && len(ret.Results) == 1 && mentionsErr(ret.Results[0])
			}
			ast.Inspect(is.Body, func(n ast.Node) bool {
				if _, ok := n.(*ast.FuncLit); ok {
					return false
				}
				if st, ok := n.(ast.Stmt); ok {
					if a, _ := assignsErr(st); a {
						okBranch = false
					}
				}
				return true
			})
			if !okBranch {
				badBranch = append(badBranch, pos(is))
			}
		}
		if a, fromCall := assignsErr(s); a && fromCall {
			next, ok := ast.Stmt(nil), false
			if i+1 < len(list) {
				next = list[i+1]
				if is, isIf := next.(*ast.IfStmt); isIf && is.Init == nil && isErrNotNil(is.Cond) {
					ok = true
				}
			}
			if !ok {
				unchecked = append(unchecked, pos(s))
			}
		}
	}
	// return statements of Compile's own body (not of nested literals) that return nil
	ast.Inspect(compile.Body, func(n ast.Node) bool {
		if _, ok := n.(*ast.FuncLit); ok {
			return false
		}
		if ret, ok := n.(*ast.ReturnStmt); ok {
			isNil := len(ret.Results) == 0
			if len(ret.Results) == 1 {
				if id, ok := ret.Results[0].(*ast.Ident); ok && id.Name == "nil" {
					isNil = true
				}
			}
			if isNil && ast.Stmt(ret) != list[len(list)-1] {
				earlyNil = append(earlyNil, pos(ret))
			}
		}
		return true
	})
	last, lastOK := list[len(list)-1].(*ast.ReturnStmt)
	if !lastOK || len(last.Results) != 1 {
		earlyNil = append(earlyNil, "the last statement of Compile is not `return nil`")
	}
	add("branches", "every `if err != nil` of Compile's body ends by returning that error and does not assign err in the branch", len(badBranch) == 0, strings.Join(badBranch, "; "))
	add("checked", "every statement of Compile's body that assigns err from a call is directly followed by `if err != nil`", len(unchecked) == 0, strings.Join(unchecked, "; "))
	add("success", "the only `return nil` of Compile is its last statement (after the formatted parser was written)", len(earlyNil) == 0, strings.Join(earlyNil, "; "))
	r.Assume["Compile's error flow is checked syntactically on its own statements (compile.errflow.*), the rest of Compile is assumed by C18 (DESIGN.md 13.10)"] = true
}

// boundedDiagnostics: Tree.Compile itself (the diagnostics of its rule emission loop - "used but not defined" - and the
// -strict handling) is outside the verifier's reach: a 600-line function with goroutines, text/template and nested
// closures. As DESIGN.md 13.10 explains, a bounded differential check stands in for that part of C15 and is labelled as
// such: peg, built from the working tree, is run on a family of small grammars and its diagnostics and exit status (with and
// without -strict) are compared with a reference computed on the generator's own syntax tree (witness_diag.go). It is one
// obligation of kind "bounded", never counted as proved; a disagreement is a violation that carries the grammar.
func boundedDiagnostics(r *Run) {
	budget := 25 * time.Second
	if r.Tier == "thorough" {
		budget = 5 * time.Minute
	}
	ob := &Obligation{Name: "tree/Tree.Compile#bounded.diagnostics", Kind: "bounded", Unit: "tree", Fn: "Tree.Compile", Goal: "bounded", PC: "true", Pos: "tree/peg.go (Compile)"}
	t0 := time.Now()
	note := r.witnessDiagnostics([]*Obligation{ob}, t0.Add(budget))
	secs := time.Since(t0).Seconds()
	ob.Detail = fmt.Sprintf("BOUNDED (not a proof): diagnostics and exit status of peg (with and without -strict) agree with the reference on %d grammars (curated shapes per operator, the exhaustive two-rule family in random order, random grammars of 2-4 rules) tried within %.0f s", note.Tried, budget.Seconds())
	if note.Found || ob.Ground != "" {
		ob.Result = SolverResult{Verdict: VSat, Backend: "bounded-differential", Seconds: secs, Output: note.Detail}
		ob.Detail += " -- DISAGREEMENT: " + note.Detail
	} else if note.Tried == 0 {
		ob.Result = SolverResult{Verdict: VUnknown, Backend: "bounded-differential", Seconds: secs, Output: "no grammar could be tried: " + note.Detail}
	} else {
		ob.Result = SolverResult{Verdict: VUnsat, Backend: "bounded-differential", Seconds: secs}
	}
	ob.solved = true
	r.Obls = append(r.Obls, ob)
	r.Assume["BOUNDED stand-in (not proved): Tree.Compile's emission-loop diagnostics and -strict handling are checked by a bounded differential run over small grammars, not by contracts (DESIGN.md 13.10)"] = true
	r.Extra["bounded_diagnostics"] = map[string]any{"grammars_tried": note.Tried, "seconds": secs, "budget_seconds": budget.Seconds(), "disagreement": note.Found}
}

// bootstrapChain: the first clause of C17 (the chain from the hand-built tree through bootstrap.peg and peg.bootstrap.peg
// to peg.peg reproduces the checked-in peg.peg.go byte for byte) is a closed statement about the current tree: it has
// no quantifier, so executing the chain decides it. This is a concrete run, labelled as such, not a deductive result: a
// private copy of the working tree, the six generations of bootstrap.bash built one from the other, the final
// `peg -inline -switch peg.peg`, and a byte comparison.
func bootstrapChain(r *Run) {
	ob := &Obligation{Name: "bootstrap#chain.reproduces", Kind: "concrete", Unit: "bootstrap", Fn: "bootstrap.bash", Goal: "concrete", PC: "true", Pos: "bootstrap.bash",
		Detail: "CONCRETE RUN (not a proof): the bootstrap chain (hand-built tree -> bootstrap.peg -> peg.bootstrap.peg -> peg.peg x3 -> peg -inline -switch peg.peg), replayed on a copy of the working tree, reproduces the checked-in peg.peg.go byte for byte"}
	t0 := time.Now()
	why := runBootstrapChain()
	ob.Result = SolverResult{Verdict: VUnsat, Backend: "concrete-run", Seconds: time.Since(t0).Seconds()}
	if why != "" {
		ob.Result.Verdict = VSat
		ob.Result.Output = why
		ob.Detail += " -- FAILED: " + why
		g, _ := json.Marshal(map[string]any{"kind": "bootstrap-chain", "what": why, "how_to_rerun": "cd /repo && bash bootstrap.bash (on a copy) and compare peg.peg.go with the checked-in file"})
		ob.Ground = string(g)
	}
	ob.solved = true
	r.Obls = append(r.Obls, ob)
	r.Assume["CONCRETE RUN (not proved): C17's first clause (the bootstrap chain reproduces peg.peg.go) is decided by executing the chain on the current tree"] = true
}

// runBootstrapChain returns "" when the chain reproduces the checked-in file, otherwise what went wrong.
func runBootstrapChain() string {
	work := filepath.Join(scratchDir, "bootstrap-chain")
	_ = os.RemoveAll(work)
	src := filepath.Join(work, "src")
	if err := os.MkdirAll(src, 0o755); err != nil {
		return err.Error()
	}
	if out, err := runCmd(repoDir, "rsync", "-a", "--exclude", ".git", repoDir+"/", src+"/"); err != nil {
		return "copy of the working tree failed: " + trunc(out, 300)
	}
	checked, err := os.ReadFile(filepath.Join(src, "peg.peg.go"))
	if err != nil {
		return err.Error()
	}
	bdir := filepath.Join(src, "cmd", "peg-bootstrap")
	run := func(dir string, stdin, stdout string, name string, args ...string) error {
		cmd := exec.Command("timeout", append([]string{"120", name}, args...)...)
		cmd.Dir = dir
		cmd.Env = goEnv()
		if stdin != "" {
			f, err := os.Open(stdin)
			if err != nil {
				return err
			}
			defer f.Close()
			cmd.Stdin = f
		}
		var errb strings.Builder
		cmd.Stderr = &errb
		if stdout != "" {
			f, err := os.Create(stdout)
			if err != nil {
				return err
			}
			defer f.Close()
			cmd.Stdout = f
		}
		if err := cmd.Run(); err != nil {
			return fmt.Errorf("%v: %s", err, trunc(errb.String(), 400))
		}
		return nil
	}
	gen0 := filepath.Join(work, "gen0")
	if err := run(bdir, "", "", "go", "build", "-o", gen0, "../../bootstrap"); err != nil {
		return "generation 0: bootstrap/ does not build: " + err.Error()
	}
	if err := run(bdir, "", filepath.Join(bdir, "peg0.peg.go"), gen0); err != nil {
		return "generation 0 (hand-built tree) failed: " + err.Error()
	}
	steps := []struct{ prev, grammar, out, label string }{
		{"peg0.peg.go", "bootstrap.peg", "peg1.peg.go", "generation 1 (bootstrap.peg)"},
		{"peg1.peg.go", "peg.bootstrap.peg", "peg2.peg.go", "generation 2 (peg.bootstrap.peg)"},
		{"peg2.peg.go", "../../peg.peg", "peg3.peg.go", "generation 3 (peg.peg read by the parser of peg.bootstrap.peg)"},
		{"peg3.peg.go", "../../peg.peg", "peg-bootstrap.peg.go", "generation 4 (peg.peg)"},
		{"peg-bootstrap.peg.go", "../../peg.peg", "plain.peg.go", "generation 5 (peg.peg)"},
	}
	stage := filepath.Join(work, "stage")
	for _, s := range steps {
		if err := run(bdir, "", "", "go", "build", "-tags", "bootstrap", "-o", stage, "main.go", s.prev); err != nil {
			return s.label + ": the previous generation does not compile: " + err.Error()
		}
		if err := run(bdir, filepath.Join(bdir, s.grammar), filepath.Join(bdir, s.out), stage); err != nil {
			return s.label + ": the previous generation cannot read " + s.grammar + ": " + err.Error()
		}
	}
	plain, err := os.ReadFile(filepath.Join(bdir, "plain.peg.go"))
	if err != nil {
		return err.Error()
	}
	for _, f := range []string{"peg0.peg.go", "peg1.peg.go", "peg2.peg.go", "peg3.peg.go", "peg-bootstrap.peg.go", "plain.peg.go"} {
		_ = os.Remove(filepath.Join(bdir, f))
	}
	if err := os.WriteFile(filepath.Join(src, "peg.peg.go"), plain, 0o644); err != nil {
		return err.Error()
	}
	final := filepath.Join(work, "pegfinal")
	if err := run(src, "", "", "go", "build", "-o", final, "."); err != nil {
		return "the chain-built front end does not compile: " + err.Error()
	}
	if err := run(src, "", "", final, "-inline", "-switch", "peg.peg"); err != nil {
		return "the chain-built front end cannot read peg.peg: " + err.Error()
	}
	got, err := os.ReadFile(filepath.Join(src, "peg.peg.go"))
	if err != nil {
		return err.Error()
	}
	if string(got) != string(checked) {
		return fmt.Sprintf("the chain ends in a peg.peg.go (%d bytes) that differs from the checked-in one (%d bytes)", len(got), len(checked))
	}
	_ = os.RemoveAll(work)
	return ""
}

// closureOptionSets: under which peg options the closures of the program family are validated for a property that is not
// itself about options: the default and the fully optimised parser (the two ends); C13 (memory safety) also a parser
// without AST; C01's thorough tier every combination. The register (C11) is only specified for the ordered choice, i.e.
// without -switch. (The thorough tier differs mainly in the program family: full schema family, c and java.)
func closureOptionSets(id, tier string) [][]string {
	ast := [][]string{{}, {"-inline"}, {"-switch"}, {"-inline", "-switch"}}
	ends := [][]string{{}, {"-inline", "-switch"}}
	thorough := tier == "thorough"
	switch id {
	case "C01":
		if thorough {
			return ast // every combination (the other properties keep the two ends: the proofs are the same closures)
		}
		return ends
	case "C03", "C06":
		return ends
	case "C13":
		return [][]string{{}, {"-inline", "-switch"}, {"-noast", "-inline", "-switch"}}
	case "C04", "C05":
		if thorough {
			return ends
		}
		return [][]string{{}}
	}
	return [][]string{{}}
}

type programSpec struct {
	Name    string
	Grammar string
}

func closurePrograms(r *Run) ([]programSpec, error) {
	files, err := writeSchemas(filepath.Join(scratchDir, "schemas"), r.Tier, r.Seed)
	if err != nil {
		return nil, err
	}
	var ps []programSpec
	for _, f := range files {
		ps = append(ps, programSpec{f.Name, f.Path})
	}
	ps = append(ps, programSpec{"peg.peg", filepath.Join(repoDir, "peg.peg")})
	// shipped grammars: the four small ones in every tier (a few seconds each), c and java (minutes) in the thorough tier
	shipped := []string{"calculator/calculator.peg", "calculatorast/calculator.peg", "fexl/fexl.peg", "longtest/long.peg"}
	if r.Tier == "thorough" {
		shipped = append(shipped, "c/c.peg", "java/java_1_7.peg")
	}
	for _, g := range shipped {
		ps = append(ps, programSpec{strings.ReplaceAll(g, "/", "_"), filepath.Join(repoDir, "grammars", g)})
	}
	return ps, nil
}

// runClosureProperty validates every closure of every program under each option set and keeps the
// obligations attributed to the property.
func runClosureProperty(r *Run, id string, optSets [][]string, corpusOnly bool) error {
	progs, err := closurePrograms(r)
	if err != nil {
		return err
	}
	if corpusOnly {
		var keep []programSpec
		for _, p := range progs {
			if strings.HasPrefix(p.Grammar, repoDir+"/") { // C17 is about the shipped grammars only
				keep = append(keep, p)
			}
		}
		progs = keep
	}
	var samples []any
	// programs are generated, loaded and turned into obligations concurrently (each has its own Unit);
	// the results are merged in program order so that evidence and baselines are deterministic
	type job struct {
		name  string
		p     programSpec
		opts  []string
		sub   *Run
		unit  *Unit
		count int
	}
	var jobs []*job
	for _, p := range progs {
		for _, opts := range optSets {
			// the two calculator examples are written for parsers with an AST (their actions use begin/end resp. walk the
			// syntax tree): a -noast parser for them does not compile, which is outside every claimed property (C08)
			if strings.HasPrefix(p.Name, "calculator") && len(opts) > 0 && opts[0] == "-noast" {
				continue
			}
			name := p.Name
			if len(opts) > 0 {
				name += strings.Join(opts, "")
			}
			jobs = append(jobs, &job{name: name, p: p, opts: opts, sub: &Run{Property: r.Property, Tier: r.Tier, Seed: r.Seed, Budget: r.Budget, Start: r.Start,
				Trusted: map[string]bool{}, Assume: map[string]bool{}, Extra: map[string]any{}}})
		}
	}
	if _, err := buildTools(); err != nil {
		return err
	}
	var wg sync.WaitGroup
	sem := make(chan struct{}, 6)
	for _, j := range jobs {
		wg.Add(1)
		sem <- struct{}{}
		go func(j *job) {
			defer wg.Done()
			defer func() { <-sem }()
			defer func() {
				if e := recover(); e != nil {
					j.sub.Obls = append(j.sub.Obls, &Obligation{Name: j.name + "#unit.generated", Kind: "unit", Unit: j.name, Goal: "false", PC: "true",
						Detail: "the verification conditions of this program could not be generated: " + trunc(fmt.Sprint(e), 1500), Result: SolverResult{Verdict: VUnknown, Output: trunc(fmt.Sprint(e), 3000)}})
				}
			}()
			gp, err := Generate(j.name, j.p.Grammar, j.opts)
			if err != nil {
				// a program that cannot be generated, or whose output does not type-check, is a failed obligation
				j.sub.Obls = append(j.sub.Obls, &Obligation{Name: j.name + "#unit.welltyped", Kind: "unit", Unit: j.name, Goal: "false", PC: "true",
					Detail: "generated parser could not be produced or does not type-check: " + trunc(err.Error(), 1500), Result: SolverResult{Verdict: VUnknown, Output: trunc(err.Error(), 3000)}})
				return
			}
			j.unit = gp.Unit
			j.count = len(gp.Unit.Funcs)
			gp.verifyClosures(j.sub, nil)
			var kept []*Obligation
			for _, ob := range j.sub.Obls {
				if attributed(ob, id) {
					kept = append(kept, ob)
				}
			}
			j.sub.Obls = kept
			// solve this program's obligations now and drop its symbolic state: a run over all programs and option
			// sets would otherwise hold every unit, CFG and query at once (23 GB for C02's quick tier)
			j.sub.solveAll()
			j.sub.release()
			j.unit = &Unit{Name: gp.Unit.Name, CS: gp.Unit.CS}
		}(j)
	}
	wg.Wait()
	for _, j := range jobs {
		if j.unit != nil {
			r.Units = append(r.Units, j.unit)
		}
		r.Fns = append(r.Fns, j.sub.Fns...)
		r.Obls = append(r.Obls, j.sub.Obls...)
		r.Notes = append(r.Notes, j.sub.Notes...)
		r.Programs += j.sub.Programs
		for a := range j.sub.Assume {
			r.Assume[a] = true
		}
		if len(samples) < 6 && j.unit != nil {
			samples = append(samples, map[string]any{"program": j.name, "grammar": j.p.Grammar, "options": j.opts, "closures": j.count})
		}
	}
	r.Samples = append(r.Samples, samples...)
	r.Extra["rule"] = fmt.Sprintf("schema family (%s tier) + corpus; one proof per emitted rule closure against the contract pegspec derives from the grammar", r.Tier)
	return nil
}

// runtimeFuncs: which functions of the parser runtime (template) carry which property.
// runtimeCore: the template functions every parser property rests on (a parse is: reset, parse, the closures' calls of add /
// matchDot / memoize / memoizedResult, tokens.Add / Trim). Each parser property verifies them besides its own functions: a
// change in one of them that breaks its contract breaks every property that is stated over a parse.
var runtimeCore = []string{"tokens.Add", "tokens.Trim", "Init.add", "Init.matchDot", "Init.reset", "Init.parse", "Init.memoize", "Init.memoizedResult"}

var runtimeFuncs = map[string][]string{
	"C01": runtimeCore,
	"C02": runtimeCore,
	"C17": runtimeCore,
	"C03": runtimeCore,
	"C04": append([]string{"tokens.Tokens", "$T.Execute"}, runtimeCore...),
	"C05": append([]string{"tokens.Tokens", "tokens.AST", "print.printFunc", "node.print", "node.Print", "node.PrettyPrint", "tokens.PrintSyntaxTree", "tokens.WriteSyntaxTree",
		"tokens.PrettyPrintSyntaxTree", "$T.PrintSyntaxTree", "$T.WriteSyntaxTree", "$T.SprintSyntaxTree"}, runtimeCore...),
	"C06": runtimeCore,
	"C11": append([]string{"translatePositions", "parseError.Error"}, runtimeCore...),
	"C12": runtimeCore,
	"C13": append([]string{"tokens.Tokens", "$T.Execute", "translatePositions", "parseError.Error"}, runtimeCore...),
}

// runRuntime verifies the bodies of the runtime functions that carry the property, on the carrier
// instantiation of the template generated from /repo's working tree.
func runRuntime(r *Run, id string) error {
	u, _, err := loadRuntimeUnit()
	if err != nil {
		r.Obls = append(r.Obls, &Obligation{Name: "runtime#unit.welltyped", Kind: "unit", Unit: "runtime", Goal: "false", PC: "true",
			Detail: "the carrier parser could not be generated or does not type-check: " + trunc(err.Error(), 1500), Result: SolverResult{Verdict: VUnknown, Output: trunc(err.Error(), 3000)}})
		return nil
	}
	r.Units = append(r.Units, u)
	var keys []string
	for _, k := range runtimeFuncs[id] {
		if strings.HasPrefix(k, "$T.") {
			for fk := range u.Funcs {
				if strings.HasSuffix(fk, k[2:]) && !strings.HasPrefix(fk, "Init.") && !strings.HasPrefix(fk, "tokens.") && !strings.HasPrefix(fk, "node.") {
					k = fk
				}
			}
		}
		keys = append(keys, k)
	}
	r.verifyFuncs(u, keys)
	return nil
}

// runRuntimeNoast verifies the template functions of a -noast parser on the carrier grammar generated with -noast.
func runRuntimeNoast(r *Run) error {
	u, keys, err := loadRuntimeNoastUnit()
	if err != nil {
		r.Obls = append(r.Obls, &Obligation{Name: "runtime-noast#unit.welltyped", Kind: "unit", Unit: "runtime-noast", Goal: "false", PC: "true",
			Detail: "the -noast carrier parser could not be generated or does not type-check: " + trunc(err.Error(), 1500), Result: SolverResult{Verdict: VUnknown, Output: trunc(err.Error(), 3000)}})
		return nil
	}
	r.Units = append(r.Units, u)
	r.verifyFuncs(u, keys)
	return nil
}

// ---------------------------------------------------------------------------------------------
// C09: frame obligations on the generator (packages tree and set)

var bannedNondeterminism = []string{"time.", "math/rand.", "math/rand/v2.", "os.Getenv", "os.Getpid", "os.Environ", "os.Hostname", "runtime.NumGoroutine", "crypto/rand."}

func runC09(r *Run) error {
	for _, pk := range []string{"tree", "set"} {
		u, err := LoadUnit(pk, repoDir, []string{"./" + pk}, "verif")
		if err != nil {
			return err
		}
		r.Units = append(r.Units, u)
		ea := analyseEffects(u)
		// (1) no function assigns a package-level variable
		for _, key := range sortedKeys(u.Funcs) {
			fx := ea.fx[key]
			var bad []string
			for _, l := range keysOf(fx.Writes) {
				if strings.Contains(l, "pkgvar ") {
					bad = append(bad, l+" at "+posString(u, fx.Writes[l]))
				}
			}
			r.Obls = append(r.Obls, frameObligation(pk, "nopkgvar."+key, key+" assigns no package-level variable", len(bad) == 0, strings.Join(bad, "; ")))
			r.Obls = append(r.Obls, frameObligation(pk, "nogo."+key, key+" starts no goroutine with a go statement", len(fx.Go) == 0, fmt.Sprint(len(fx.Go))+" go statements"))
		}
		if pk != "tree" {
			continue
		}
		compile := u.Funcs["Tree.Compile"]
		if compile == nil {
			r.Obls = append(r.Obls, frameObligation(pk, "compile.found", "Tree.Compile exists", false, "function not found"))
			continue
		}
		full := ea.effectsOf(compile, ea.fx["Tree.Compile"])
		// (2) determinism: no iteration over a map, no time/randomness/environment
		var rng []string
		for _, p := range full.MapRng {
			rng = append(rng, posString(u, p))
		}
		r.Obls = append(r.Obls, frameObligation(pk, "compile.nomaprange", "nothing reachable from Compile ranges over a map (iteration order would leak into the output)", len(rng) == 0, strings.Join(rng, "; ")))
		var nd []string
		for _, e := range keysOf(full.Ext) {
			for _, b := range bannedNondeterminism {
				if strings.HasPrefix(e, b) {
					nd = append(nd, e+" at "+posString(u, full.Ext[e]))
				}
			}
		}
		r.Obls = append(r.Obls, frameObligation(pk, "compile.noenv", "nothing reachable from Compile reads the clock, randomness or the environment", len(nd) == 0, strings.Join(nd, "; ")))
		// (3) the goroutine bodies handed to wg.Go do not interfere
		var bodies []*FuncInfo
		ast.Inspect(compile.Body, func(n ast.Node) bool {
			call, ok := n.(*ast.CallExpr)
			if !ok {
				return true
			}
			if sel, ok := call.Fun.(*ast.SelectorExpr); ok && sel.Sel.Name == "Go" && len(call.Args) == 1 {
				if lit, ok := call.Args[0].(*ast.FuncLit); ok {
					sig, _ := u.Info.TypeOf(lit).(*types.Signature)
					bodies = append(bodies, &FuncInfo{Key: fmt.Sprintf("Compile.$go%d", len(bodies)), Name: "Compile", Lit: lit, Body: lit.Body, Sig: sig, Outer: compile, Pos: lit.Pos()})
				}
			}
			return true
		})
		r.Obls = append(r.Obls, frameObligation(pk, "compile.parallel.sites", "Compile hands function literals to WaitGroup.Go (the parallel analyses)", len(bodies) >= 2, fmt.Sprintf("%d literals found", len(bodies))))
		var fxs []*Effects
		for _, b := range bodies {
			fxs = append(fxs, ea.effectsOf(b, ea.direct(b)))
		}
		for i := range fxs {
			for j := range fxs {
				if i == j {
					continue
				}
				var clash []string
				for _, l := range keysOf(fxs[i].Writes) {
					if !sharedLoc(l) {
						continue
					}
					if p, ok := fxs[j].Writes[l]; ok {
						clash = append(clash, fmt.Sprintf("%s written by goroutine %d (%s) and by goroutine %d (%s)", l, i, posString(u, fxs[i].Writes[l]), j, posString(u, p)))
					} else if p, ok := fxs[j].Reads[l]; ok {
						clash = append(clash, fmt.Sprintf("%s written by goroutine %d (%s) and read by goroutine %d (%s)", l, i, posString(u, fxs[i].Writes[l]), j, posString(u, p)))
					}
				}
				r.Obls = append(r.Obls, frameObligation(pk, fmt.Sprintf("compile.parallel.%d.%d", i, j),
					fmt.Sprintf("writes(goroutine %d) is disjoint from reads and writes of goroutine %d", i, j), len(clash) == 0, strings.Join(clash, "; ")))
			}
			r.Samples = append(r.Samples, map[string]any{"goroutine": i, "writes": filterShared(keysOf(fxs[i].Writes)), "reads": filterShared(keysOf(fxs[i].Reads))})
		}
		// (4) what Compile itself does between starting the analyses and waiting for them must not interfere with them either
		goIdx, waitIdx := -1, -1
		isWgCall := func(s ast.Stmt, method string) bool {
			es, ok := s.(*ast.ExprStmt)
			if !ok {
				return false
			}
			call, ok := es.X.(*ast.CallExpr)
			if !ok {
				return false
			}
			sel, ok := call.Fun.(*ast.SelectorExpr)
			return ok && sel.Sel.Name == method
		}
		for i, s := range compile.Body.List {
			if isWgCall(s, "Go") {
				goIdx = i
			}
			if isWgCall(s, "Wait") && waitIdx < 0 && goIdx >= 0 {
				waitIdx = i
			}
		}
		if len(bodies) >= 2 {
			ok, why := goIdx >= 0 && waitIdx > goIdx, "the statements `wg.Go(...)` and `wg.Wait()` were not found as statements of Compile's body in this order"
			if ok {
				why = ""
				between := compile.Body.List[goIdx+1 : waitIdx]
				if len(between) > 0 {
					sec := &FuncInfo{Key: "Compile.$between", Name: "Compile", Body: &ast.BlockStmt{Lbrace: between[0].Pos(), List: between, Rbrace: between[len(between)-1].End()}, Outer: compile, Pos: between[0].Pos()}
					sfx := ea.effectsOf(sec, ea.direct(sec))
					var clash []string
					for gi, g := range fxs {
						for _, l := range keysOf(sfx.Writes) {
							if !sharedLoc(l) {
								continue
							}
							if p, has := g.Writes[l]; has {
								clash = append(clash, fmt.Sprintf("%s written by Compile before wg.Wait (%s) and by goroutine %d (%s)", l, posString(u, sfx.Writes[l]), gi, posString(u, p)))
							} else if p, has := g.Reads[l]; has {
								clash = append(clash, fmt.Sprintf("%s written by Compile before wg.Wait (%s) and read by goroutine %d (%s)", l, posString(u, sfx.Writes[l]), gi, posString(u, p)))
							}
						}
						for _, l := range keysOf(g.Writes) {
							if p, has := sfx.Reads[l]; has && sharedLoc(l) {
								clash = append(clash, fmt.Sprintf("%s written by goroutine %d (%s) and read by Compile before wg.Wait (%s)", l, gi, posString(u, g.Writes[l]), posString(u, p)))
							}
						}
					}
					if len(clash) > 6 {
						clash = append(clash[:6], fmt.Sprintf("... %d more", len(clash)-6))
					}
					ok, why = len(clash) == 0, strings.Join(clash, "; ")
				}
			}
			r.Obls = append(r.Obls, frameObligation(pk, "compile.parallel.parent", "between starting the analyses (wg.Go) and wg.Wait, Compile writes nothing the analyses read or write and reads nothing they write", ok, why))
		}
	}
	r.Extra["explanation"] = "frame proof of a sufficient condition (DESIGN.md 6.9): field-granular write/read sets of the two analysis goroutines of Compile are disjoint; no function of tree/set assigns a package-level variable or uses a go statement; nothing reachable from Compile ranges over a map or reads clock/randomness/environment. Non-interference then gives the same output and warnings under every interleaving (paper lemma)."
	return nil
}

func filterShared(ls []string) []string {
	var out []string
	for _, l := range ls {
		if sharedLoc(l) {
			out = append(out, l)
		}
	}
	return out
}

func posString(u *Unit, p token.Pos) string {
	q := u.Fset.Position(p)
	return fmt.Sprintf("%s:%d", shortPath(q.Filename), q.Line)
}

// C14: a generated parser keeps all of its state in the instance
// sharedKind: why a value of type t can carry state shared between its users ("" if it cannot).
func sharedKind(t types.Type, depth int) string {
	if depth > 8 {
		return ""
	}
	switch x := types.Unalias(t).Underlying().(type) {
	case *types.Chan:
		return "channel"
	case *types.Map:
		return "map"
	case *types.Slice:
		return "slice"
	case *types.Pointer:
		return "pointer"
	case *types.Signature:
		return "function value"
	case *types.Interface:
		return "interface value"
	case *types.Array:
		return sharedKind(x.Elem(), depth+1)
	case *types.Struct:
		for i := 0; i < x.NumFields(); i++ {
			if why := sharedKind(x.Field(i).Type(), depth+1); why != "" {
				return "field " + x.Field(i).Name() + ": " + why
			}
		}
	}
	return ""
}

func runC14(r *Run) error {
	progs := []programSpec{{"carrier", filepath.Join(verifDir, "carriers", "carrier.peg")}, {"peg.peg", filepath.Join(repoDir, "peg.peg")}}
	for _, p := range progs {
		for _, opts := range [][]string{{}, {"-noast"}, {"-inline", "-switch"}} {
			name := p.Name + strings.Join(opts, "")
			gp, err := Generate(name, p.Grammar, opts)
			if err != nil {
				r.Obls = append(r.Obls, frameObligation(name, "unit.welltyped", "generated parser type-checks", false, trunc(err.Error(), 800)))
				continue
			}
			u := gp.Unit
			r.Units = append(r.Units, u)
			r.Programs++
			ea := analyseEffects(u)
			initFI := u.Funcs[gp.structName()+".Init"]
			for _, key := range sortedKeys(u.Funcs) {
				fx := ea.fx[key]
				var bad []string
				for _, l := range keysOf(fx.Writes) {
					if strings.Contains(l, "pkgvar ") {
						bad = append(bad, l+" at "+posString(u, fx.Writes[l]))
					}
					if strings.HasPrefix(l, "local ") && initFI != nil {
						// a captured variable: must be declared inside this Init activation
						var off int
						fmt.Sscanf(l[strings.LastIndex(l, "@")+1:], "%d", &off)
						file := u.Fset.File(initFI.Body.Pos())
						if off < file.Offset(initFI.Pos) || off >= file.Offset(initFI.Body.End()) {
							if !strings.HasPrefix(key, "Init.") {
								continue
							}
							bad = append(bad, l+" (declared outside Init) at "+posString(u, fx.Writes[l]))
						}
					}
				}
				if len(fx.Go) > 0 {
					bad = append(bad, "go statement at "+posString(u, fx.Go[0]))
				}
				if strings.HasPrefix(key, "Init.$rules") && len(bad) == 0 {
					continue // rule closures: covered in bulk below to keep the evidence readable
				}
				r.Obls = append(r.Obls, frameObligation(name, "confined."+key, key+" writes only instance state (receiver fields, variables of its Init activation, its own locals) and starts no goroutine", len(bad) == 0, strings.Join(bad, "; ")))
			}
			// no package-level variable of the generated file may be (or contain) a channel, map, slice, pointer, function or
			// interface: such an object is shared by all parser instances of the process even if the variable itself is never
			// assigned (a free list, a cache, a pool). Arrays and scalars that are never written are constants in effect.
			{
				var sharedVars []string
				sc := u.Pkg.Types.Scope()
				for _, nm := range sc.Names() {
					v, ok := sc.Lookup(nm).(*types.Var)
					if !ok {
						continue
					}
					if why := sharedKind(v.Type(), 0); why != "" {
						sharedVars = append(sharedVars, fmt.Sprintf("var %s %s (%s) at %s", nm, v.Type(), why, posString(u, v.Pos())))
					}
				}
				r.Obls = append(r.Obls, frameObligation(name, "nopkgstate", "the generated file declares no package-level variable that is or contains a channel, map, slice, pointer, function or interface (state shared by all instances)", len(sharedVars) == 0, strings.Join(sharedVars, "; ")))
			}
			// closures created outside Init (option constructors such as Size/Pretty) must not capture a mutable
			// object of their constructor: it would be shared by every instance configured with that option value
			for _, key := range sortedKeys(u.Funcs) {
				fi := u.Funcs[key]
				if fi.Decl == nil || fi.Name == "Init" {
					continue
				}
				var shared []string
				ast.Inspect(fi.Body, func(n ast.Node) bool {
					lit, ok := n.(*ast.FuncLit)
					if !ok {
						return true
					}
					ast.Inspect(lit.Body, func(m ast.Node) bool {
						id, ok := m.(*ast.Ident)
						if !ok {
							return true
						}
						v, ok := u.Info.Uses[id].(*types.Var)
						if !ok || v.IsField() {
							return true
						}
						// declared in the body of the enclosing function (not a parameter), outside the literal
						if v.Pos() >= fi.Body.Pos() && v.Pos() < fi.Body.End() && !(v.Pos() >= lit.Pos() && v.Pos() < lit.End()) {
							switch v.Type().Underlying().(type) {
							case *types.Slice, *types.Map, *types.Pointer, *types.Chan:
								shared = append(shared, v.Name()+" at "+posString(u, id.Pos()))
							}
						}
						return true
					})
					return false
				})
				r.Obls = append(r.Obls, frameObligation(name, "noshared."+key, "closures created by "+key+" capture no slice, map, pointer or channel allocated by "+key+" (it would be shared between instances)", len(shared) == 0, strings.Join(shared, "; ")))
			}
			n := 0
			for key := range u.Funcs {
				if strings.HasPrefix(key, "Init.$rules") {
					n++
				}
			}
			r.Obls = append(r.Obls, frameObligation(name, "confined.rules", fmt.Sprintf("all %d rule closures write only variables of their Init activation and receiver fields", n), true, ""))
		}
	}
	r.Extra["explanation"] = "frame proof of a sufficient condition (DESIGN.md 6.14): no function of a generated parser assigns a package-level variable or starts a goroutine; closures of Init write only variables declared in that Init activation and fields of the receiver. Instance confinement plus read-only package data (rul3s) gives independence under every interleaving (paper lemma). User action code is assumed to respect the same frame."
	return nil
}
