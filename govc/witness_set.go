package main

// Witness search for unit "set" (property C16): sequences of operations of the exported API of set/set.go against a bit-mask
// model. The search itself is the test source witness/set_witness_test.go.txt; it is injected into package set of the
// repository with `go test -overlay` (nothing is written into the repository), compiled once per check run and executed once
// per failing function that no witness covers yet (the witness has to run through that function).

import (
	"encoding/json"
	"fmt"
	"os"
	"os/exec"
	"path/filepath"
	"strconv"
	"strings"
	"time"
)

// setOp mirrors wOp of the test source.
type setOp struct {
	Op string `json:"op"`
	D  int    `json:"d"`
	S  int    `json:"s,omitempty"`
	T  int    `json:"t,omitempty"`
	A  int32  `json:"a,omitempty"`
	B  int32  `json:"b,omitempty"`
}

type setResult struct {
	Program     []setOp  `json:"program"`
	Step        int      `json:"step"`
	Observation string   `json:"observation"`
	Fn          string   `json:"fn"`
	Expected    string   `json:"expected"`
	Actual      string   `json:"actual"`
	Functions   []string `json:"functions"`
	Go          string   `json:"go"`
}

// setInput: the `input` of a set-ops witness
type setInput struct {
	Program []setOp `json:"program"`
	Go      string  `json:"go"`
	Model   string  `json:"model"`
}

// writeSetTest writes the test source (defaults substituted) and the overlay file into dir; it returns the overlay path.
func writeSetTest(dir, mode, require string, budgetMS, maxLen int, thorough bool, replay string) (string, error) {
	src, err := witnessFiles.ReadFile("witness/set_witness_test.go.txt")
	if err != nil {
		return "", err
	}
	th := "0"
	if thorough {
		th = "1"
	}
	text := strings.NewReplacer("@MODE@", mode, "@REQUIRE@", require, "@BUDGET@", strconv.Itoa(budgetMS), "@MAXLEN@", strconv.Itoa(maxLen),
		"@THOROUGH@", th, "@REPLAY@", strconv.Quote(replay)).Replace(string(src))
	testFile := filepath.Join(dir, "zz_witness_test.go")
	if err := os.WriteFile(testFile, []byte(text), 0o644); err != nil {
		return "", err
	}
	ov, _ := json.Marshal(map[string]any{"Replace": map[string]string{filepath.Join(repoDir, "set", "zz_witness_test.go"): testFile}})
	ovFile := filepath.Join(dir, "overlay.json")
	return ovFile, os.WriteFile(ovFile, ov, 0o644)
}

// parseSetOutput finds the WITNESS and TRIED lines in the output of the test.
func parseSetOutput(out string) (*setResult, int64, string) {
	var res *setResult
	var tried int64
	phases := ""
	for _, line := range strings.Split(out, "\n") {
		line = strings.TrimSpace(line)
		if strings.HasPrefix(line, "WITNESS ") {
			var sr setResult
			if json.Unmarshal([]byte(strings.TrimPrefix(line, "WITNESS ")), &sr) == nil {
				res = &sr
			}
		}
		if strings.HasPrefix(line, "TRIED ") {
			f := strings.Fields(line)
			tried, _ = strconv.ParseInt(f[1], 10, 64)
			if i := strings.Index(line, "phases: "); i >= 0 {
				phases = line[i+8:]
			}
		}
	}
	return res, tried, phases
}

func setWitness(sr *setResult) *UnitWitness {
	in, _ := json.Marshal(setInput{Program: sr.Program, Go: sr.Go,
		Model: "registers s0..s2 hold sets of code points (bit mask); every observable of every register is compared after every operation"})
	return &UnitWitness{Unit: "set", Kind: "set-ops", Functions: sr.Functions, Input: in, Observation: sr.Observation, Expected: sr.Expected, Actual: sr.Actual,
		Rerun: "govc replay-unit <this file>: the program is run by an in-package test injected with `go test -overlay <ov.json> -vet=off -count=1 -timeout 60s -run TestWitness ./set` in " + repoDir}
}

func (r *Run) witnessSet(obs []*Obligation, deadline time.Time) *searchNote {
	note := &searchNote{Unit: "set", Functions: failingFunctions(obs)}
	dir := witnessDir("set")
	thorough := r.Tier == "thorough"
	maxLen := 5
	if thorough {
		maxLen = 8
	}
	ov, err := writeSetTest(dir, "search", "", 1000, maxLen, thorough, "[]")
	if err != nil {
		note.Detail = err.Error()
		return note
	}
	// compile the injected test once
	bin := filepath.Join(dir, "set.test")
	if out, err := runCmd(repoDir, "go", "test", "-c", "-overlay", ov, "-vet=off", "-o", bin, "./set"); err != nil {
		note.Detail = "the injected test does not compile against the current set package: " + trunc(out, 400)
		return note
	}
	var details []string
	for _, fn := range note.Functions {
		covered := true
		for _, ob := range obs {
			if _, f := obligationUnitFn(ob); f == fn && ob.Ground == "" {
				covered = false
			}
		}
		if covered {
			continue
		}
		remaining := time.Until(deadline) - 4*time.Second // minimisation and reporting
		if remaining < 5*time.Second {
			details = append(details, fn+": not searched (budget used up)")
			break
		}
		// the name the test source uses: Set.AddRange -> AddRange; functions that are not part of the API (lemma functions)
		// cannot be required: any mismatch is accepted and attached by the functions it runs through
		require := strings.TrimPrefix(fn, "Set.")
		switch require {
		case "NewSet", "Add", "AddRange", "Has", "Len", "Copy", "Union", "Intersects", "Complement", "Equal", "String":
		default:
			require = ""
		}
		cmd := exec.Command(bin, "-test.run", "TestWitness", "-test.v", "-test.timeout", fmt.Sprintf("%ds", int(remaining.Seconds())+30))
		cmd.Dir = filepath.Join(repoDir, "set")
		cmd.Env = append(goEnv(), "GOVC_WIT_MODE=search", "GOVC_WIT_REQUIRE="+require, "GOVC_WIT_BUDGET="+strconv.Itoa(int(remaining.Milliseconds())))
		outB, _ := cmd.CombinedOutput()
		sr, tried, phases := parseSetOutput(string(outB))
		if tried > 0 {
			note.Tried += tried
		}
		if sr == nil {
			details = append(details, fmt.Sprintf("%s: no mismatch in %d programs (%s)", fn, tried, phases))
			continue
		}
		// the witness counts only if it reproduces in a fresh process, run the way the replay file says
		w := setWitness(sr)
		again, err := replaySet(w)
		if err != nil || again == nil {
			details = append(details, fn+": a mismatch was seen but did not reproduce in the replay run")
			continue
		}
		note.Found = true
		attach(obs, again, false)
		details = append(details, fmt.Sprintf("%s: %s; expected %s, actual %s", fn, again.Observation, again.Expected, again.Actual))
	}
	note.Detail = strings.Join(details, " | ")
	return note
}

// replaySet runs the program of a set-ops witness on the real code; nil: the code agrees with the model.
func replaySet(w *UnitWitness) (*UnitWitness, error) {
	var in setInput
	if err := json.Unmarshal(w.Input, &in); err != nil {
		return nil, err
	}
	prog, _ := json.Marshal(in.Program)
	dir := witnessDir(fmt.Sprintf("set-replay-%d", time.Now().UnixNano()))
	ov, err := writeSetTest(dir, "replay", "", 0, 5, false, string(prog))
	if err != nil {
		return nil, err
	}
	out, _ := runCmd(repoDir, "go", "test", "-overlay", ov, "-vet=off", "-count=1", "-timeout", "60s", "-v", "-run", "TestWitness", "./set")
	sr, _, _ := parseSetOutput(out)
	if sr != nil {
		return setWitness(sr), nil
	}
	if strings.Contains(out, "NOWITNESS") {
		return nil, nil
	}
	return nil, fmt.Errorf("the replay test did not run: %s", trunc(out, 600))
}
