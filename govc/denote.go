package main

// Property C10, part 4: denotation. Parts 1-3 (builder.go) show that the builder is a stack machine, that the escape table is
// right and that every derivation of peg.peg keeps the stack discipline. None of them ties a CONSTRUCT of the documented
// syntax to the builder calls that give it its documented meaning: `[[^a-c]]` built with the case-sensitive range builder
// keeps every one of those checks happy. This file adds that association, in two layers:
//
//  A. bounded, every construct (denote.go): a systematic family of grammars is written FROM THE DOCUMENTATION
//     (docs/peg-file-syntax.md and the wording of the property): a syntax tree per construct, a printer (the documented
//     spelling, with the documented precedence deciding where parentheses are needed) and a denotation function (the
//     documented meaning, as a tree). Each text of the family is run through
//        - a small PEG interpreter over the rule tree of peg.peg (ordered choice, greedy repetition, lookaheads discard
//          what they recorded, `text` = the last completed capture: the semantics of DESIGN.md section 4 / property C04),
//          which yields the builder calls of the derivation with their `text`, and
//        - an abstract stack machine whose instructions are READ OFF THE PROVED CONTRACTS of the builder methods
//          (tree/contracts_verif.go: leaf / addFixPost / addListPost / the two-case forms / AddState / AddExpression),
//     and the tree obtained is compared with the denotation (modulo the associativity of sequence and ordered choice, which
//     addList's flattening uses). A coverage obligation closes the family: every action and every non-terminal alternative
//     of peg.peg is exercised by an accepted member, so no builder call of peg.peg lies outside what was compared.
//  B. unbounded, case and negation (denotestatic.go): an abstract interpretation of the regions of peg.peg delimited by the
//     documented delimiters (' ' , " " , [ ] , [[ ]]) over ALL derivations.
//
// Every check is an obligation pegpeg#denote.<what> (kind "lemma", backend "text-analysis").

import (
	"fmt"
	"os"
	"path/filepath"
	"sort"
	"strconv"
	"strings"
)

// ---------------------------------------------------------------------------------------------
// A.1 the builder methods as instructions of an abstract stack machine, read off their contracts

// bshape: what a builder method does to (operand stack, finished items), as its contract states it.
type bshape struct {
	Kind  string // leaf, num, fin, fix, list, dchar, drange, state, expr
	Type  string // node type built (without the prefix "Type")
	Arg   string // leaf/fin: "param" (the string parameter), "const" (Const)
	Const string // leaf: the constant text; fin: a constant prefix put before the parameter
	Base  int    // num: digits(text, Base) && numval(text, Base) <= Max ==> the character with that code point
	Max   int64
}

func (s bshape) String() string {
	switch s.Kind {
	case "leaf", "fin":
		a := "text"
		if s.Arg == "const" {
			a = strconv.Quote(s.Const)
		} else if s.Const != "" {
			a = strconv.Quote(s.Const) + "+text"
		}
		return fmt.Sprintf("%s %s(%s)", s.Kind, s.Type, a)
	case "num":
		return fmt.Sprintf("leaf Character(code point of base-%d text)", s.Base)
	}
	return s.Kind + " " + s.Type
}

// squeeze removes the blanks of a contract text outside string literals.
func squeeze(s string) string {
	var sb strings.Builder
	inStr := false
	for i := 0; i < len(s); i++ {
		c := s[i]
		if inStr {
			sb.WriteByte(c)
			if c == '\\' && i+1 < len(s) {
				i++
				sb.WriteByte(s[i])
			} else if c == '"' {
				inStr = false
			}
			continue
		}
		if c == ' ' || c == '\t' || c == '\n' {
			continue
		}
		if c == '"' {
			inStr = true
		}
		sb.WriteByte(c)
	}
	return sb.String()
}

func isIdentByte(c byte) bool {
	return c == '_' || (c >= '0' && c <= '9') || (c >= 'a' && c <= 'z') || (c >= 'A' && c <= 'Z')
}

// callsOf: the argument lists of every application fn(...) in a squeezed contract text.
func callsOf(text, fn string) [][]string {
	var out [][]string
	for i := 0; i+len(fn) < len(text); i++ {
		if !strings.HasPrefix(text[i:], fn+"(") || (i > 0 && (isIdentByte(text[i-1]) || text[i-1] == '.')) {
			continue
		}
		j := i + len(fn) + 1
		depth, start, inStr := 1, j, false
		var args []string
		for ; j < len(text) && depth > 0; j++ {
			c := text[j]
			if inStr {
				if c == '\\' {
					j++
				} else if c == '"' {
					inStr = false
				}
				continue
			}
			switch c {
			case '"':
				inStr = true
			case '(':
				depth++
			case ')':
				depth--
				if depth == 0 {
					args = append(args, text[start:j])
				}
			case ',':
				if depth == 1 {
					args = append(args, text[start:j])
					start = j + 1
				}
			}
		}
		out = append(out, args)
	}
	return out
}

// shapeOf reads the instruction a builder method is off the postconditions of its (verified) contract.
func shapeOf(cs *ContractSet, method string) (bshape, error) {
	fc := cs.Funcs["Tree."+method]
	if fc == nil {
		return bshape{}, fmt.Errorf("builder method %s has no contract", method)
	}
	var parts []string
	for _, c := range fc.Ensures {
		parts = append(parts, c.Text)
	}
	ens := squeeze(strings.Join(parts, " && "))
	eff, err := effectOf(cs, method)
	if err != nil {
		return bshape{}, err
	}
	ty := func(s string) string { return strings.TrimPrefix(s, "Type") }
	has := func(s string) bool { return strings.Contains(ens, squeeze(s)) }
	if a := callsOf(ens, "addFixPost"); len(a) == 1 && len(a[0]) == 2 && a[0][0] == "t" {
		return bshape{Kind: "fix", Type: ty(a[0][1])}, nil
	}
	if a := callsOf(ens, "addListPost"); len(a) == 1 && len(a[0]) == 2 && a[0][0] == "t" {
		return bshape{Kind: "list", Type: ty(a[0][1])}, nil
	}
	leaves := map[string][]string{} // first argument of leaf(...) -> [type, text]
	for _, a := range callsOf(ens, "leaf") {
		if len(a) == 3 {
			leaves[a[0]] = []string{ty(a[1]), a[2]}
		}
	}
	twoCase := has("pair(opnd(t, 0), TypeAlternate, opnd(t, 0).front, opnd(t, 0).back)") && eff.Finished == 0
	// AddDoubleCharacter: Alternate(Character lower(text), Character upper(text))
	if f, b := leaves["opnd(t,0).front"], leaves["opnd(t,0).back"]; twoCase && f != nil && b != nil && eff.Delta == 1 {
		if f[0] == "Character" && b[0] == "Character" && f[1] == "lower(text)" && b[1] == "upper(text)" {
			return bshape{Kind: "dchar", Type: "Alternate"}, nil
		}
	}
	// AddDoubleRange: Alternate(Range(lower b, lower a), Range(upper b, upper a)), b below a
	if twoCase && eff.Delta == -1 && eff.Need == 2 {
		ok := 0
		for _, a := range callsOf(ens, "rangeOf") {
			if len(a) != 3 {
				continue
			}
			if a[0] == "opnd(t,0).front" && a[1] == "lower(old(opnd(t,1).string))" && a[2] == "lower(old(opnd(t,0).string))" {
				ok |= 1
			}
			if a[0] == "opnd(t,0).back" && a[1] == "upper(old(opnd(t,1).string))" && a[2] == "upper(old(opnd(t,0).string))" {
				ok |= 2
			}
		}
		if ok == 3 {
			return bshape{Kind: "drange", Type: "Alternate"}, nil
		}
	}
	// AddState / AddExpression
	if l := leaves["old(opnd(t,0)).back"]; l != nil && l[1] == "text" && eff.Delta == -1 && eff.Finished == 1 &&
		has("elem(t, t.lo) == old(opnd(t, 0))") && has("appended(old(opnd(t, 0)), old(opnd(t, 0)).back)") {
		return bshape{Kind: "state", Type: l[0]}, nil
	}
	if eff.Delta == -2 && eff.Finished == 1 && has("elem(t, t.lo) == old(opnd(t, 1))") && has("appended(old(opnd(t, 1)), old(opnd(t, 0)))") {
		return bshape{Kind: "expr"}, nil
	}
	argOf := func(a string) (bshape, bool) {
		switch {
		case a == "text" || a == "name":
			return bshape{Arg: "param"}, true
		case strings.HasPrefix(a, `"`) && strings.HasSuffix(a, `"+text`):
			if c, err := strconv.Unquote(strings.TrimSuffix(a, "+text")); err == nil {
				return bshape{Arg: "param", Const: c}, true
			}
		case strings.HasPrefix(a, `"`):
			if c, err := strconv.Unquote(a); err == nil {
				return bshape{Arg: "const", Const: c}, true
			}
		}
		return bshape{}, false
	}
	if l := leaves["opnd(t,0)"]; l != nil && eff.Delta == 1 && eff.Finished == 0 && eff.Need == 0 {
		if l[1] == "opnd(t,0).string" && l[0] == "Character" {
			// digits(text, B) && numval(text, B) <= MAX ==> opnd(t, 0).string == strOfRune(numval(text, B))
			for _, base := range []int{8, 16} {
				b := strconv.Itoa(base)
				pre, post := "digits(text,"+b+")&&numval(text,"+b+")<=", "==>opnd(t,0).string==strOfRune(numval(text,"+b+"))"
				if i := strings.Index(ens, pre); i >= 0 {
					rest := ens[i+len(pre):]
					if j := strings.Index(rest, post); j >= 0 {
						lim := rest[:j]
						if c, ok := cs.Consts[lim]; ok {
							lim = c
						}
						if mx, err := strconv.ParseInt(lim, 10, 64); err == nil {
							return bshape{Kind: "num", Type: "Character", Base: base, Max: mx}, nil
						}
					}
				}
			}
		} else if s, ok := argOf(l[1]); ok {
			s.Kind, s.Type = "leaf", l[0]
			return s, nil
		}
	}
	if l := leaves["elem(t,t.lo)"]; l != nil && eff.Delta == 0 && eff.Finished == 1 {
		if s, ok := argOf(l[1]); ok {
			s.Kind, s.Type = "fin", l[0]
			return s, nil
		}
	}
	return bshape{}, fmt.Errorf("the contract of %s states no shape the abstract builder understands", method)
}

// dnode: a node of the grammar tree as the contracts describe it (type, text, children).
type dnode struct {
	T    string
	S    string
	Kids []*dnode
}

func dn(t, s string, kids ...*dnode) *dnode { return &dnode{T: t, S: s, Kids: kids} }

// textual: the node types whose text is part of the meaning
var textual = map[string]bool{"Rule": true, "Name": true, "Character": true, "Action": true, "Predicate": true, "StateChange": true, "Package": true,
	"Import": true, "Peg": true, "State": true, "Comment": true, "Space": true}

func (d *dnode) String() string {
	s := d.T
	if textual[d.T] {
		s += " " + strconv.QuoteToGraphic(d.S)
	}
	if len(d.Kids) > 0 {
		var ks []string
		for _, k := range d.Kids {
			ks = append(ks, k.String())
		}
		s += "(" + strings.Join(ks, ", ") + ")"
	}
	return s
}

// norm: sequence and ordered choice are associative; addList flattens a list into a list of the same type on its left.
func (d *dnode) norm() *dnode {
	out := &dnode{T: d.T, S: d.S}
	if !textual[d.T] {
		out.S = ""
	}
	for _, k := range d.Kids {
		k = k.norm()
		if (d.T == "Sequence" || d.T == "Alternate") && k.T == d.T {
			out.Kids = append(out.Kids, k.Kids...)
		} else {
			out.Kids = append(out.Kids, k)
		}
	}
	return out
}

func listString(ds []*dnode) string {
	var ss []string
	for _, d := range ds {
		ss = append(ss, d.norm().String())
	}
	return strings.Join(ss, "; ")
}

// bmachine: operand stack + finished items
type bmachine struct {
	shapes map[string]bshape
	stack  []*dnode
	fin    []*dnode
	calls  []string
	err    string
}

func (m *bmachine) pop() *dnode {
	if len(m.stack) == 0 {
		if m.err == "" {
			m.err = "operand stack underflow"
		}
		return dn("Unknown", "")
	}
	x := m.stack[len(m.stack)-1]
	m.stack = m.stack[:len(m.stack)-1]
	return x
}

func (m *bmachine) apply(method, arg string) {
	sh, ok := m.shapes[method]
	if !ok {
		if m.err == "" {
			m.err = "builder method " + method + " has no shape"
		}
		return
	}
	switch sh.Kind {
	case "leaf":
		s := sh.Const + arg
		if sh.Arg == "const" {
			s = sh.Const
		}
		m.stack = append(m.stack, dn(sh.Type, s))
	case "num":
		v, err := strconv.ParseInt(arg, sh.Base, 64)
		if err != nil || v > sh.Max || strings.ContainsAny(arg, "+-_") {
			m.stack = append(m.stack, dn("Character", "<unspecified by the contract: "+arg+">"))
		} else {
			m.stack = append(m.stack, dn("Character", string(rune(v))))
		}
	case "fin":
		m.fin = append(m.fin, dn(sh.Type, sh.Const+arg))
	case "fix":
		x := m.pop()
		m.stack = append(m.stack, dn(sh.Type, "", x))
	case "list":
		a := m.pop()
		b := m.pop()
		if b.T == sh.Type {
			b.Kids = append(b.Kids, a)
			m.stack = append(m.stack, b)
		} else {
			m.stack = append(m.stack, dn(sh.Type, "", b, a))
		}
	case "dchar":
		// lower / upper: the case mappings of strings.ToLower / ToUpper (assumption B-A1 of the contracts)
		m.stack = append(m.stack, dn("Alternate", "", dn("Character", strings.ToLower(arg)), dn("Character", strings.ToUpper(arg))))
	case "drange":
		a := m.pop()
		b := m.pop()
		m.stack = append(m.stack, dn("Alternate", "",
			dn("Range", "", dn("Character", strings.ToLower(b.S)), dn("Character", strings.ToLower(a.S))),
			dn("Range", "", dn("Character", strings.ToUpper(b.S)), dn("Character", strings.ToUpper(a.S)))))
	case "state":
		x := m.pop()
		x.Kids = append(x.Kids, dn(sh.Type, arg))
		m.fin = append(m.fin, x)
	case "expr":
		e := m.pop()
		r := m.pop()
		r.Kids = append(r.Kids, e)
		m.fin = append(m.fin, r)
	}
}

// parseAction: the statements of an action of peg.peg: p.AddX(), p.AddX(text), p.AddX("go string literal")
type bcall struct {
	Method  string
	UseText bool
	Const   string
	HasArg  bool
}

func parseAction(text string) ([]bcall, error) {
	var out []bcall
	for _, stmt := range strings.Split(text, ";") {
		stmt = strings.TrimSpace(stmt)
		if stmt == "" {
			continue
		}
		m := reAddCall.FindStringSubmatch(stmt)
		if m == nil {
			return nil, fmt.Errorf("action statement %q is not a call of a builder method", stmt)
		}
		c := bcall{Method: m[1]}
		switch a := strings.TrimSpace(m[2]); {
		case a == "":
		case a == "text":
			c.UseText, c.HasArg = true, true
		default:
			s, err := strconv.Unquote(a)
			if err != nil {
				return nil, fmt.Errorf("argument %s of %s is neither text nor a Go string literal", a, m[1])
			}
			c.Const, c.HasArg = s, true
		}
		out = append(out, c)
	}
	return out, nil
}

// ---------------------------------------------------------------------------------------------
// A.2 a PEG interpreter over the rule tree of peg.peg

type pevent struct {
	Kind byte // 'a' action, 'c' capture completed, 'b' alternative taken
	N    *PNode
	Idx  int
	Text string
	Rule string
}

type pegInterp struct {
	rules  map[string]*PNode
	start  string
	in     []rune
	ev     []pevent
	steps  int
	far    int // farthest position at which a terminal was tried (for the witness of a rejected text)
	err    string
	active []string
}

func newPegInterp(top []*PNode) *pegInterp {
	pi := &pegInterp{rules: map[string]*PNode{}}
	for _, n := range top {
		if n.TypeName == "Rule" && len(n.Kids) > 0 {
			if pi.start == "" {
				pi.start = n.Str
			}
			if _, dup := pi.rules[n.Str]; !dup {
				pi.rules[n.Str] = n.Kids[0]
			}
		}
	}
	return pi
}

func (pi *pegInterp) rule() string {
	if len(pi.active) == 0 {
		return ""
	}
	return pi.active[len(pi.active)-1]
}

// match: the position after n matched at pos, or false. Events recorded by a failed attempt are dropped.
func (pi *pegInterp) match(n *PNode, pos int) (int, bool) {
	pi.steps++
	if pi.steps > 20_000_000 {
		if pi.err == "" {
			pi.err = "step budget of the interpreter exhausted"
		}
		return pos, false
	}
	mark := len(pi.ev)
	fail := func() (int, bool) {
		pi.ev = pi.ev[:mark]
		return pos, false
	}
	switch n.TypeName {
	case "Character", "String":
		pi.far = max(pi.far, pos)
		rs := []rune(n.Str)
		if pos+len(rs) > len(pi.in) {
			return fail()
		}
		for i, r := range rs {
			if pi.in[pos+i] != r {
				return fail()
			}
		}
		return pos + len(rs), true
	case "Dot":
		pi.far = max(pi.far, pos)
		if pos >= len(pi.in) {
			return fail()
		}
		return pos + 1, true
	case "Range":
		pi.far = max(pi.far, pos)
		if pos >= len(pi.in) || len(n.Kids) != 2 {
			return fail()
		}
		lo, hi := []rune(n.Kids[0].Str), []rune(n.Kids[1].Str)
		if len(lo) != 1 || len(hi) != 1 || pi.in[pos] < lo[0] || pi.in[pos] > hi[0] {
			return fail()
		}
		return pos + 1, true
	case "Name":
		body, ok := pi.rules[n.Str]
		if !ok {
			if pi.err == "" {
				pi.err = "rule " + n.Str + " is not defined"
			}
			return fail()
		}
		pi.active = append(pi.active, n.Str)
		p, ok := pi.match(body, pos)
		pi.active = pi.active[:len(pi.active)-1]
		if !ok {
			return fail()
		}
		return p, true
	case "Sequence":
		p := pos
		for _, k := range n.Kids {
			var ok bool
			if p, ok = pi.match(k, p); !ok {
				return fail()
			}
		}
		return p, true
	case "Alternate", "UnorderedAlternate":
		for i, k := range n.Kids {
			if p, ok := pi.match(k, pos); ok {
				pi.ev = append(pi.ev, pevent{Kind: 'b', N: n, Idx: i})
				return p, true
			}
		}
		return fail()
	case "Query":
		if p, ok := pi.match(n.Kids[0], pos); ok {
			return p, true
		}
		return pos, true
	case "Star", "Plus":
		p, cnt := pos, 0
		for {
			q, ok := pi.match(n.Kids[0], p)
			if !ok {
				break
			}
			cnt++
			if q == p {
				break // no progress: the generated loop would not terminate; one round is recorded
			}
			p = q
		}
		if n.TypeName == "Plus" && cnt == 0 {
			return fail()
		}
		return p, true
	case "PeekFor", "PeekNot":
		_, ok := pi.match(n.Kids[0], pos)
		pi.ev = pi.ev[:mark] // what a lookahead recorded is discarded
		if ok == (n.TypeName == "PeekFor") {
			return pos, true
		}
		return pos, false
	case "Push", "ImplicitPush":
		p, ok := pi.match(n.Kids[0], pos)
		if !ok {
			return fail()
		}
		if n.TypeName == "Push" {
			pi.ev = append(pi.ev, pevent{Kind: 'c', N: n, Text: string(pi.in[pos:p])})
		}
		return p, true
	case "Action":
		pi.ev = append(pi.ev, pevent{Kind: 'a', N: n, Text: n.Str, Rule: pi.rule()})
		return pos, true
	case "Nil":
		return pos, true
	}
	if pi.err == "" {
		pi.err = "node type " + n.TypeName + " is not understood by the interpreter"
	}
	return fail()
}

// parse runs the first rule of the grammar on the text.
func (pi *pegInterp) parse(text string) bool {
	pi.in, pi.ev, pi.far, pi.active = []rune(text), pi.ev[:0], 0, pi.active[:0]
	body, ok := pi.rules[pi.start]
	if !ok {
		pi.err = "no rule"
		return false
	}
	pi.active = append(pi.active, pi.start)
	_, ok = pi.match(body, 0)
	return ok && pi.err == ""
}

// ---------------------------------------------------------------------------------------------
// A.3 the documented syntax: syntax trees, their spelling and their meaning

// citem: a character of a literal / an item of a class as written (Src) and the code point it denotes; a range has Hi.
type citem struct {
	Src string
	Cp  rune
	Esc bool
	Hi  *citem
}

func plainItem(r rune) citem { return citem{Src: string(r), Cp: r} }

// syn: a construct of the documented syntax
type syn struct {
	K        string // name dot lit1 lit2 cls1 cls2 action pred state group capture pre suf seq alt empty
	S        string // name / code / operator
	Neg      bool
	Items    []citem
	Kids     []*syn
	Trailing bool // alt: a trailing slash (the empty last alternative)
}

func sName(s string) *syn { return &syn{K: "name", S: s} }
func sDot() *syn          { return &syn{K: "dot"} }
func sLit(double bool, it ...citem) *syn {
	if double {
		return &syn{K: "lit2", Items: it}
	}
	return &syn{K: "lit1", Items: it}
}
func sCls(double, neg bool, it ...citem) *syn {
	if double {
		return &syn{K: "cls2", Neg: neg, Items: it}
	}
	return &syn{K: "cls1", Neg: neg, Items: it}
}
func sStr(double bool, s string) *syn {
	var it []citem
	for _, r := range s {
		it = append(it, plainItem(r))
	}
	return sLit(double, it...)
}
func sPre(op string, e *syn) *syn { return &syn{K: "pre", S: op, Kids: []*syn{e}} }
func sSuf(op string, e *syn) *syn { return &syn{K: "suf", S: op, Kids: []*syn{e}} }
func sSeq(es ...*syn) *syn        { return &syn{K: "seq", Kids: es} }
func sAlt(es ...*syn) *syn        { return &syn{K: "alt", Kids: es} }
func sAltSlash(es ...*syn) *syn   { return &syn{K: "alt", Kids: es, Trailing: true} }
func sGroup(e *syn) *syn          { return &syn{K: "group", Kids: []*syn{e}} }
func sCapture(e *syn) *syn        { return &syn{K: "capture", Kids: []*syn{e}} }
func sAction(code string) *syn    { return &syn{K: "action", S: code} }
func sEmpty() *syn                { return &syn{K: "empty"} }

// level: the documented precedence: alternation < sequence < prefix < suffix < primary
func (e *syn) level() int {
	switch e.K {
	case "alt", "empty":
		return 0
	case "seq":
		return 1
	case "pre", "pred", "state":
		return 2
	case "suf":
		return 3
	}
	return 4
}

// toks: the tokens of the documented spelling; parentheses only where the precedence needs them.
func (e *syn) toks(min int) []string {
	var t []string
	switch e.K {
	case "name":
		t = []string{e.S}
	case "dot":
		t = []string{"."}
	case "lit1", "lit2":
		q := "'"
		if e.K == "lit2" {
			q = `"`
		}
		s := q
		for _, it := range e.Items {
			s += it.Src
		}
		t = []string{s + q}
	case "cls1", "cls2":
		o, c := "[", "]"
		if e.K == "cls2" {
			o, c = "[[", "]]"
		}
		if e.Neg {
			o += "^"
		}
		for _, it := range e.Items {
			o += it.Src
			if it.Hi != nil {
				o += "-" + it.Hi.Src
			}
		}
		t = []string{o + c}
	case "action":
		t = []string{"{" + e.S + "}"}
	case "pred":
		t = []string{"&", "{" + e.S + "}"}
	case "state":
		t = []string{"!", "{" + e.S + "}"}
	case "group":
		t = append(append([]string{"("}, e.Kids[0].toks(0)...), ")")
	case "capture":
		t = append(append([]string{"<"}, e.Kids[0].toks(0)...), ">")
	case "pre":
		t = append([]string{e.S}, e.Kids[0].toks(3)...)
	case "suf":
		t = append(e.Kids[0].toks(4), e.S)
	case "seq":
		for _, k := range e.Kids {
			t = append(t, k.toks(2)...)
		}
	case "alt":
		for i, k := range e.Kids {
			if i > 0 {
				t = append(t, "/")
			}
			t = append(t, k.toks(1)...)
		}
		if e.Trailing {
			t = append(t, "/")
		}
	case "empty":
	}
	if e.level() < min {
		t = append(append([]string{"("}, t...), ")")
	}
	return t
}

func isIdentRune(r rune) bool {
	return r == '_' || (r >= '0' && r <= '9') || (r >= 'a' && r <= 'z') || (r >= 'A' && r <= 'Z')
}

// joinToks: the tokens with sep between them; where two tokens would merge into one identifier a blank is kept.
func joinToks(toks []string, sep string) string {
	var sb strings.Builder
	for i, t := range toks {
		if i > 0 {
			s := sep
			p := []rune(toks[i-1])
			if s == "" && len(p) > 0 && len(t) > 0 && isIdentRune(p[len(p)-1]) && isIdentRune([]rune(t)[0]) {
				s = " "
			}
			sb.WriteString(s)
		}
		sb.WriteString(t)
	}
	return sb.String()
}

func isLetter(r rune) bool { return (r >= 'a' && r <= 'z') || (r >= 'A' && r <= 'Z') }

func chr(r rune) *dnode { return dn("Character", string(r)) }

func twoCase(r rune) *dnode {
	return dn("Alternate", "", dn("Character", strings.ToLower(string(r))), dn("Character", strings.ToUpper(string(r))))
}

func wrapList(t string, ks []*dnode) *dnode {
	if len(ks) == 1 {
		return ks[0]
	}
	return dn(t, "", ks...)
}

// denote: the documented meaning of a construct.
//
//	'abc'      the characters a, b, c in sequence, each matching itself only
//	"abc"      the same with every (unescaped, ASCII) letter matching both of its cases
//	[a-cx]     the choice of its items; a-c the range from a to c
//	[[a-cx]]   the same with every letter and every range in both cases
//	[^...] [[^...]]   any one character, provided the class does not match: !class .
//	an escape denotes exactly its code point in all four contexts
//	& ! ? * +  and-predicate, not-predicate, optional, zero-or-more, one-or-more;  . any character;  <e> capture;  {code} action
//	e1 e2 sequence;  e1 / e2 ordered choice;  a trailing / adds the empty alternative;  an empty body is the empty expression
func (e *syn) denote() *dnode {
	var ks []*dnode
	switch e.K {
	case "name":
		return dn("Name", e.S)
	case "dot":
		return dn("Dot", "")
	case "lit1", "lit2":
		for _, it := range e.Items {
			if e.K == "lit2" && !it.Esc && isLetter(it.Cp) {
				ks = append(ks, twoCase(it.Cp))
			} else {
				ks = append(ks, chr(it.Cp))
			}
		}
		return wrapList("Sequence", ks)
	case "cls1", "cls2":
		for _, it := range e.Items {
			switch {
			case it.Hi != nil && e.K == "cls1":
				ks = append(ks, dn("Range", "", chr(it.Cp), chr(it.Hi.Cp)))
			case it.Hi != nil:
				lo, hi := string(it.Cp), string(it.Hi.Cp)
				ks = append(ks, dn("Alternate", "", dn("Range", "", dn("Character", strings.ToLower(lo)), dn("Character", strings.ToLower(hi))),
					dn("Range", "", dn("Character", strings.ToUpper(lo)), dn("Character", strings.ToUpper(hi)))))
			case e.K == "cls2" && !it.Esc && isLetter(it.Cp):
				ks = append(ks, twoCase(it.Cp))
			default:
				ks = append(ks, chr(it.Cp))
			}
		}
		c := wrapList("Alternate", ks)
		if e.Neg {
			return dn("Sequence", "", dn("PeekNot", "", c), dn("Dot", ""))
		}
		return c
	case "action":
		return dn("Action", e.S)
	case "pred":
		return dn("Predicate", e.S)
	case "state":
		return dn("StateChange", e.S)
	case "group":
		return e.Kids[0].denote()
	case "capture":
		return dn("Push", "", e.Kids[0].denote())
	case "pre":
		return dn(map[string]string{"&": "PeekFor", "!": "PeekNot"}[e.S], "", e.Kids[0].denote())
	case "suf":
		return dn(map[string]string{"?": "Query", "*": "Star", "+": "Plus"}[e.S], "", e.Kids[0].denote())
	case "seq":
		for _, k := range e.Kids {
			ks = append(ks, k.denote())
		}
		return dn("Sequence", "", ks...)
	case "alt":
		for _, k := range e.Kids {
			ks = append(ks, k.denote())
		}
		if e.Trailing {
			ks = append(ks, dn("Nil", ""))
		}
		return wrapList("Alternate", ks)
	}
	return dn("Nil", "")
}

// ---------------------------------------------------------------------------------------------
// A.4 the family of grammars

// tmpl: a grammar text and the finished items it denotes (Reject: text that is not a grammar)
type tmpl struct {
	Group  string
	Src    string
	Want   []*dnode
	Reject bool
}

const stdHeader = "package p\n\ntype T Peg {\n}\n\n"

func stdWant(rules ...*dnode) []*dnode {
	return append([]*dnode{dn("Package", "p"), dn("Peg", "T", dn("State", "\n"))}, rules...)
}

func ruleOf(name string, e *syn) *dnode { return dn("Rule", name, e.denote()) }

// exprTmpl: the one-rule grammar  x <- e
func exprTmpl(group string, e *syn) tmpl {
	return tmpl{Group: group, Src: stdHeader + "x <- " + joinToks(e.toks(0), " ") + "\n", Want: stdWant(ruleOf("x", e))}
}

// the documented escapes (single characters), and samples of the numeric forms
type escSample struct {
	Src string
	Cp  rune
}

func escapeSamples() []citem {
	var out []citem
	for _, x := range []string{"a", "b", "e", "f", "n", "r", "t", "v", "'", "\"", "[", "]", "-", "\\"} {
		out = append(out, citem{Src: "\\" + x, Cp: documentedEscapes[x], Esc: true})
	}
	for _, o := range []string{"0", "7", "12", "77", "101", "141", "177", "200", "377"} {
		v, _ := strconv.ParseInt(o, 8, 32)
		out = append(out, citem{Src: "\\" + o, Cp: rune(v), Esc: true})
	}
	for _, h := range []string{"0", "41", "5a", "5A", "61", "e9", "2190", "1F600", "10FFFF"} {
		v, _ := strconv.ParseInt(h, 16, 32)
		out = append(out, citem{Src: "\\0x" + h, Cp: rune(v), Esc: true})
	}
	return out
}

// printable ASCII and a few characters beyond it
func sampleRunes(except string) []rune {
	var out []rune
	for r := rune(0x20); r <= 0x7e; r++ {
		if !strings.ContainsRune(except, r) {
			out = append(out, r)
		}
	}
	return append(out, 'é', 'ß', 'λ', '←', '世', '😀')
}

func rng(lo, hi citem) citem { h := hi; lo.Hi = &h; return lo }

// depthFamily: all expressions of operator depth <= depth over the atoms (unary: & ! ? * + <>; binary: sequence, choice)
func depthFamily(atoms []*syn, depth int) []*syn {
	cur := atoms
	for d := 0; d < depth; d++ {
		next := append([]*syn{}, cur...)
		for _, e := range cur {
			next = append(next, sPre("&", e), sPre("!", e), sSuf("?", e), sSuf("*", e), sSuf("+", e), sCapture(e))
		}
		for _, e := range cur {
			for _, f := range cur {
				next = append(next, sSeq(e, f), sAlt(e, f))
			}
		}
		cur = next
	}
	return cur
}

const precedenceDepth = 2

func denoteFamily() []tmpl {
	var ts []tmpl
	add := func(group string, es ...*syn) {
		for _, e := range es {
			ts = append(ts, exprTmpl(group, e))
		}
	}
	a, b, c, d := sName("a"), sName("b"), sName("c"), sName("d")
	esc := escapeSamples()

	// literals: every printable ASCII character and some beyond, alone; then strings
	for _, r := range sampleRunes(`'\`) {
		add("literal.single", sLit(false, plainItem(r)))
	}
	for _, s := range []string{"ab", "abc", "aB", "Hello World", "a b", `"`, "[[", "//", "# {", "x-y", "<-", "naïve ←"} {
		add("literal.single", sStr(false, s))
	}
	for _, r := range sampleRunes(`"\`) {
		add("literal.double", sLit(true, plainItem(r)))
	}
	for _, s := range []string{"ab", "abc", "aB", "Hello World", "a1b2", "'", "]]", "x-y", "azAZ", "a.b", "naïve ←"} {
		add("literal.double", sStr(true, s))
	}
	// classes: every character alone, then ranges and mixtures; ^ only where it is not the negation marker, - only first
	for _, r := range sampleRunes(`]\^-`) {
		add("class.single", sCls(false, false, plainItem(r)))
		add("class.double", sCls(true, false, plainItem(r)))
		add("class.negated", sCls(false, true, plainItem(r)), sCls(true, true, plainItem(r)))
	}
	pi := plainItem
	mixes := [][]citem{{rng(pi('a'), pi('z'))}, {rng(pi('A'), pi('Z'))}, {rng(pi('0'), pi('9'))}, {rng(pi('a'), pi('c')), pi('X')}, {pi('a'), pi('b'), pi('c')},
		{rng(pi('a'), pi('z')), rng(pi('A'), pi('Z')), pi('_')}, {rng(pi('0'), pi('9')), rng(pi('a'), pi('f'))}, {pi('-'), pi('a')}, {pi('a'), pi('^')},
		{rng(pi('!'), pi('~'))}, {rng(pi('α'), pi('ω'))}, {pi('x'), rng(pi('A'), pi('C')), pi('1'), rng(pi('d'), pi('f'))}, {pi('a'), pi('A')}}
	for _, m := range mixes {
		add("class.single", sCls(false, false, m...))
		add("class.double", sCls(true, false, m...))
		add("class.negated", sCls(false, true, m...), sCls(true, true, m...))
	}
	add("class.negated", sCls(false, true, pi('^')), sCls(true, true, pi('^'), pi('a')))
	// escapes: each escape in each of the four contexts, alone, between other characters, and as the ends of a range
	for _, x := range esc {
		for _, double := range []bool{false, true} {
			// (the neighbours are no digits: a numeric escape takes all the digits that follow it)
			add("escape", sLit(double, x), sLit(double, pi('y'), x, pi('z')), sLit(double, x, x))
			add("escape", sCls(double, false, x), sCls(double, false, pi('y'), x, pi('z')), sCls(double, true, x))
		}
	}
	for i := 0; i+1 < len(esc); i += 2 {
		for _, double := range []bool{false, true} {
			add("escape", sCls(double, false, rng(esc[i], esc[i+1])), sCls(double, true, rng(esc[i], pi('z')), rng(pi('!'), esc[i+1])))
		}
	}
	// a numeric escape ends with its last digit: what follows is the next character
	add("escape", sLit(false, citem{Src: `\101`, Cp: 'A', Esc: true}, pi('8')), sLit(false, citem{Src: `\7`, Cp: 7, Esc: true}, pi('8')),
		sLit(false, citem{Src: `\0x41`, Cp: 'A', Esc: true}, pi('g')), sLit(true, citem{Src: `\0x61`, Cp: 'a', Esc: true}, pi('x')))

	// primaries
	for _, n := range []string{"a", "A", "_", "_a", "a1", "aB_9", "Package", "typeX", "import1", "END"} {
		add("primary", sName(n))
	}
	add("primary", sDot(), sGroup(a), sGroup(sGroup(a)), sCapture(a), sCapture(sSeq(a, b)), sCapture(sAlt(a, b)), sCapture(sCapture(a)), sGroup(sAlt(a, b)),
		sAction(" x() "), sAction(""), sAction("x"), sAction(" if a { b() } else { c() } "), sAction("\n\tp.x(text)\n"), sAction("{}{{}}"),
		sSeq(sAction(" x "), sAction(" y ")), sSeq(sCapture(sStr(false, "capture")), sAction(" fmt.Println(text) ")),
		&syn{K: "pred", S: " p.ok() "}, &syn{K: "state", S: " p.n++ "}, sSeq(&syn{K: "pred", S: "a"}, &syn{K: "state", S: "b"}, sAction("c")))
	// prefix and suffix operators over every kind of primary
	prim := []*syn{a, sDot(), sStr(false, "x"), sStr(true, "ab"), sCls(false, false, rng(pi('a'), pi('z'))), sCls(true, true, pi('q')), sGroup(sSeq(a, b)), sCapture(a), sGroup(sAction(" x "))}
	for _, p := range prim {
		for _, suf := range []string{"", "?", "*", "+"} {
			e := p
			if suf != "" {
				e = sSuf(suf, p)
			}
			add("operators", e, sPre("&", e), sPre("!", e))
		}
	}
	add("operators", sSuf("?", sAction(" x ")), sSuf("*", sAction(" x ")), sSuf("+", sAction(" x "))) // (& and ! before a bare { } are the predicate forms)
	// sequences and choices
	add("expression", sSeq(a, b), sSeq(a, b, c), sSeq(a, b, c, d), sAlt(a, b), sAlt(a, b, c), sAlt(b, a), sAlt(sSeq(a, b), sSeq(c, d)), sAlt(a, sSeq(b, c)),
		sAltSlash(a), sAltSlash(a, b), sAltSlash(sSeq(a, b)), sEmpty(), sGroup(sEmpty()), sSeq(sGroup(sAltSlash(a)), b), sSeq(a, sGroup(sEmpty())),
		sSeq(sGroup(sAlt(a, b)), c), sSeq(a, sGroup(sAlt(b, c))), sAlt(sGroup(sAlt(a, b)), c), sAlt(a, sGroup(sAlt(b, c))), sSeq(sGroup(sSeq(a, b)), c), sSeq(a, sGroup(sSeq(b, c))),
		sSeq(sStr(false, "a"), sStr(false, "b")), sSeq(a, sStr(false, "bc"), d), sSeq(sStr(false, "ab"), sStr(false, "cd")), sAlt(sStr(true, "a"), sStr(false, "b")),
		sAlt(sCls(false, false, pi('a'), pi('b')), c), sSeq(sCls(false, true, pi('a')), b),
		// the examples of the documentation
		sSeq(sDot(), sPre("!", sDot())), sSuf("*", sDot()), sSuf("+", sDot()), sSuf("?", sDot()),
		sSeq(sSuf("*", sStr(false, "a")), sSuf("+", sStr(false, "bc")), sSuf("?", sStr(false, "de"))),
		sAlt(sSeq(sStr(false, "a"), sSuf("*", sStr(false, "a"))), sSuf("+", sStr(false, "bc")), sSuf("?", sStr(false, "de"))),
		sSeq(sGroup(sAlt(sName("rule1"), sName("rule2"))), sName("rule3")), sSeq(sPre("&", sName("rule1")), sName("rule2")), sSeq(sPre("!", sName("rule1")), sName("rule2")),
		sSeq(sCapture(sStr(false, "capture")), sAction(` fmt.Println(text) `)))
	// precedence: every expression of operator depth <= precedenceDepth over a name, a literal and the dot
	for _, e := range depthFamily([]*syn{a, sStr(false, "x"), sDot()}, precedenceDepth) {
		add("precedence", e)
	}

	// definitions
	body := sAlt(sSeq(a, sSuf("*", b)), c)
	bt := joinToks(body.toks(0), " ")
	def := func(src string, rules ...*dnode) {
		ts = append(ts, tmpl{Group: "definition", Src: stdHeader + src, Want: stdWant(rules...)})
	}
	def("x <- a", ruleOf("x", a))
	def("x <- a\ny <- b\n", ruleOf("x", a), ruleOf("y", b))
	def("x <- a\ny <- b\nz <- c", ruleOf("x", a), ruleOf("y", b), ruleOf("z", c))
	def("x <- "+bt+"\ny <- "+bt+"\n", ruleOf("x", body), ruleOf("y", body))
	def("x <- a b\n  y <- c\n", ruleOf("x", sSeq(a, b)), ruleOf("y", c))
	def("x <- a b y <- c", ruleOf("x", sSeq(a, b)), ruleOf("y", c))
	def("x <-\ny <- a /\nz <- b", ruleOf("x", sEmpty()), ruleOf("y", sAltSlash(a)), ruleOf("z", b))
	def("x <- a\n\tb\n\t/ c\n", ruleOf("x", sAlt(sSeq(a, b), c)))
	def("Rule_1 <- x Rule_1 / y\nEND <- !.\n", dn("Rule", "Rule_1", sAlt(sSeq(sName("x"), sName("Rule_1")), sName("y")).denote()), ruleOf("END", sPre("!", sDot())))

	// package, imports, parser declaration
	hdr := func(group, src string, want ...*dnode) {
		ts = append(ts, tmpl{Group: group, Src: src, Want: append(want, ruleOf("x", a))})
	}
	pegT := func(name, state string) *dnode { return dn("Peg", name, dn("State", state)) }
	hdr("header", "package p\ntype T Peg {}\nx <- a\n", dn("Package", "p"), pegT("T", ""))
	hdr("header", "package main\n\ntype Calculator Peg {\n\tExpression\n}\n\nx <- a\n", dn("Package", "main"), pegT("Calculator", "\n\tExpression\n"))
	hdr("header", "package my_pkg2 type P_1 Peg { a int; m map[string]struct{ x int } } x <- a", dn("Package", "my_pkg2"), pegT("P_1", " a int; m map[string]struct{ x int } "))
	hdr("header", "package\tp\ntype\tT\tPeg\t{}\tx <- a", dn("Package", "p"), pegT("T", ""))
	hdr("header", "package p # c\ntype T // d\nPeg # e\n{}\n# f\nx <- a\n", dn("Package", "p"), pegT("T", ""))
	for _, mk := range []string{"#", "//"} {
		hdr("header", mk+" first\n"+mk+"second\n\n"+mk+"\npackage p\ntype T Peg {}\nx <- a\n", dn("Comment", " first"), dn("Comment", "second"), dn("Space", "\n"), dn("Comment", ""),
			dn("Package", "p"), pegT("T", ""))
	}
	hdr("header", "\n \t\r\npackage p\ntype T Peg {}\nx <- a\n", dn("Space", "\n \t\r\n"), dn("Package", "p"), pegT("T", ""))
	imp := func(src string, items ...*dnode) {
		hdr("import", "package p\n"+src+"type T Peg {}\nx <- a\n", append(append([]*dnode{dn("Package", "p")}, items...), pegT("T", ""))...)
	}
	// an import with an alias is recorded as the item "=" + alias immediately followed by the item of its path (what the
	// first pass of Compile merges into path=alias); an import without alias as the item of its path alone
	I := func(s string) *dnode { return dn("Import", s) }
	imp("import \"fmt\"\n", I("fmt"))
	imp("import \"github.com/pointlander/peg/tree\"\n", I("github.com/pointlander/peg/tree"))
	imp("import t \"github.com/pointlander/peg/tree\"\n", I("=t"), I("github.com/pointlander/peg/tree"))
	imp("import my_Alias2 \"a-b/c_d.v2\"\n", I("=my_Alias2"), I("a-b/c_d.v2"))
	imp("import \"a\"\nimport b \"c\"\nimport \"d\"\nimport e \"f\"\n", I("a"), I("=b"), I("c"), I("d"), I("=e"), I("f"))
	imp("import\"a\"import b\"c\"", I("a"), I("=b"), I("c"))
	imp("import x # why\n \"a\" // because\n", I("=x"), I("a"))
	// the parenthesised form is not in docs/peg-file-syntax.md (an extension of peg.peg); it has to mean the same
	imp("import (\n\t\"a\"\n\tb \"c\"\n)\n", I("a"), I("=b"), I("c"))
	imp("import (\"a\"\n)\n", I("a"))

	// spellings. One rich grammar; its tokens are joined in every documented way and have to denote the same items.
	rich := []*syn{sAlt(sSeq(sPre("&", a), sSuf("*", sStr(false, "b c")), sGroup(sAltSlash(sCls(false, true, rng(pi('a'), pi('z'))))), sCapture(sSuf("+", sDot())), sAction(" x{ }y ")),
		sSeq(sPre("!", sCls(true, false, pi('q'))), sSuf("?", sStr(true, "d#/")), &syn{K: "pred", S: " ok "}, b)), sAltSlash(sSuf("+", c))}
	richWant := []*dnode{dn("Package", "p"), dn("Import", "=al"), dn("Import", "pa/th"), pegT("T", " s "), ruleOf("x", rich[0]), ruleOf("y", rich[1])}
	richToks := func(arrow string) []string {
		t := []string{"package", "p", "import", "al", `"pa/th"`, "type", "T", "Peg", "{ s }", "x", arrow}
		t = append(t, rich[0].toks(0)...)
		t = append(append(t, "y", arrow), rich[1].toks(0)...)
		return t
	}
	seps := []string{"", " ", "\t", "\n", "\r\n", "\r", " \t\n  ", "# c ' \" [ { <- \n", "// c\n", "//\n", "#\r\n", " # a\n // b\r\n\t"}
	spell := func(group string, toks []string, sepAt func(i int) string, tail string) {
		var sb strings.Builder
		for i, t := range toks {
			if i > 0 {
				s := sepAt(i)
				p := []rune(toks[i-1])
				// the two keywords need spacing after them; two identifiers need it between them
				if !strings.ContainsAny(s, " \t\r\n") && (toks[i-1] == "package" || toks[i-1] == "type" || (isIdentRune(p[len(p)-1]) && isIdentRune([]rune(t)[0]))) {
					s = " " + s
				}
				// a slash followed by a // comment would read as a longer comment marker
				if strings.HasSuffix(toks[i-1], "/") && strings.HasPrefix(s, "/") {
					s = " " + s
				}
				sb.WriteString(s)
			}
			sb.WriteString(t)
		}
		if strings.HasSuffix(toks[len(toks)-1], "/") && strings.HasPrefix(tail, "/") {
			tail = " " + tail
		}
		ts = append(ts, tmpl{Group: group, Src: sb.String() + tail, Want: richWant})
	}
	for _, arrow := range []string{"<-", "←"} {
		toks := richToks(arrow)
		for _, sep := range seps {
			group := "spelling.spacing"
			if strings.ContainsAny(sep, "#/") {
				group = "spelling.comment"
			}
			if arrow != "<-" {
				group = "spelling.arrow"
			}
			for _, tail := range []string{"", sep, "\n"} {
				spell(group, toks, func(int) string { return sep }, tail)
			}
			// the separator at one boundary only (blanks elsewhere)
			for at := 1; at < len(toks); at++ {
				spell(group, toks, func(i int) string {
					if i == at {
						return sep
					}
					return " "
				}, "\n")
			}
		}
	}
	// a comment on the last line, with no newline after it (the end of the file ends the comment)
	for _, tail := range []string{" # c", " // c", "#", "\n// c"} {
		spell("spelling.comment", richToks("<-"), func(int) string { return " " }, tail)
	}
	// mixed arrows in one grammar
	ts = append(ts, tmpl{Group: "spelling.arrow", Src: stdHeader + "x ← a\ny <- b\nz←c", Want: stdWant(ruleOf("x", a), ruleOf("y", b), ruleOf("z", c))})

	// which text is handed to the builder: exactly the construct's own characters
	txt := func(src string, want ...*dnode) { ts = append(ts, tmpl{Group: "text", Src: src, Want: want}) }
	txt("package pkg  \t# c\ntype Typ   Peg   {  st  }   Name_1   <-   Other_2   # c\n   'x'   {  act  }   &{  pr  }   !{  sc  }   <  y  >  \n",
		dn("Package", "pkg"), pegT("Typ", "  st  "), dn("Rule", "Name_1", dn("Sequence", "", dn("Name", "Other_2"), chr('x'), dn("Action", "  act  "), dn("Predicate", "  pr  "),
			dn("StateChange", "  sc  "), dn("Push", "", dn("Name", "y")))))
	txt("package p import   ali   \"pa.th/x-y_z\"   type T Peg {} x <- a", dn("Package", "p"), I("=ali"), I("pa.th/x-y_z"), pegT("T", ""), ruleOf("x", a))
	txt(stdHeader+"x <- '\\0x41' '\\0x0041' '\\101' '\\0x1F600' '\\12'", append(stdWant(), dn("Rule", "x", dn("Sequence", "", chr('A'), chr('A'), chr('A'), chr(0x1F600), chr('\n'))))...)
	txt(stdHeader+"x <- { a } y { b }\ny <- { {c} }{}", append(stdWant(), dn("Rule", "x", dn("Sequence", "", dn("Action", " a "), dn("Name", "y"), dn("Action", " b "))),
		dn("Rule", "y", dn("Sequence", "", dn("Action", " {c} "), dn("Action", ""))))...)

	// text that is not a grammar
	for _, src := range []string{"", "package p", "package p\ntype T Peg {}\n", stdHeader + "x", stdHeader + "x <- (a", stdHeader + "x <- a)", stdHeader + "x <- 'a", stdHeader + "x <- \"a",
		stdHeader + "x <- [a", stdHeader + "x <- ''", stdHeader + "x <- \"\"", stdHeader + "x <- []", stdHeader + "x <- [[]]", stdHeader + "x <- { a", stdHeader + "x <- { { }",
		stdHeader + "x <- <a", stdHeader + "x <- a >", stdHeader + "x <- a **", stdHeader + "x <- & & a", stdHeader + "x <- a / * b", stdHeader + "x < - a", stdHeader + "1x <- a",
		stdHeader + "x <- '\\q'", stdHeader + "x <- '\\'", "type T Peg {}\nx <- a", "package p\ntype T {}\nx <- a", "packagep\ntype T Peg {}\nx <- a", "package p\nimport a\ntype T Peg {}\nx <- a",
		"package p\nimport \"a b\"\ntype T Peg {}\nx <- a", stdHeader + "x <- a\n§", stdHeader + "x <- a ;"} {
		ts = append(ts, tmpl{Group: "reject", Src: src, Reject: true})
	}
	return ts
}

var denoteGroups = []struct{ Name, Detail string }{
	{"literal.single", "single-quoted literals: every character matches itself only (AddCharacter; juxtaposition AddSequence)"},
	{"literal.double", "double-quoted literals: every ASCII letter is built in both cases (AddDoubleCharacter), every other character as itself"},
	{"class.single", "[...] classes: items in order as characters and ranges lo-hi (AddRange), more than one item as their choice"},
	{"class.double", "[[...]] classes: every ASCII letter in both cases (AddDoubleCharacter) and every range in both cases (AddDoubleRange)"},
	{"class.negated", "[^...] and [[^...]] denote `!class .` over the class without the caret (AddPeekNot, AddDot, AddSequence once, after the items)"},
	{"escape", "every backslash escape (a b e f n r t v ' \" [ ] - \\, octal, \\0x hex) denotes its code point in literals, classes and as an end of a range, case-sensitively"},
	{"primary", "names, the dot, ( ) groups, < > captures (AddPush), { } actions (AddAction with the text between the braces), &{ } predicates (AddPredicate) and !{ } state changes (AddStateChange; the last one is an extension of peg.peg: not in docs/peg-file-syntax.md)"},
	{"operators", "& ! ? * + denote and-predicate, not-predicate, optional, zero-or-more, one-or-more (AddPeekFor, AddPeekNot, AddQuery, AddStar, AddPlus) over every kind of primary, alone and prefix over suffix"},
	{"expression", "juxtaposition denotes the sequence in source order, / the ordered choice in source order, a trailing / the empty last alternative, an empty body the empty expression; the examples of docs/peg-file-syntax.md"},
	{"precedence", fmt.Sprintf("alternation < sequence < prefix < suffix: every expression of operator depth <= %d over {a, 'x', .} (& ! ? * + < > sequence choice), printed with parentheses only where the documented precedence needs them, is read back as the same expression", precedenceDepth)},
	{"definition", "`Name <- Expr` denotes one rule of that name with that expression (AddRule(name), AddExpression), in source order; a rule ends where the next `Name <-` starts"},
	{"header", "package and parser declaration: package name, parser name and the text between the braces of `type Name Peg { }`; comments and blank space before `package` are kept as items"},
	{"import", "imports keep their path, and their alias as the item \"=alias\" immediately before the path item (the pair Compile merges into path=alias)"},
	{"spelling.spacing", "blanks, tabs and all three line ends between any two tokens (and none where the tokens do not merge) do not change the items built"},
	{"spelling.comment", "# and // comments between any two tokens, with any content, up to the end of their line, do not change the items built"},
	{"spelling.arrow", "the arrow spelled U+2190 (with and without spacing and comments around it) builds the same items as <-"},
	{"text", "the text handed to AddPackage, AddPeg, AddState, AddRule, AddName, AddAction, AddPredicate, AddStateChange, AddImport, AddImportAlias, AddHexaCharacter, AddOctalCharacter is the construct's own characters (no spacing, no delimiters, no prefix)"},
	{"reject", "text that is not a grammar (unbalanced delimiters, empty literal or class, unknown escape, missing header parts, stray characters) is not derived by peg.peg"},
}

// ---------------------------------------------------------------------------------------------
// A.5 running the family

type denoteRun struct {
	pi      *pegInterp
	shapes  map[string]bshape
	covered map[*PNode]map[int]bool // Action node -> {0}; Alternate node -> alternatives taken
}

// runTmpl: interpret the text, replay the builder calls on the abstract machine. Returns the finished items, the calls
// (with the rule whose action made them) and a reason when the text is not accepted / the calls cannot be replayed.
func (dr *denoteRun) runTmpl(src string) (fin []*dnode, calls string, why string) {
	pi := dr.pi
	if !pi.parse(src) {
		if pi.err != "" {
			return nil, "", pi.err
		}
		rs := []rune(src)
		at := min(pi.far, len(rs))
		return nil, "", fmt.Sprintf("not derived by peg.peg (no alternative continues at offset %d, before %q)", at, trunc(string(rs[at:]), 24))
	}
	m := &bmachine{shapes: dr.shapes}
	text := ""
	var log []string
	for _, ev := range pi.ev {
		switch ev.Kind {
		case 'c':
			text = ev.Text
		case 'b':
			if dr.covered[ev.N] == nil {
				dr.covered[ev.N] = map[int]bool{}
			}
			dr.covered[ev.N][ev.Idx] = true
		case 'a':
			if dr.covered[ev.N] == nil {
				dr.covered[ev.N] = map[int]bool{0: true}
			}
			cs, err := parseAction(ev.Text)
			if err != nil {
				return nil, "", err.Error()
			}
			for _, c := range cs {
				arg := c.Const
				if c.UseText {
					arg = text
				}
				if c.HasArg {
					log = append(log, fmt.Sprintf("%s:%s(%s)", ev.Rule, c.Method, strconv.QuoteToGraphic(arg)))
				} else {
					log = append(log, fmt.Sprintf("%s:%s()", ev.Rule, c.Method))
				}
				m.apply(c.Method, arg)
			}
		}
	}
	calls = strings.Join(log, " ")
	if m.err != "" {
		return nil, calls, m.err
	}
	if len(m.stack) != 0 {
		return nil, calls, fmt.Sprintf("%d operand(s) left on the stack", len(m.stack))
	}
	return m.fin, calls, ""
}

// denotation: the obligations of layer A (and, through denoteStatic, of layer B).
func denotation(u *Unit) []*Obligation {
	top, err := pegTree(filepath.Join(repoDir, "peg.peg"))
	if err != nil {
		return []*Obligation{textObligation("denote.tree", "the rule tree of peg.peg can be obtained", false, trunc(err.Error(), 600))}
	}
	var obs []*Obligation
	// the instructions of the abstract machine: one per builder method called by an action of peg.peg
	shapes := map[string]bshape{}
	var bad, table []string
	for _, n := range top {
		collect(n, func(m *PNode) {
			if m.TypeName != "Action" {
				return
			}
			cs, err := parseAction(m.Str)
			if err != nil {
				bad = append(bad, err.Error())
				return
			}
			for _, c := range cs {
				if _, done := shapes[c.Method]; done {
					continue
				}
				sh, err := shapeOf(u.CS, c.Method)
				if err != nil {
					bad = append(bad, err.Error())
					continue
				}
				if (sh.Kind == "leaf" && sh.Arg == "param" || sh.Kind == "num" || sh.Kind == "fin" || sh.Kind == "dchar" || sh.Kind == "state") != c.HasArg {
					bad = append(bad, fmt.Sprintf("%s is called with the wrong number of arguments for its shape (%s)", c.Method, sh))
				}
				shapes[c.Method] = sh
			}
		})
	}
	for _, m := range sortedKeys(shapes) {
		table = append(table, m+": "+shapes[m].String())
	}
	obs = append(obs, textObligation("denote.builders", "every builder method called by an action of peg.peg has a verified contract that states the node it builds; the abstract builder executes exactly these ("+strings.Join(table, "; ")+")",
		len(bad) == 0, strings.Join(bad, "; ")))

	dr := &denoteRun{pi: newPegInterp(top), shapes: shapes, covered: map[*PNode]map[int]bool{}}
	family := denoteFamily()
	type res struct {
		n, bad int
		wit    []string
		first  *tmpl // the first member that fails: replayed against the real front end
	}
	results := map[string]*res{}
	var accepted []tmpl
	for _, t := range family {
		r := results[t.Group]
		if r == nil {
			r = &res{}
			results[t.Group] = r
		}
		r.n++
		fin, calls, why := dr.runTmpl(t.Src)
		w, short := "", ""
		switch {
		case t.Reject && why == "":
			w = fmt.Sprintf("%s is accepted and builds %s", strconv.QuoteToGraphic(t.Src), listString(fin))
		case t.Reject:
		case why != "":
			w = fmt.Sprintf("%s: %s", trunc(strconv.QuoteToGraphic(strings.TrimPrefix(t.Src, stdHeader)), 240), why)
			short = w
			if calls != "" {
				w += " [calls: " + trunc(calls, 700) + "]"
			}
		default:
			accepted = append(accepted, t)
			if got, want := listString(fin), listString(t.Want); got != want {
				short = fmt.Sprintf("%s denotes %s but peg.peg builds %s", trunc(strconv.QuoteToGraphic(strings.TrimPrefix(t.Src, stdHeader)), 240),
					trunc(diffItems(t.Want, fin, true), 500), trunc(diffItems(t.Want, fin, false), 500))
				w = short + " [calls: " + trunc(callsOfItem(calls, t.Want, fin), 700) + "]"
			}
		}
		if w != "" {
			r.bad++
			if r.first == nil {
				tt := t
				r.first = &tt
			}
			// the first witness in full (with the builder calls of the derivation), two more without the calls
			switch {
			case len(r.wit) == 0:
				r.wit = append(r.wit, w)
			case len(r.wit) < 3 && short != "":
				r.wit = append(r.wit, short)
			case len(r.wit) < 3:
				r.wit = append(r.wit, trunc(w, 400))
			}
		}
	}
	for _, g := range denoteGroups {
		r := results[g.Name]
		if r == nil {
			r = &res{}
		}
		wit := ""
		if r.bad > 0 {
			wit = fmt.Sprintf("%d of %d grammars differ; ", r.bad, r.n) + strings.Join(r.wit, " || ")
		}
		ob := textObligation("denote."+g.Name, fmt.Sprintf("%s (%d grammars written from the documentation, interpreted over the rule tree of peg.peg, built by the contracts)", g.Detail, r.n),
			r.n > 0 && r.bad == 0, wit)
		if r.first != nil {
			ob.Ground = replayTmpl(*r.first)
		}
		obs = append(obs, ob)
	}
	obs = append(obs, coverage(dr, top))
	obs = append(obs, denoteStatic(top, shapes)...)
	if ob := modelAgrees(dr, accepted); ob != nil {
		obs = append(obs, ob)
	}
	return obs
}

// callsOfItem: the builder calls that made the first differing item when that item is a rule (from its AddRule to its
// AddExpression); all calls otherwise
func callsOfItem(calls string, want, got []*dnode) string {
	for i := 0; i < len(want) && i < len(got); i++ {
		if want[i].norm().String() == got[i].norm().String() {
			continue
		}
		if got[i].T != "Rule" {
			break
		}
		mark := "(" + strconv.QuoteToGraphic(got[i].S) + ")"
		cs := strings.Split(calls, " ")
		for a, c := range cs {
			if strings.HasSuffix(c, mark) && strings.Contains(c, ":AddRule(") {
				for b := a; b < len(cs); b++ {
					if strings.Contains(cs[b], ":AddExpression(") {
						return strings.Join(cs[a:b+1], " ")
					}
				}
			}
		}
		break
	}
	return calls
}

// replayTmpl: a failing member of the family against the real code: the front end built from the repository (treedump)
// parses the text and builds its tree. Returns the failing input with what was expected and what the real front end did,
// or "" when the real front end does what the documentation says (then the model, not the code, is off).
func replayTmpl(t tmpl) string {
	dir := filepath.Join(scratchDir, "denote")
	_ = os.MkdirAll(dir, 0o755)
	file := filepath.Join(dir, "replay-"+safeName(t.Group)+".peg")
	if err := os.WriteFile(file, []byte(t.Src), 0o644); err != nil {
		return ""
	}
	real, err := pegTree(file)
	switch {
	case err != nil && t.Reject:
		return ""
	case err != nil:
		return fmt.Sprintf("grammar %s; documented meaning: %s; the front end built from the repository rejects it (%s)", strconv.QuoteToGraphic(t.Src), listString(t.Want), trunc(strings.Join(strings.Fields(err.Error()), " "), 200))
	}
	var items []*dnode
	for _, r := range real {
		items = append(items, pnodeToD(r))
	}
	switch {
	case t.Reject:
		return fmt.Sprintf("text %s is not a grammar; the front end built from the repository accepts it and builds: %s", strconv.QuoteToGraphic(t.Src), listString(items))
	case listString(items) == listString(t.Want):
		return ""
	}
	return fmt.Sprintf("grammar %s; documented meaning: %s; the front end built from the repository builds: %s", strconv.QuoteToGraphic(t.Src), listString(t.Want), listString(items))
}

// diffItems: the first finished item in which want and got differ (want side or got side), or the count when the lists differ in length
func diffItems(want, got []*dnode, wantSide bool) string {
	for i := 0; i < len(want) && i < len(got); i++ {
		if w, g := want[i].norm().String(), got[i].norm().String(); w != g {
			if wantSide {
				return w
			}
			return g
		}
	}
	if wantSide {
		return fmt.Sprintf("%d items (%s)", len(want), listString(want))
	}
	return fmt.Sprintf("%d items (%s)", len(got), listString(got))
}

// coverage: every action of peg.peg and every alternative that is not plain text is used by the derivation of an accepted
// member of the family (what is reachable only inside a lookahead never runs and is not counted).
func coverage(dr *denoteRun, top []*PNode) *Obligation {
	nonTerminal := func(n *PNode) bool {
		found := false
		collect(n, func(m *PNode) {
			if m.TypeName == "Name" || m.TypeName == "Action" || m.TypeName == "Push" {
				found = true
			}
		})
		return found
	}
	reach := map[string]bool{}
	var missing []string
	var walk func(rule string, n *PNode)
	walk = func(rule string, n *PNode) {
		switch n.TypeName {
		case "PeekFor", "PeekNot":
			return
		case "Name":
			if !reach[n.Str] {
				reach[n.Str] = true
				if b := dr.pi.rules[n.Str]; b != nil {
					walk(n.Str, b)
				}
			}
			return
		case "Action":
			if dr.covered[n] == nil {
				missing = append(missing, fmt.Sprintf("%s: action {%s}", rule, strings.TrimSpace(n.Str)))
			}
		case "Alternate":
			for i, k := range n.Kids {
				if nonTerminal(k) && !dr.covered[n][i] {
					missing = append(missing, fmt.Sprintf("%s: alternative %d (%s)", rule, i+1, trunc(showPeg(k), 60)))
				}
			}
		}
		for _, k := range n.Kids {
			walk(rule, k)
		}
	}
	if dr.pi.start != "" {
		reach[dr.pi.start] = true
		walk(dr.pi.start, dr.pi.rules[dr.pi.start])
	}
	return textObligation("denote.coverage", fmt.Sprintf("every action and every non-terminal alternative of the %d rules of peg.peg reachable from %s is exercised by the derivation of an accepted grammar of the family: no builder call of peg.peg lies outside what was compared",
		len(reach), dr.pi.start), len(missing) == 0, "not exercised: "+strings.Join(missing, "; "))
}

// showPeg: a node of the rule tree in .peg notation (for witnesses)
func showPeg(n *PNode) string {
	var ks []string
	for _, k := range n.Kids {
		s := showPeg(k)
		if (k.TypeName == "Alternate" && n.TypeName != "Alternate") || (k.TypeName == "Sequence" && n.TypeName != "Sequence" && n.TypeName != "Alternate") {
			s = "(" + s + ")"
		}
		ks = append(ks, s)
	}
	switch n.TypeName {
	case "Character", "String":
		if strings.Contains(n.Str, "'") {
			return `"` + n.Str + `"`
		}
		return "'" + n.Str + "'"
	case "Name":
		return n.Str
	case "Dot":
		return "."
	case "Action":
		return "{" + strings.TrimSpace(n.Str) + "}"
	case "Range":
		if len(n.Kids) == 2 {
			return "[" + n.Kids[0].Str + "-" + n.Kids[1].Str + "]"
		}
	case "Sequence":
		return strings.Join(ks, " ")
	case "Alternate":
		return strings.Join(ks, " / ")
	case "Query":
		return ks[0] + "?"
	case "Star":
		return ks[0] + "*"
	case "Plus":
		return ks[0] + "+"
	case "PeekFor":
		return "&" + ks[0]
	case "PeekNot":
		return "!" + ks[0]
	case "Push":
		return "<" + ks[0] + ">"
	case "Nil":
		return ""
	}
	return n.TypeName
}

// ---------------------------------------------------------------------------------------------
// A.6 the model against the implementation: the real front end (peg.peg.go as checked in + tree/peg.go, run by treedump)
// builds, for the one-rule grammars of the family, the trees the interpreter and the abstract builder produce. This ties
// the interpreter's reading of PEG and the reading of the contracts to the code they stand for; it is a replay, not a proof.

func pnodeToD(n *PNode) *dnode {
	d := dn(n.TypeName, n.Str)
	for _, k := range n.Kids {
		d.Kids = append(d.Kids, pnodeToD(k))
	}
	return d
}

func modelAgrees(dr *denoteRun, accepted []tmpl) *Obligation {
	// the bodies of the one-rule grammars, as rules r0, r1, ... of batches of 400
	var bodies []string
	seen := map[string]bool{}
	for _, t := range accepted {
		b, ok := strings.CutPrefix(t.Src, stdHeader+"x <- ")
		if !ok || seen[b] || strings.Contains(b, "<-") || t.Group == "definition" {
			continue
		}
		seen[b] = true
		bodies = append(bodies, b)
	}
	dir := filepath.Join(scratchDir, "denote")
	_ = os.MkdirAll(dir, 0o755)
	var bad []string
	n := 0
	for start := 0; start < len(bodies); start += 400 {
		end := min(start+400, len(bodies))
		var sb strings.Builder
		sb.WriteString(stdHeader)
		for i := start; i < end; i++ {
			fmt.Fprintf(&sb, "r%d <- %s", i, bodies[i])
		}
		file := filepath.Join(dir, fmt.Sprintf("batch%d.peg", start))
		if err := os.WriteFile(file, []byte(sb.String()), 0o644); err != nil {
			return textObligation("denote.model", "the batch grammars can be written", false, err.Error())
		}
		real, err := pegTree(file)
		if err != nil {
			bad = append(bad, trunc(err.Error(), 300))
			continue
		}
		fin, _, why := dr.runTmpl(sb.String())
		if why != "" {
			bad = append(bad, "batch not accepted by the interpreter: "+why)
			continue
		}
		var realItems []*dnode
		for _, r := range real {
			realItems = append(realItems, pnodeToD(r))
		}
		if len(realItems) != len(fin) {
			bad = append(bad, fmt.Sprintf("the front end builds %d items, the model %d", len(realItems), len(fin)))
			continue
		}
		for i := range fin {
			n++
			// the real builder is compared without normalisation: same flattening, same texts
			if g, w := realItems[i].String(), fin[i].String(); g != w && len(bad) < 3 {
				bad = append(bad, fmt.Sprintf("the front end builds %s, the model %s", trunc(g, 300), trunc(w, 300)))
			}
		}
	}
	sort.Strings(bad)
	return textObligation("denote.model", fmt.Sprintf("replay: for the %d one-rule grammars of the family the front end as built from the repository (peg.peg.go + tree builder, run by treedump) builds node for node the trees the interpreter and the abstract builder produce (%d items compared)", len(bodies), n),
		len(bad) == 0, strings.Join(bad, "; "))
}
