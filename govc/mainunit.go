package main

// The command unit ("main": main.go at the repository root, property C18) and countermodel reporting for `debug -model`.

import (
	"sort"
	"strings"
)

// loadMainUnit: the command (main.go at the repository root). Process exit is modelled by path ends: status 0 = normal
// return from main, log.Fatal = status 1, panic = status 2. Ghost variables `written`/`dest` record that a complete parser
// was written and where. Everything registered in TrustedExt is an ASSUMED contract of code outside the verified unit.
func loadMainUnit() (*Unit, []string, error) {
	u, err := LoadUnit("main", repoDir, []string{"."}, "verif")
	if err != nil {
		return nil, nil, err
	}
	u.PanicIsExit = true
	u.ExtraCells["written"] = SBool
	u.ExtraCells["dest"] = SInt
	u.ExtraCells["failed"] = SBool
	if err := u.CS.ParseFile(repoDir + "/contracts_verif.go"); err != nil {
		return nil, nil, err
	}
	ext := func(key string, noReturn bool, params []string, clauses ...string) error {
		var fc *FuncContract
		if len(clauses) > 0 {
			c, err := ContractFromClauses(key, clauses...)
			if err != nil {
				return err
			}
			fc = c
		}
		u.TrustedExt[key] = &ExtSpec{Key: key, NoReturn: noReturn, Contract: fc, Params: params}
		return nil
	}
	type e struct {
		key      string
		noReturn bool
		params   []string
		clauses  []string
	}
	for _, x := range []e{
		// the command line: flag.Parse stores the option values into the flag variables (all of them are rewritten);
		// it does not return on a malformed command line (exit status 2)
		{"flag.Parse", false, nil, []string{"modifies Ptr.Bool, Ptr.Str", "ensures *outputFile == optOutput()", "ensures *showVersion == optVersion()"}},
		{"flag.NArg", false, nil, []string{"ensures result == flagNArg()"}},
		{"flag.Arg", false, []string{"i"}, []string{"ensures result == flagArg(i)"}},
		// files: a successful open yields a new *os.File (not nil, not one of the standard streams) carrying the name it was opened with
		{"os.Open", false, []string{"name"}, []string{"ensures result1 == nil ==> result0 != nil && result0 != os.Stdin && result0 != os.Stdout && result0 != os.Stderr && fileName(result0) == name", "modifies var failed", "ensures result1 != nil ==> failed", "ensures result1 == nil ==> failed == old(failed)"}},
		{"os.OpenFile", false, []string{"name", "oflag", "perm"}, []string{"ensures result1 == nil ==> result0 != nil && result0 != os.Stdin && result0 != os.Stdout && result0 != os.Stderr && fileName(result0) == name",
			// the file starts empty and is writable exactly when it is opened for writing, created if missing and truncated: the flag
			// argument is a constant in the code (linux: O_WRONLY=1, O_RDWR=2, O_CREATE=0x40, O_TRUNC=0x200)
			"ensures result1 == nil ==> openedFresh(result0) == (oflag == 577 || oflag == 578)", "modifies var failed", "ensures result1 != nil ==> failed", "ensures result1 == nil ==> failed == old(failed)"}},
		{"(os.File).Close", false, nil, nil},
		{"io.ReadAll", false, []string{"r"}, []string{"modifies var failed", "ensures result1 != nil ==> failed", "ensures result1 == nil ==> failed == old(failed)"}},
		// output that is not the generated parser: no effect on the ghost state
		{"fmt.Println", false, nil, nil},
		{"fmt.Fprintln", false, []string{"w"}, nil},
		{"log.Fatal", true, nil, nil},
		{"github.com/pointlander/peg/tree.New", false, []string{"inline", "_switch", "noast"}, []string{"ensures result != nil && fresh(result)"}},
		// Compile returns nil only after formatter.Fprint(out, ...) of the complete parser succeeded (tree/peg.go, last lines);
		// on every error path it returns the error. ASSUMED here: package tree is not verified by this unit.
		{"(github.com/pointlander/peg/tree.Tree).Compile", false, []string{"file", "args", "out"}, []string{"modifies var written, dest, failed", "ensures result == nil ==> written && dest == out", "ensures result != nil ==> failed", "ensures result == nil ==> failed == old(failed)"}},
	} {
		if err := ext(x.key, x.noReturn, x.params, x.clauses...); err != nil {
			return nil, nil, err
		}
	}
	return u, []string{"main", "main.$arg0", "parse", "getIO", "getIO.closeAll"}, nil
}

// relaxQuantifiers replaces every quantified subformula of a query by `true`. The obligations that fail are quantifier-free
// on the failing path, but the frame conditions and string axioms around them are quantified, and a solver answers
// `unknown` rather than `sat` in their presence. A model of the relaxed query is a CANDIDATE countermodel: it satisfies all
// quantifier-free facts of the path; it is reported as such and has to be confirmed by running the program.
func relaxQuantifiers(q string) string {
	var sb strings.Builder
	for i := 0; i < len(q); {
		if strings.HasPrefix(q[i:], "(forall ") || strings.HasPrefix(q[i:], "(exists ") {
			d := 0
			j := i
			for ; j < len(q); j++ {
				if q[j] == '(' {
					d++
				} else if q[j] == ')' {
					d--
					if d == 0 {
						break
					}
				}
			}
			sb.WriteString("true")
			i = j + 1
			continue
		}
		sb.WriteByte(q[i])
		i++
	}
	return sb.String()
}

// candidateModel solves the relaxed query of a failing obligation and returns the values of the program-level constants
// (variables, call results, values read through pointers, ghost variables).
func candidateModel(ob *Obligation) string {
	if ob.fv == nil || ob.query() == "" {
		return "no query"
	}
	var names []string
	for _, d := range ob.fv.decls {
		f := strings.Fields(strings.TrimSuffix(strings.TrimPrefix(d, "(declare-const "), ")"))
		if len(f) != 2 || (f[1] != "Int" && f[1] != "Bool" && f[1] != "Str") {
			continue
		}
		n := strings.Trim(f[0], "|")
		pre := []string{"v!", "ret!", "deref!", "g!"}
		for g := range ob.fv.u.ExtraCells {
			pre = append(pre, g+"@")
		}
		for _, p := range pre {
			if strings.HasPrefix(n, p) {
				names = append(names, f[0])
				break
			}
		}
	}
	for n := range ob.fv.u.CS.SpecFuncs {
		if len(ob.fv.u.CS.SpecFuncs[n].Params) == 0 && len(ob.fv.u.CS.SpecFuncs[n].Reads) == 0 {
			names = append(names, sym(n))
		}
	}
	sort.Strings(names)
	q := "(set-option :produce-models true)\n" + relaxQuantifiers(ob.Query) + "\n(check-sat)\n(get-value (" + strings.Join(names, " ") + "))\n"
	v, out, _ := runOne(solverSpecs["z3-new"], q, 10)
	if v != VSat {
		return "candidate countermodel: relaxed (quantifier-free) query is " + v.String()
	}
	// keep only the constants that occur in the query's path (declared ones that the model had to fix are all printed; trim noise)
	out = strings.TrimSpace(strings.TrimPrefix(strings.TrimSpace(out), "sat"))
	out = strings.NewReplacer("\n", " ", "  ", " ").Replace(out)
	return "candidate countermodel (quantifier-free relaxation is sat): " + out
}
