package main

// Matching the loops of an emitted closure to the repetition nodes of its rule.
//
// The synthesised invariant of loop i talks about one particular repetition (E_k, A_k, M_k). The emitter
// writes the loops in the order of the rule tree, except that -switch reorders the alternatives of a choice it
// dispatches on (cases are ordered by the size of their first sets), so "i-th loop = i-th repetition" does not
// hold there. Attaching an invariant to the wrong loop is never unsound (invariants are checked), but the
// proof then fails on code that is right. The matching below does not depend on the emitter's ordering rule:
// it compares what the loop body does (rules called, tokens added for inlined rules / captures / actions, use
// of matchDot, nested loops; character literals as a tie-break) with what the repetition's operand denotes.

import (
	"go/ast"
	"go/token"
	"sort"
	"strconv"
	"strings"
)

type loopSig struct {
	atoms  map[string]int  // multiset: "R:<rule>" call, "T:<rule>" token added, "." matchDot, "L" nested loop
	chars  map[string]bool // character literals tested (tie-break only: -switch drops and adds tests)
	owners []string        // inlined rules / captures whose extent contains the loop, innermost first
}

func newLoopSig() *loopSig { return &loopSig{atoms: map[string]int{}, chars: map[string]bool{}} }

func (s *loopSig) key() string {
	var ks []string
	for k, n := range s.atoms {
		ks = append(ks, k+"*"+strings.Repeat("i", n))
	}
	sort.Strings(ks)
	return strings.Join(ks, " ") + " | " + strings.Join(s.owners, ">")
}

// astLoops: the labelled statements of a closure body that are the target of a goto from inside themselves
// (the emitter's repetition loops), in source order — the order in which ir.go numbers loops — and, for each, the
// rules whose inlined extent contains it: the emitter writes an inlined rule X (and a capture) as a block that ends
// with add(ruleX, begin), so the enclosing blocks of a loop that end in such a call name its owners.
func astLoops(body *ast.BlockStmt) ([]*ast.LabeledStmt, map[*ast.LabeledStmt][]string) {
	var loops []*ast.LabeledStmt
	owners := map[*ast.LabeledStmt][]string{}
	var stack []ast.Node
	ast.Inspect(body, func(n ast.Node) bool {
		if n == nil {
			stack = stack[:len(stack)-1]
			return true
		}
		if _, ok := n.(*ast.FuncLit); ok {
			return false // no push: Inspect does not call f(nil) for a node whose children are skipped
		}
		stack = append(stack, n)
		ls, ok := n.(*ast.LabeledStmt)
		if !ok {
			return true
		}
		back := false
		ast.Inspect(ls.Stmt, func(m ast.Node) bool {
			if b, ok := m.(*ast.BranchStmt); ok && b.Tok == token.GOTO && b.Label != nil && b.Label.Name == ls.Label.Name {
				back = true
			}
			return !back
		})
		if back {
			loops = append(loops, ls)
			var chain []string
			for i := len(stack) - 1; i >= 0; i-- {
				b, ok := stack[i].(*ast.BlockStmt)
				if !ok || len(b.List) == 0 {
					continue
				}
				last := b.List[len(b.List)-1]
				for { // the add call may carry the label that the alternatives before it jump to
					l, ok := last.(*ast.LabeledStmt)
					if !ok {
						break
					}
					last = l.Stmt
				}
				if es, ok := last.(*ast.ExprStmt); ok {
					if call, ok := es.X.(*ast.CallExpr); ok {
						if id, ok := call.Fun.(*ast.Ident); ok && id.Name == "add" && len(call.Args) > 0 {
							if nm := ruleIdentName(call.Args[0]); nm != "" && b.End() > ls.End() {
								chain = append(chain, nm)
							}
						}
					}
				}
			}
			owners[ls] = chain
		}
		return true
	})
	sort.Slice(loops, func(i, j int) bool { return loops[i].Pos() < loops[j].Pos() })
	return loops, owners
}

func ruleIdentName(e ast.Expr) string {
	if id, ok := e.(*ast.Ident); ok && strings.HasPrefix(id.Name, "rule") {
		return strings.TrimPrefix(id.Name, "rule")
	}
	return ""
}

// codeSig: the signature of the statement of one loop.
func codeSig(ls *ast.LabeledStmt) *loopSig {
	s := newLoopSig()
	ast.Inspect(ls.Stmt, func(n ast.Node) bool {
		switch x := n.(type) {
		case *ast.FuncLit:
			return false
		case *ast.LabeledStmt:
			// a nested loop
			back := false
			ast.Inspect(x.Stmt, func(m ast.Node) bool {
				if b, ok := m.(*ast.BranchStmt); ok && b.Tok == token.GOTO && b.Label != nil && b.Label.Name == x.Label.Name {
					back = true
				}
				return !back
			})
			if back {
				s.atoms["L"]++
			}
		case *ast.CallExpr:
			switch f := x.Fun.(type) {
			case *ast.IndexExpr:
				if id, ok := f.X.(*ast.Ident); ok && id.Name == "_rules" {
					if nm := ruleIdentName(f.Index); nm != "" {
						s.atoms["R:"+nm]++
					}
				}
			case *ast.Ident:
				if f.Name == "add" && len(x.Args) > 0 {
					if nm := ruleIdentName(x.Args[0]); nm != "" {
						s.atoms["T:"+nm]++
					}
				}
				if f.Name == "matchDot" {
					s.atoms["."]++
				}
			}
		case *ast.BasicLit:
			if x.Kind == token.CHAR {
				s.chars[x.Value] = true
			}
		}
		return true
	})
	return s
}

// specSig: the signature of the operand of a repetition node (through inlined rules).
func (gp *GenProgram) specSig(star *PNode, inlined func(string) *PRule) *loopSig {
	s := newLoopSig()
	var walk func(n *PNode, depth int)
	walk = func(n *PNode, depth int) {
		if depth > 64 {
			return
		}
		switch n.TypeName {
		case "Star":
			s.atoms["L"]++
		case "Plus":
			// e+ is emitted as e followed by the loop over e: everything in e occurs twice
			s.atoms["L"]++
			walk(n.Kids[0], depth+1)
		case "Name":
			if r := inlined(n.Str); r != nil {
				s.atoms["T:"+n.Str]++
				walk(r.Body, depth+1)
			} else {
				s.atoms["R:"+n.Str]++
			}
			return
		case "Action":
			// an action is a call of its own closure, or (inlined) an add of its token; -noast runs it inline
			return
		case "Push":
			if gp.Ast {
				s.atoms["T:PegText"]++
			}
		case "Dot":
			s.atoms["."]++
		case "Character", "String":
			for _, c := range n.Str {
				s.chars[quoteRune(c)] = true
			}
		}
		for _, c := range n.Kids {
			walk(c, depth+1)
		}
	}
	walk(star.Kids[0], 0)
	return s
}

func quoteRune(c rune) string { return strconv.QuoteRune(c) }

// matchLoops returns, for every loop of the closure in source order, the index into occ of the repetition
// occurrence whose invariant it gets; nil when the counts differ or no assignment with equal signatures exists (the
// caller then keeps the order of the rule tree).
func (gp *GenProgram) matchLoops(body *ast.BlockStmt, self string, occ []*PNode, inlined func(string) *PRule, root *PNode) []int {
	loops, owners := astLoops(body)
	if len(loops) != len(occ) || len(occ) == 0 {
		return nil
	}
	// the owner chains of the repetition occurrences, in the same order as occ (starsInEmissionOrder)
	var chains [][]string
	var walk func(n *PNode, chain []string)
	walk = func(n *PNode, chain []string) {
		switch n.TypeName {
		case "Star":
			chains = append(chains, chain)
			walk(n.Kids[0], chain)
		case "Plus":
			walk(n.Kids[0], chain)
			chains = append(chains, chain)
			walk(n.Kids[0], chain)
		case "Name":
			if r := inlined(n.Str); r != nil {
				walk(r.Body, append([]string{n.Str}, chain...))
			}
		case "Push":
			c := chain
			if gp.Ast {
				c = append([]string{"PegText"}, chain...)
			}
			for _, k := range n.Kids {
				walk(k, c)
			}
		default:
			for _, k := range n.Kids {
				walk(k, chain)
			}
		}
	}
	// (a parser without AST still calls add for every rule - it counts tokens and moves the register - but not for captures)
	walk(root, []string{self})
	if len(chains) != len(occ) {
		chains = nil
	}
	// actions differ between the two sides (call vs add): leave them out of the code signature as well
	cs := make([]*loopSig, len(loops))
	for i, l := range loops {
		cs[i] = codeSig(l)
		if chains != nil {
			cs[i].owners = owners[l]
		}
		for k := range cs[i].atoms {
			if strings.HasPrefix(k, "R:Action") || strings.HasPrefix(k, "T:Action") {
				delete(cs[i].atoms, k)
			}
		}
	}
	ss := make([]*loopSig, len(occ))
	for j, o := range occ {
		ss[j] = gp.specSig(o, inlined)
		if chains != nil {
			ss[j].owners = chains[j]
		}
	}
	identity := true
	for i := range loops {
		if cs[i].key() != ss[i].key() {
			identity = false
		}
	}
	if identity {
		// same signatures position by position: keep the order (ties included)
		res := make([]int, len(loops))
		for i := range res {
			res[i] = i
		}
		return res
	}
	overlap := func(i, j int) int {
		n := 0
		for c := range cs[i].chars {
			if ss[j].chars[c] {
				n++
			}
		}
		return n
	}
	used := make([]bool, len(occ))
	res := make([]int, len(loops))
	for i := range loops {
		best, bestScore := -1, -1
		for j := range occ {
			if used[j] || cs[i].key() != ss[j].key() {
				continue
			}
			if sc := overlap(i, j); sc > bestScore { // first (= earliest in tree order) among equals
				best, bestScore = j, sc
			}
		}
		if best < 0 {
			return nil
		}
		used[best] = true
		res[i] = best
	}
	return res
}
