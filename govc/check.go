package main

// `govc check <property> [quick|thorough]`: run the obligations of one property, compare with the
// baseline and the known findings, write evidence and replay files, print VIOLATION lines.

import (
	"sync"
	"encoding/json"
	"fmt"
	"os"
	"path/filepath"
	"regexp"
	"sort"
	"strconv"
	"strings"
	"time"
)

type Baseline struct {
	Property string         `json:"property"`
	Counts   map[string]int `json:"counts"`   // "<unit>/<fn>#<kind>" -> number of contract-derived obligations on the unchanged tree
	Excluded []string       `json:"excluded"` // obligations that do not discharge on the unchanged tree and are not claimed (regexps on names)
	Note     string         `json:"note,omitempty"`
	Own      []string       `json:"-"` // the excluded list of the property's own file (without baseline/capacity.json)
}

type KnownFinding struct {
	ID         string `json:"id"`
	Property   string `json:"property"`
	Status     string `json:"status"` // "open" | "fixed"
	Obligation string `json:"obligation,omitempty"` // regexp on obligation names that fail because of it
	What       string `json:"what"`
	Witness    string `json:"witness,omitempty"`
	Commit     string `json:"commit,omitempty"`
	Line       string `json:"line,omitempty"` // the "fixed: ..." line for repaired defects
}

type propertyDef struct {
	ID        string
	Level     string
	Run       func(r *Run) error
	Technique string
}

var properties = map[string]*propertyDef{}

func register(p *propertyDef) { properties[p.ID] = p }

func cmdCheck(args []string) int {
	if len(args) < 1 {
		fmt.Println("usage: govc check <property> [quick|thorough] [--update-baseline]")
		return 2
	}
	prop := args[0]
	// an internal error of the engine on the tree under check is reported as an undecided check (a violation line with
	// the panic text), never as a silent non-zero exit
	defer func() {
		if e := recover(); e != nil {
			path := filepath.Join(verifDir, "replays", prop+"-govc_internal_error.json")
			_ = os.MkdirAll(filepath.Dir(path), 0o755)
			data, _ := json.MarshalIndent(map[string]any{"property": prop, "obligation": "govc#internal.error", "verdict": "unknown", "solver_output": fmt.Sprint(e),
				"note": "the verification-condition generator failed on this tree: nothing was decided", "failing_input": nil}, "", " ")
			_ = os.WriteFile(path, append(data, '\n'), 0o644)
			fmt.Printf("VIOLATION property=%s replay=%s obligation=govc#internal.error verdict=unknown no-failing-input-found\n", prop, path)
			os.Exit(1)
		}
	}()
	tier := os.Getenv("VERIF_TIER")
	update := false
	for _, a := range args[1:] {
		switch a {
		case "quick", "thorough":
			tier = a
		case "--update-baseline":
			update = true
		}
	}
	if tier == "" {
		tier = "quick"
	}
	seed, _ := strconv.Atoi(os.Getenv("VERIF_SEED"))
	pd, ok := properties[prop]
	if !ok {
		fmt.Printf("unknown property %s\n", prop)
		return 2
	}
	r := NewRun(prop, tier, seed)
	if err := pd.Run(r); err != nil {
		// an infrastructure failure (cannot build /repo, cannot load) is reported as a violation of
		// the unit.generated obligation: the property can no longer be decided on this tree
		r.Obls = append(r.Obls, &Obligation{Name: prop + "#unit.loaded", Kind: "unit", Goal: "false", PC: "true",
			Detail: "unit could not be loaded from the current tree: " + err.Error(), Result: SolverResult{Verdict: VUnknown, Output: err.Error()}})
	}
	r.solveAll()
	r.quietRetry()
	return r.report(pd, update)
}

// quietRetry: when only a few obligations are undecided after the parallel passes, they are solved once more, three at a
// time with a long budget, after everything else has finished. The parallel passes run up to 16 solver tasks (more during
// the short portfolio pass) and their time limits are wall-clock: an obligation that needs a few seconds on a quiet machine
// can time out there. A change that really breaks a property usually leaves many obligations undecided (no retry then),
// and a retry can only turn "undecided" into "proved" by an actual proof.
func (r *Run) quietRetry() {
	var todo []*Obligation
	for _, ob := range r.Obls {
		if ob.Canary || ob.Result.Verdict == VUnsat || ob.Result.Verdict == VSat || ob.Query == "" || ob.Kind == "unit" {
			continue
		}
		todo = append(todo, ob)
	}
	if len(todo) == 0 || len(todo) > 10 {
		return
	}
	budget := 120
	if r.Tier == "thorough" {
		budget = 300
	}
	var wg sync.WaitGroup
	sem := make(chan struct{}, 3)
	for _, ob := range todo {
		wg.Add(1)
		sem <- struct{}{}
		go func(ob *Obligation) {
			defer wg.Done()
			defer func() { <-sem }()
			prev := ob.Result.Seconds
			res := solve(ob.Query, budget, false, []string{"z3-new", "cvc5", "z3"})
			res.Seconds += prev
			if res.Verdict == VUnsat {
				res.Backend += "(retry)"
			}
			ob.Result = res
		}(ob)
	}
	wg.Wait()
	r.Notes = append(r.Notes, fmt.Sprintf("%d obligations were undecided after the parallel passes and were solved again on the quiet machine (budget %d s each)", len(todo), budget))
}

func loadBaseline(prop, tier string) *Baseline {
	b := &Baseline{Property: prop, Counts: map[string]int{}}
	data, err := os.ReadFile(filepath.Join(verifDir, "baseline", prop+"."+tier+".json"))
	if err == nil {
		_ = json.Unmarshal(data, b)
	}
	b.Own = append([]string{}, b.Excluded...)
	// obligations of all properties that are out of the solvers' reach on the unchanged tree (measured, each with its reason;
	// maintained by hand): they are reported as excluded, never as proved and never as violations
	var cap struct {
		Entries []struct{ Pattern, Reason string }
	}
	if data, err := os.ReadFile(filepath.Join(verifDir, "baseline", "capacity.json")); err == nil && json.Unmarshal(data, &cap) == nil {
		for _, e := range cap.Entries {
			b.Excluded = append(b.Excluded, e.Pattern)
		}
	}
	return b
}

func loadFindings() []KnownFinding {
	var fs []KnownFinding
	data, err := os.ReadFile(filepath.Join(verifDir, "known_findings.json"))
	if err == nil {
		_ = json.Unmarshal(data, &fs)
	}
	return fs
}

func matchAny(pats []string, name string) bool {
	for _, p := range pats {
		if p == name {
			return true
		}
		if re, err := regexp.Compile("^(?:" + p + ")$"); err == nil && re.MatchString(name) {
			return true
		}
	}
	return false
}

var contractKinds = map[string]bool{"ensures": true, "requires": true, "inv.init": true, "inv.step": true, "assigns": true, "lemma": true, "frame": true}

// clauseKey names the contract clause an obligation was generated from ("" for obligations that follow the shape of the
// code rather than a clause: safety, overflow, call-site preconditions, canaries). The baseline records which clauses
// produced at least one obligation on the unchanged tree; how many (one per return path, per call site) is a property of
// the code's shape and may change with a harmless edit, so it is not compared.
func clauseKey(ob *Obligation) string {
	if !contractKinds[ob.Kind] || ob.Kind == "requires" {
		return ""
	}
	name := ob.Name
	if i := strings.Index(name, "#"); i >= 0 {
		clause := name[i+1:]
		if ob.Kind == "ensures" || ob.Kind == "assigns" {
			// "ensures[2].1" -> "ensures[2]" (the suffix numbers the return path)
			if j := strings.LastIndex(clause, "]."); j >= 0 {
				clause = clause[:j+1]
			}
		}
		return ob.Unit + "/" + ob.Fn + "#" + clause
	}
	return ob.Unit + "/" + ob.Fn + "#" + ob.Kind
}

func (r *Run) report(pd *propertyDef, update bool) int {
	base := loadBaseline(r.Property, r.Tier)
	findings := loadFindings()
	counts := map[string]int{}
	var failing, excluded, known []*Obligation
	discharged, total := 0, 0
	backend := map[string]int{}
	solverS := 0.0
	canaryOK := map[string]bool{}
	canarySeen := map[string]bool{}
	for _, ob := range r.Obls {
		solverS += ob.Result.Seconds
		if ob.Canary {
			fn := ob.Unit + "/" + ob.Fn
			if strings.HasSuffix(ob.Name, "#canary.pre") {
				if ob.Result.Verdict == VUnsat {
					failing = append(failing, ob)
				}
				continue
			}
			canarySeen[fn] = true
			if ob.Result.Verdict != VUnsat {
				canaryOK[fn] = true
			}
			continue
		}
		total++
		if k := clauseKey(ob); k != "" {
			counts[k] = 1
		}
		if ob.Result.Verdict == VUnsat {
			discharged++
			backend[ob.Result.Backend]++
			continue
		}
		if matchAny(base.Excluded, ob.Name) {
			excluded = append(excluded, ob)
			continue
		}
		isKnown := false
		for _, f := range findings {
			if f.Status == "open" && f.Property == r.Property && f.Obligation != "" && matchAny([]string{f.Obligation}, ob.Name) {
				isKnown = true
			}
		}
		if isKnown {
			known = append(known, ob)
			continue
		}
		failing = append(failing, ob)
	}
	// vacuity: every function needs one feasible return/back-edge path
	for fn := range canarySeen {
		if !canaryOK[fn] {
			failing = append(failing, &Obligation{Name: fn + "#vacuity", Kind: "vacuity", Detail: "no feasible path to any return: contradictory contract or invariant",
				Result: SolverResult{Verdict: VUnsat}})
		}
	}
	// dropped obligations
	for k, n := range base.Counts {
		if counts[k] < n {
			failing = append(failing, &Obligation{Name: k + ".count", Kind: "count",
				Detail:  "this contract clause produced obligations on the unchanged tree and produces none now: a contract-derived obligation was dropped",
				Result: SolverResult{Verdict: VUnknown}})
		}
	}
	if update {
		nb := &Baseline{Property: r.Property, Counts: counts, Note: base.Note}
		// obligations that do not discharge are never excluded by an update: they stay violations until the
		// code or the machinery is repaired (the excluded list is maintained by hand and is empty)
		nb.Excluded = append(nb.Excluded, base.Own...)
		sort.Strings(nb.Excluded)
		nb.Excluded = dedup(nb.Excluded)
		_ = os.MkdirAll(filepath.Join(verifDir, "baseline"), 0o755)
		data, _ := json.MarshalIndent(nb, "", " ")
		_ = os.WriteFile(filepath.Join(verifDir, "baseline", r.Property+"."+r.Tier+".json"), append(data, '\n'), 0o644)
		fmt.Printf("baseline updated: %d counts, %d excluded\n", len(nb.Counts), len(nb.Excluded))
	}
	// known findings: print each open finding of this property whose obligations fail as recorded
	printed := map[string]bool{}
	for _, f := range findings {
		if f.Property != r.Property || f.Status != "open" {
			continue
		}
		hit := false
		for _, ob := range known {
			if matchAny([]string{f.Obligation}, ob.Name) {
				hit = true
			}
		}
		if hit && !printed[f.ID] {
			printed[f.ID] = true
			fmt.Printf("KNOWN-FINDING: property=%s %s %s\n", r.Property, f.ID, f.What)
		} else if !hit {
			r.Notes = append(r.Notes, fmt.Sprintf("known finding %s no longer reproduces (its obligations discharge); the findings file is not edited at run time", f.ID))
		}
	}
	// violations
	_ = os.MkdirAll(filepath.Join(verifDir, "replays"), 0o755)
	sort.Slice(failing, func(i, j int) bool { return failing[i].Name < failing[j].Name })
	r.unitWitnesses(failing) // illustration only: sets Ground where a failing input was found and replayed (witness_units.go)
	// the same for generated parsers and the template runtime (witness_search.go): differential search against a
	// reference interpreter of the PEG semantics
	if len(failing) > 0 {
		r.groundFailing(failing)
		// presentation only: violations that carry a failing input are listed first (at most 40 lines are printed)
		sort.SliceStable(failing, func(i, j int) bool { return failing[i].Ground != "" && failing[j].Ground == "" })
	}
	nviol := 0
	for _, ob := range failing {
		nviol++
		path := r.writeReplay(ob)
		suffix := " no-failing-input-found"
		if ob.Ground != "" {
			suffix = ""
		}
		fmt.Printf("VIOLATION property=%s replay=%s obligation=%s verdict=%s%s\n", r.Property, path, ob.Name, ob.Result.Verdict, suffix)
		if nviol >= 40 {
			fmt.Printf("... %d more failing obligations not printed\n", len(failing)-nviol)
			break
		}
	}
	r.writeEvidence(pd, total, discharged, len(failing), excluded, known, backend, solverS)
	fmt.Printf("%s %s: functions=%d obligations=%d discharged=%d excluded=%d known=%d failing=%d solver=%.1fs wall=%.1fs\n", r.Property, r.Tier,
		len(r.Fns), total, discharged, len(excluded), len(known), len(failing), solverS, time.Since(r.Start).Seconds())
	if len(failing) > 0 {
		return 1
	}
	return 0
}

func dedup(xs []string) []string {
	var out []string
	for i, x := range xs {
		if i == 0 || x != xs[i-1] {
			out = append(out, x)
		}
	}
	return out
}

func safeName(s string) string {
	return regexp.MustCompile(`[^A-Za-z0-9_.-]+`).ReplaceAllString(s, "_")
}

func (r *Run) writeReplay(ob *Obligation) string {
	path := filepath.Join(verifDir, "replays", r.Property+"-"+safeName(ob.Name)+".json")
	m := map[string]any{
		"property":       r.Property,
		"obligation":     ob.Name,
		"kind":           ob.Kind,
		"position":       ob.Pos,
		"clause":         ob.Detail,
		"verdict":        ob.Result.Verdict.String(),
		"solvers_tried":  ob.Result.Tried,
		"solver_output":  ob.Result.Output,
		"failing_input":  nil,
		"replay_command": fmt.Sprintf("cd /verif && ./check %s %s", r.Property, r.Tier),
		"note":           "the obligation discharged on the unchanged tree and does not discharge on this tree; no concrete failing input was produced (quantified obligations return unknown, not a model)",
	}
	if ob.Ground != "" {
		m["failing_input"] = ob.Ground
		m["note"] = "failing input replayed against the real code"
		// a witness of the unit searches is stored in structured form, with the command that reproduces it from this file
		if input, command, ok := groundForReplay(ob.Ground, path); ok {
			m["failing_input"] = input
			m["replay_command"] = command
			m["note"] = "the obligation does not discharge on this tree (that is the violation); failing_input illustrates it: a concrete input, found by the witness search and replayed against the real code, on which the code and the property disagree"
			} else if json.Valid([]byte(ob.Ground)) {
			// a witness of the parser search (witness_search.go: type Witness); `govc replay` needs nothing but this file
			m["failing_input"] = json.RawMessage(ob.Ground)
			m["replay_command"] = fmt.Sprintf("cd %s && bin/govc replay %s", verifDir, path)
			m["note"] = "the obligation does not discharge on this tree (that is the violation); failing_input illustrates it: an input, found by the witness search and replayed against the real code, on which the generated parser differs from the reference interpreter of the PEG semantics (DESIGN.md 4.2)"
		}
	}
	if q := ob.query(); q != "" && len(q) < 300000 {
		m["smt_query"] = q + "(check-sat)\n"
	}
	data, _ := json.MarshalIndent(m, "", " ")
	_ = os.WriteFile(path, append(data, '\n'), 0o644)
	return path
}

func (r *Run) writeEvidence(pd *propertyDef, total, discharged, nfail int, excluded, known []*Obligation, backend map[string]int, solverS float64) {
	var fns, refused []string
	for _, f := range r.Fns {
		if f.Verified {
			fns = append(fns, fmt.Sprintf("%s (%d obligations)", f.Key, f.NObl))
		} else {
			refused = append(refused, f.Key+": "+f.Reason)
		}
	}
	var samples []any
	for i, ob := range r.Obls {
		if ob.Canary || ob.Result.Verdict != VUnsat {
			continue
		}
		if len(samples) < 8 && (i%7 == 0 || len(samples) < 3) {
			samples = append(samples, map[string]any{"obligation": ob.Name, "kind": ob.Kind, "at": ob.Pos, "clause": trunc(ob.Detail, 300),
				"backend": ob.Result.Backend, "seconds": ob.Result.Seconds, "query_bytes": len(ob.Query)})
		}
	}
	samples = append(samples, r.Samples...)
	var trusted []string
	for t := range r.Trusted {
		trusted = append(trusted, t)
	}
	sort.Strings(trusted)
	var assume []string
	for a := range r.Assume {
		assume = append(assume, a)
	}
	for _, u := range r.Units {
		for _, x := range u.CS.SMT {
			assume = append(assume, "axiom (contract file, raw SMT): "+trunc(x, 200))
		}
		for _, f := range sortedKeys(u.CS.Funcs) {
			if u.CS.Funcs[f].Trusted {
				assume = append(assume, "trusted contract (body not verified): "+f)
			}
		}
	}
	sort.Strings(assume)
	assume = dedup(assume)
	if assume == nil {
		assume = []string{}
	}
	var exNames, knNames []string
	for _, ob := range excluded {
		exNames = append(exNames, ob.Name)
	}
	for _, ob := range known {
		knNames = append(knNames, ob.Name)
	}
	cov := map[string]any{
		"obligations":           total - len(excluded) - len(known),
		"discharged":            discharged,
		"checker_cmd":           fmt.Sprintf("cd /verif && ./check %s %s   (govc: VCs from /repo's working tree; z3-new 5.1.0 / z3 4.8.12 / cvc5 1.0.3 portfolio, %ds per obligation)", r.Property, r.Tier, r.Budget),
		"trusted_base":          append([]string{"govc VC generator (/verif/govc)", "SMT solvers z3-new 5.1.0, z3 4.8.12, cvc5 1.0.3", "Go semantics as modelled in DESIGN.md 3.3"}, trusted...),
		"functions_under_contract": fns,
		"functions_not_verified":   refused,
		"by_backend":            backend,
		"solver_seconds":        solverS,
		"samples":               samples,
		"excluded_undecided":    exNames,
		"known_finding_obligations": knNames,
		"failing":               nfail,
		"notes":                 r.Notes,
	}
	for k, v := range r.Extra {
		cov[k] = v
	}
	if pd.Level == "translation_validation" {
		cov["programs"] = r.Programs
		cov["disagreements_checked"] = nfail + len(known)
	}
	if pd.Level == "other" {
		if _, ok := cov["explanation"]; !ok {
			cov["explanation"] = "see DESIGN.md"
		}
	}
	ev := map[string]any{
		"property_id": r.Property,
		"tier":        r.Tier,
		"seed":        r.Seed,
		"level":       pd.Level,
		"coverage":    cov,
		"assumptions": assume,
		"wall_s":      time.Since(r.Start).Seconds(),
		"violations":  nfail,
	}
	_ = os.MkdirAll(filepath.Join(verifDir, "evidence"), 0o755)
	data, _ := json.MarshalIndent(ev, "", " ")
	_ = os.WriteFile(filepath.Join(verifDir, "evidence", r.Property+".json"), append(data, '\n'), 0o644)
}
