package main

// Witness search for the tree builder and the grammar of grammars (property C10: unit "tree" builder methods, unit "pegpeg").
// Grammar texts are generated from the abstract syntax of witness_grammar.go in every documented spelling; the expected
// rule tree is that abstract syntax (its documented meaning), the actual one is what the real front end builds (treedump).
// Malformed texts (malformed by construction: unbalanced or unterminated tokens, missing parts, unknown escapes, empty
// literals and classes) must be rejected with an error and a non-zero exit status, never a crash, never accepted.

import (
	"encoding/json"
	"fmt"
	"math/rand"
	"os"
	"os/exec"
	"path/filepath"
	"strings"
	"time"
)

// synCase: the `input` of a syntax witness
type synCase struct {
	Name      string   `json:"construct"`
	Text      string   `json:"grammar_text"`
	Malformed bool     `json:"malformed"`
	Expect    []string `json:"expected_tree,omitempty"` // header items and one line per rule, in the normal form of witness_grammar.go
	Methods   []string `json:"-"`
}

func synGrammar(rules ...grule) *ggrammar {
	return &ggrammar{Package: "p", Type: "T", Rules: rules}
}

func synValid(name string, g *ggrammar, seed int64, variants bool) *synCase {
	p := newPrinter(seed, variants)
	text, _ := p.print(g)
	p.used["peg.peg"] = true
	return &synCase{Name: name, Text: text, Expect: expectedLines(g), Methods: sortedSet(p.used)}
}

func chars(sp string, rs ...rune) []gchar {
	var out []gchar
	for _, r := range rs {
		out = append(out, gchar{R: r, Sp: sp})
	}
	return out
}

// synSystematic: every documented construct on its own, in each context and spelling
func synSystematic() []*synCase {
	var out []*synCase
	one := func(name string, body *gx) {
		out = append(out, synValid(name, synGrammar(grule{"R", body}), 0, false))
	}
	inContexts := func(name string, c gchar, caseSensitiveOnly bool) {
		one(name+" in a single-quoted literal", &gx{K: "lit", Chars: []gchar{c}})
		one(name+" in a class", &gx{K: "class", Items: []gitem{{Lo: c}}})
		one(name+" in a negated class", &gx{K: "class", Neg: true, Items: []gitem{{Lo: c}}})
		lo, hi := c, gchar{R: c.R + 3, Sp: c.Sp}
		if hi.R > 0x10FFFF {
			lo, hi = gchar{R: c.R - 3, Sp: c.Sp}, c
		}
		one(name+" as the ends of a range", &gx{K: "class", Items: []gitem{{Lo: lo, Hi: hi, IsRange: true}}})
		one(name+" between characters", &gx{K: "lit", Chars: []gchar{{R: 'x'}, c, {R: 'y'}}})
		if !caseSensitiveOnly {
			one(name+" in a double-quoted literal", &gx{K: "dlit", Chars: []gchar{c}})
			one(name+" in a case-insensitive class", &gx{K: "class", Dbl: true, Items: []gitem{{Lo: c}}})
		}
	}
	for _, r := range []rune{7, 8, 27, 12, 10, 13, 9, 11, '\'', '"', '[', ']', '-', '\\'} {
		inContexts(fmt.Sprintf("escape \\%s", gNamedEscape[r]), gchar{R: r, Sp: "esc"}, false)
	}
	for _, r := range []rune{0, 1, 7, 0o10, 0o12, 0o41, 0o77, 0o101, 0o141, 0o177, 0o200, 0o277, 0o300, 0o377} {
		for _, sp := range []string{"oct", "oct3"} {
			inContexts(fmt.Sprintf("octal escape of U+%04X (%s)", r, sp), gchar{R: r, Sp: sp}, isASCIILetter(r))
		}
	}
	for _, r := range []rune{0, 9, 0x41, 0x61, 0x7f, 0x80, 0xe9, 0xff, 0x100, 0x2190, 0xFFFD, 0x1F600, 0x10FFFF} {
		for _, sp := range []string{"hex", "HEX"} {
			inContexts(fmt.Sprintf("hexadecimal escape of U+%04X (%s)", r, sp), gchar{R: r, Sp: sp}, isASCIILetter(r))
		}
	}
	// a numeric escape followed by a character that could continue it
	one("octal escape followed by a digit", &gx{K: "lit", Chars: []gchar{{R: 1, Sp: "oct"}, {R: '2'}}})
	one("octal escape \\0 followed by x", &gx{K: "lit", Chars: []gchar{{R: 0, Sp: "oct"}, {R: 'x'}, {R: '4'}, {R: '1'}}})
	one("two-digit octal escape followed by 8", &gx{K: "lit", Chars: []gchar{{R: 0o12, Sp: "oct"}, {R: '8'}}})
	one("hexadecimal escape followed by a non-digit", &gx{K: "lit", Chars: []gchar{{R: 0x4a, Sp: "hex"}, {R: 'g'}}})
	one("hexadecimal escape at the end of a class", &gx{K: "class", Items: []gitem{{Lo: gchar{R: 'a'}}, {Lo: gchar{R: 0x2190, Sp: "hex"}}}})
	// literals
	one("single-quoted literal", gLit("abc"))
	one("single-quoted literal is case-sensitive", gLit("aBc"))
	one("double-quoted literal is case-insensitive", gDLit("abc"))
	one("double-quoted literal, upper case and digits", gDLit("A1b-Z"))
	one("double quote inside single quotes", gLit("a\"b"))
	one("single quote inside double quotes", gDLit("a'b"))
	one("non-ASCII characters", gLit("é→😀"))
	one("one character", gLit("a"))
	one("one case-insensitive character", gDLit("q"))
	// classes
	rg := func(a, b rune) gitem { return gitem{Lo: gchar{R: a}, Hi: gchar{R: b}, IsRange: true} }
	ch := func(a rune) gitem { return gitem{Lo: gchar{R: a}} }
	one("class of one character", &gx{K: "class", Items: []gitem{ch('a')}})
	one("class of characters", &gx{K: "class", Items: []gitem{ch('a'), ch('b'), ch('c')}})
	one("class with a range", &gx{K: "class", Items: []gitem{rg('a', 'z')}})
	one("class with ranges and characters", &gx{K: "class", Items: []gitem{rg('a', 'c'), rg('x', 'z'), ch('0'), ch('_')}})
	one("negated class", &gx{K: "class", Neg: true, Items: []gitem{rg('a', 'z')}})
	one("negated class of characters", &gx{K: "class", Neg: true, Items: []gitem{ch('{'), ch('}')}})
	one("case-insensitive class, lower case range", &gx{K: "class", Dbl: true, Items: []gitem{rg('a', 'z')}})
	one("case-insensitive class, upper case range", &gx{K: "class", Dbl: true, Items: []gitem{rg('A', 'F')}})
	one("case-insensitive class, digits", &gx{K: "class", Dbl: true, Items: []gitem{rg('0', '9')}})
	one("case-insensitive class, characters", &gx{K: "class", Dbl: true, Items: []gitem{ch('a'), ch('1'), ch('Z')}})
	one("case-insensitive negated class", &gx{K: "class", Dbl: true, Neg: true, Items: []gitem{rg('a', 'c'), ch('_')}})
	one("class with brackets and dash", &gx{K: "class", Items: []gitem{ch(']'), ch('['), ch('-'), ch('a')}})
	one("class with a caret that does not negate", &gx{K: "class", Items: []gitem{ch('a'), ch('^')}})
	one("class with quotes", &gx{K: "class", Items: []gitem{ch('\''), ch('"')}})
	// operators and precedence
	a, b, c, d := gLit("a"), gLit("b"), gName("C"), gName("D")
	act := func(s string) *gx { return &gx{K: "action", S: s} }
	one("dot", gDot())
	one("rule reference", gSeq(c, d))
	one("sequence binds tighter than alternation", gAlt(gSeq(a, b), gSeq(c, d)))
	one("grouping in a sequence", gSeq(a, gAlt(b, c), d))
	one("grouping of a sequence in a sequence", gSeq(a, gSeq(b, c)))
	one("three alternatives", gAlt(a, b, c))
	one("prefix applies to the suffixed expression", gSeq(gUn("not", gUn("star", a)), gUn("and", gUn("plus", b))))
	one("suffix operators", gSeq(gUn("query", a), gUn("star", b), gUn("plus", c)))
	one("suffix on a group", gUn("star", gAlt(a, gSeq(b, c))))
	one("suffix on a suffixed group", gUn("plus", gUn("query", a)))
	one("prefix on a prefixed group", gUn("not", gUn("and", a)))
	one("prefix on a class and a dot", gSeq(gUn("not", &gx{K: "class", Items: []gitem{ch('a')}}), gDot()))
	one("not any character", gSeq(a, gUn("not", gDot())))
	one("capture", gSeq(gUn("push", gSeq(a, b)), act(" use(text) ")))
	one("capture of alternatives with a suffix", gUn("query", gUn("push", gAlt(a, b))))
	one("nested captures", gUn("push", gSeq(a, gUn("push", b))))
	one("empty last alternative", gAlt(a, b, gNil()))
	one("empty last alternative in a group", gSeq(gAlt(a, gNil()), b))
	one("empty body", gNil())
	one("empty group", gSeq(a, gNil()))
	one("action", gSeq(a, act(" p.n++ ")))
	one("action with nested braces", gSeq(a, act(" if p.n > 0 { for i := 0; i < 2; i++ { p.n-- } } ")))
	one("empty action", gSeq(a, act("")))
	one("action with a composite literal", act(" x := map[string][]int{\"a\": {1, 2}}; _ = x "))
	one("look-ahead on an action", gSeq(gUn("and", act(" p.n++ ")), a))
	one("semantic predicate", gSeq(&gx{K: "pred", S: " p.n > 0 "}, a))
	one("state change", gSeq(&gx{K: "state", S: " p.n = 0 "}, a))
	one("predicate and look-ahead mixed", gSeq(&gx{K: "pred", S: " true "}, gUn("and", a), &gx{K: "state", S: " p.n = 1 "}, gUn("not", b)))
	// several rules, header
	multi := synGrammar(grule{"First", gSeq(gName("second"), gName("_third3"))}, grule{"second", gAlt(a, gNil())}, grule{"_third3", gUn("star", gDot())})
	out = append(out, synValid("several rules", multi, 0, false))
	hdr := func(name string, f func(g *ggrammar)) {
		g := synGrammar(grule{"R", gSeq(a, b)})
		f(g)
		out = append(out, synValid(name, g, 0, false))
	}
	hdr("one import", func(g *ggrammar) { g.Imports = []gimport{{"", "fmt"}} })
	hdr("imports with path and alias", func(g *ggrammar) {
		g.Imports = []gimport{{"", "fmt"}, {"Str2", "strings"}, {"", "github.com/x/y-z/v2"}, {"_u", "a/b.c"}}
	})
	hdr("import block", func(g *ggrammar) {
		g.MultiImport, g.Imports = true, []gimport{{"", "fmt"}, {"str", "strings"}, {"", "os"}}
	})
	hdr("header comments in both spellings", func(g *ggrammar) { g.Comments = []string{" first", " second // # x", ""} })
	hdr("parser state", func(g *ggrammar) {
		g.State, g.Type, g.Package = "\n n int\n m map[string]struct{ a, b int }\n", "Parser_1", "pkg_x"
	})
	return out
}

// synVariants: fixed grammars in random spellings (arrows, white space, comments, redundant grouping)
func synVariants(n int, seed int64) []*synCase {
	a, b := gLit("ab"), gDLit("c")
	g := synGrammar(
		grule{"Start", gSeq(gName("Item"), gUn("star", gSeq(gLit(","), gName("Item"))), gUn("not", gDot()))},
		grule{"Item", gAlt(gSeq(gUn("push", gUn("plus", &gx{K: "class", Items: []gitem{{Lo: gchar{R: '0'}, Hi: gchar{R: '9'}, IsRange: true}}})), &gx{K: "action", S: " p.add(text) "}),
			gSeq(a, gUn("query", b)), gSeq(gUn("and", gName("Word")), gName("Word")), gNil())},
		grule{"Word", gSeq(&gx{K: "class", Dbl: true, Items: []gitem{{Lo: gchar{R: 'a'}, Hi: gchar{R: 'z'}, IsRange: true}}}, gUn("star", &gx{K: "class", Neg: true, Items: []gitem{{Lo: gchar{R: ' '}}, {Lo: gchar{R: ','}}}}))},
	)
	g.Imports = []gimport{{"", "fmt"}}
	g.Comments = []string{" a list"}
	var out []*synCase
	for i := 0; i < n; i++ {
		out = append(out, synValid("spelling variant of a three-rule grammar", g, seed+int64(i)+1, true))
	}
	return out
}

var synRunes = []rune("abcxyzABCXYZ0189 !#$%&'\"()+,-./:;<=>?@[\\]^_`{|}~\n\t\a\x1b\x7féß→😀")

func synRandomChar(rng *rand.Rand, insensitive bool) gchar {
	r := synRunes[rng.Intn(len(synRunes))]
	if r == '*' {
		r = '+'
	}
	if insensitive && isASCIILetter(r) {
		return gchar{R: r}
	}
	sps := []string{"", "", "", "esc", "oct", "oct3", "hex", "HEX"}
	c := gchar{R: r, Sp: sps[rng.Intn(len(sps))]}
	if insensitive && c.Sp != "" && c.Sp != "esc" && isASCIILetter(r) {
		c.Sp = ""
	}
	return c
}

func synRandomClass(rng *rand.Rand) *gx {
	e := &gx{K: "class", Neg: rng.Intn(4) == 0, Dbl: rng.Intn(3) == 0}
	n := 1 + rng.Intn(3)
	for i := 0; i < n; i++ {
		if rng.Intn(2) == 0 {
			bases := []rune{'a', 'A', '0'}
			width := []int{20, 20, 8}
			k := rng.Intn(3)
			lo := bases[k] + rune(rng.Intn(width[k]/2))
			hi := lo + rune(1+rng.Intn(width[k]/2-1))
			e.Items = append(e.Items, gitem{Lo: gchar{R: lo}, Hi: gchar{R: hi}, IsRange: true})
			continue
		}
		c := synRandomChar(rng, e.Dbl)
		if e.Dbl && isASCIILetter(c.R) {
			c.Sp = ""
		}
		e.Items = append(e.Items, gitem{Lo: c})
	}
	return e
}

var synActions = []string{" p.n++ ", "", " if p.n > 0 { p.n-- } ", " x := []int{1, 2}; _ = x "}

func synRandomExpr(rng *rand.Rand, names []string, depth int) *gx {
	if depth == 0 || rng.Intn(5) == 0 {
		switch k := rng.Intn(12); {
		case k < 3:
			n := 1 + rng.Intn(3)
			e := &gx{K: "lit"}
			if rng.Intn(3) == 0 {
				e.K = "dlit"
			}
			for i := 0; i < n; i++ {
				e.Chars = append(e.Chars, synRandomChar(rng, e.K == "dlit"))
			}
			return e
		case k < 5:
			return synRandomClass(rng)
		case k < 8:
			return gName(names[rng.Intn(len(names))])
		case k < 9:
			return gDot()
		case k < 10:
			return &gx{K: "action", S: synActions[rng.Intn(len(synActions))]}
		case k < 11:
			return &gx{K: "pred", S: " p.n > 0 "}
		default:
			return &gx{K: "state", S: " p.n = 0 "}
		}
	}
	switch k := rng.Intn(10); {
	case k < 3:
		n := 2 + rng.Intn(3)
		var kids []*gx
		for i := 0; i < n; i++ {
			kids = append(kids, synRandomExpr(rng, names, depth-1))
		}
		return gSeq(kids...)
	case k < 5:
		n := 2 + rng.Intn(2)
		var kids []*gx
		for i := 0; i < n; i++ {
			kids = append(kids, synRandomExpr(rng, names, depth-1))
		}
		if rng.Intn(4) == 0 {
			kids = append(kids, gNil())
		}
		return gAlt(kids...)
	default:
		ops := []string{"query", "star", "plus", "and", "not", "push"}
		return gUn(ops[rng.Intn(len(ops))], synRandomExpr(rng, names, depth-1))
	}
}

func synRandom(n int, seed int64) []*synCase {
	rng := rand.New(rand.NewSource(seed))
	pool := []string{"A", "b", "Rule_1", "_x", "Expr", "term2", "Z9"}
	var out []*synCase
	for i := 0; i < n; i++ {
		k := 1 + rng.Intn(4)
		names := pool[:k]
		var rules []grule
		for _, nm := range names {
			rules = append(rules, grule{nm, synRandomExpr(rng, pool[:k+1], 1+rng.Intn(3))})
		}
		out = append(out, synValid("random grammar", synGrammar(rules...), seed*1000+int64(i), true))
	}
	return out
}

// synMalformed: texts that are not grammars, by construction
func synMalformed() []*synCase {
	const h = "package p\n\ntype T Peg {}\n\n"
	var out []*synCase
	all := append([]string{"peg.peg"}, builderKeys...)
	add := func(name, text string) {
		out = append(out, &synCase{Name: "malformed: " + name, Text: text, Malformed: true, Methods: all})
	}
	bodies := []struct{ name, body string }{
		{"unclosed parenthesis", "'a' ( 'b'"}, {"unclosed parenthesis at the end", "'a' ("}, {"unmatched closing parenthesis", "'a' )"},
		{"unterminated single-quoted literal", "'ab"}, {"unterminated double-quoted literal", "\"ab"}, {"unterminated literal after an escape", "'a\\'"},
		{"unterminated class", "[a-z"}, {"unterminated class after a dash", "[a-"}, {"unterminated case-insensitive class", "[[a-z"}, {"class opener alone", "["},
		{"unterminated action", "'a' { p.n++"}, {"unbalanced braces in an action", "'a' { if x { y() }"}, {"unmatched closing brace", "'a' }"},
		{"unclosed capture", "< 'a'"}, {"unmatched capture end", "'a' >"},
		{"prefix operator without operand", "'a' &"}, {"negation without operand", "!"}, {"suffix operator without operand", "* 'a'"}, {"two suffix operators", "'a' * +"},
		{"two slashes", "'a' / / 'b'"}, {"leading slash", "/ 'a'"},
		{"unknown escape in a literal", "'\\q'"}, {"digit 8 as an octal escape", "'\\8'"}, {"unknown escape in a class", "[\\q]"},
		{"backslash at the end of a literal", "'a\\"},
		{"empty single-quoted literal", "''"}, {"empty double-quoted literal", "\"\""}, {"empty class", "[]"}, {"empty case-insensitive class", "[[]]"},
		{"empty literal in a sequence", "'' 'a'"}, {"empty literal after an element", "'a' ''"}, {"empty class in a choice", "'a' / []"},
		{"stray character", "'a' % 'b'"}, {"semicolon", "'a' ;"}, {"equals sign for the arrow", "= 'a'"},
		{"arrow twice", "<- 'a'"}, {"number as a name", "1x"},
	}
	for _, b := range bodies {
		add(b.name, h+"A <- "+b.body+"\n")
		add(b.name+", followed by a rule", h+"A <- "+b.body+"\nB <- 'b'\n")
		add(b.name+", in the second rule", h+"A <- B\nB <- "+b.body+"\n")
	}
	add("no rules", h)
	add("rule without arrow", h+"A 'a'\n")
	add("no header", "A <- 'a'\n")
	add("no type declaration", "package p\n\nA <- 'a'\n")
	add("type declaration without braces", "package p\n\ntype T Peg\n\nA <- 'a'\n")
	add("package without a name", "package\n\ntype T Peg {}\n\nA <- 'a'\n")
	add("import without quotes", "package p\n\nimport fmt\n\ntype T Peg {}\n\nA <- 'a'\n")
	add("unterminated import", "package p\n\nimport \"fmt\n\ntype T Peg {}\n\nA <- 'a'\n")
	add("unterminated import block", "package p\n\nimport (\n\"fmt\"\n\ntype T Peg {}\n\nA <- 'a'\n")
	add("empty text", "")
	add("white space only", " \n\t\n")
	add("text after the last rule", h+"A <- 'a'\n)\n")
	add("truncated inside the type declaration", "package p\n\ntype T Peg {")
	add("truncated after the arrow of the second rule", h+"A <- 'a'\nB <- 'b' (")
	return out
}

func synCrash(s string) bool {
	return strings.Contains(s, "panic:") || strings.Contains(s, "fatal error:") || strings.Contains(s, "goroutine 1 [")
}

// judgeSyntaxResult: in-process pre-selection
func judgeSyntaxResult(c *synCase, res *harnessResult) bool {
	if res.Crash != "" || res.Panic != "" {
		return true
	}
	if c.Malformed {
		return res.ParseError == ""
	}
	if res.ParseError != "" {
		return true
	}
	if w, _ := firstDifference(c.Expect, actualLines(res.Tree)); w != "" {
		return true
	}
	for _, line := range strings.Split(res.CompileError, "\n") {
		if line = strings.TrimSpace(line); line != "" && !strings.HasPrefix(line, "warning: ") {
			return true
		}
	}
	return false
}

// runTool runs a binary on a grammar file and returns exit status, standard output and standard error.
func runTool(bin string, args ...string) (int, string, string) {
	cmd := exec.Command(bin, args...)
	var so, se strings.Builder
	cmd.Stdout, cmd.Stderr = &so, &se
	if err := cmd.Start(); err != nil {
		return -1, "", err.Error()
	}
	done := make(chan error, 1)
	go func() { done <- cmd.Wait() }()
	select {
	case <-done:
		return cmd.ProcessState.ExitCode(), so.String(), se.String()
	case <-time.After(20 * time.Second):
		_ = cmd.Process.Kill()
		<-done
		return -2, so.String(), se.String() + "\nfatal error: killed, no exit within 20 s"
	}
}

// checkSyntaxCase runs treedump and peg on the text; nil: the real front end behaves as documented.
func checkSyntaxCase(c *synCase) (*UnitWitness, error) {
	t, err := buildTools()
	if err != nil {
		return nil, err
	}
	d, err := os.MkdirTemp(witnessDir("syntax"), "g-")
	if err != nil {
		return nil, err
	}
	defer os.RemoveAll(d)
	file := filepath.Join(d, "g.peg")
	if err := os.WriteFile(file, []byte(c.Text), 0o644); err != nil {
		return nil, err
	}
	mk := func(obs, expected, actual string) *UnitWitness {
		in, _ := json.Marshal(c)
		return &UnitWitness{Unit: "tree", Kind: "syntax", Functions: c.Methods, Input: in, Observation: c.Name + ": " + obs, Expected: expected, Actual: actual,
			Rerun: "govc replay-unit <this file>: writes grammar_text to a file, runs the treedump tool (the real front end, built from " + repoDir + ") and peg on it and compares with expected_tree / expects rejection"}
	}
	tdExit, tdOut, tdErr := runTool(t.TreeDump, file)
	pegExit, _, pegErr := runTool(t.Peg, "-output", filepath.Join(d, "g.go"), file)
	if synCrash(tdErr) {
		return mk("front end (treedump) on the text", "a rule tree or a syntax error, never a crash", trunc(tdErr, 500)), nil
	}
	if synCrash(pegErr) {
		return mk("peg on the text", "a parser or an error message, never a crash", trunc(pegErr, 500)), nil
	}
	if c.Malformed {
		if tdExit == 0 {
			var top []*PNode
			_ = json.Unmarshal([]byte(tdOut), &top)
			return mk("front end (treedump) on the text", "a syntax error and a non-zero exit status (the text is not a grammar)",
				fmt.Sprintf("accepted; tree: %s; peg: exit status %d, standard error: %s", trunc(strings.Join(actualLines(top), " | "), 400), pegExit, trunc(pegErr, 200))), nil
		}
		if pegExit == 0 || strings.TrimSpace(pegErr) == "" {
			return mk("peg on the text", "a non-zero exit status and an error message (the text is not a grammar)", fmt.Sprintf("exit status %d, standard error: %s", pegExit, trunc(pegErr, 300))), nil
		}
		return nil, nil
	}
	if tdExit != 0 {
		return mk("front end (treedump) on the text", "accepted (the text uses documented syntax only)", fmt.Sprintf("exit status %d: %s", tdExit, trunc(tdErr, 300))), nil
	}
	var top []*PNode
	if err := json.Unmarshal([]byte(tdOut), &top); err != nil {
		return nil, err
	}
	if want, got := firstDifference(c.Expect, actualLines(top)); want != "" {
		return mk("rule tree built by the front end", want, got), nil
	}
	if pegExit != 0 {
		return mk("peg on the text", "exit status 0 (a valid grammar; diagnostics are warnings without -strict)", fmt.Sprintf("exit status %d, standard error: %s", pegExit, trunc(pegErr, 400))), nil
	}
	return nil, nil
}

func (r *Run) witnessSyntax(obs []*Obligation, deadline time.Time) *searchNote {
	note := &searchNote{Unit: "tree", Functions: failingFunctions(obs)}
	failing := map[string]bool{}
	for _, f := range note.Functions {
		failing[f] = true
	}
	nVar, nRand := 100, 8000
	if r.Tier == "thorough" {
		nVar, nRand = 400, 40000
	}
	var cases []*synCase
	cases = append(cases, synSystematic()...)
	cases = append(cases, synMalformed()...)
	cases = append(cases, synVariants(nVar, int64(r.Seed))...)
	cases = append(cases, synRandom(nRand, int64(r.Seed)+10)...)
	const batch = 4000
	for lo := 0; lo < len(cases); lo += batch {
		if time.Until(deadline) < 4*time.Second {
			break
		}
		part := cases[lo:min(lo+batch, len(cases))]
		texts := make([]string, len(part))
		for i, c := range part {
			texts[i] = c.Text
		}
		results, err := runHarness(texts, deadline.Add(-3*time.Second), 4)
		if err != nil {
			note.Detail = "harness: " + trunc(err.Error(), 300)
			return note
		}
		// candidates that run through a failing function first
		var first, rest []*synCase
		for i, res := range results {
			if res == nil {
				continue
			}
			note.Tried++
			if !judgeSyntaxResult(part[i], res) {
				continue
			}
			through := false
			for _, m := range part[i].Methods {
				if failing[m] && m != "peg.peg" {
					through = true
				}
			}
			if through && !part[i].Malformed {
				first = append(first, part[i])
			} else {
				rest = append(rest, part[i])
			}
		}
		var found []*UnitWitness
		debug := os.Getenv("GOVC_WIT_DEBUG") != "" // development: print every confirmed candidate
		for k, c := range append(first, rest...) {
			if (k >= 12 && !debug) || time.Now().After(deadline) {
				break
			}
			if debug {
				if w, _ := checkSyntaxCase(c); w != nil {
					fmt.Printf("DEBUG %s\n   text: %q\n   expected: %s\n   actual:   %s\n", w.Observation, c.Text, trunc(w.Expected, 300), trunc(w.Actual, 300))
				}
				continue
			}
			w, err := checkSyntaxCase(c)
			if err != nil || w == nil {
				continue
			}
			found = append(found, w)
			attach(obs, w, false)
			open := false
			for _, ob := range obs {
				if ob.Ground == "" {
					open = true
				}
			}
			if !open {
				break
			}
		}
		if len(found) > 0 {
			note.Found = true
			w := found[0]
			note.Detail = fmt.Sprintf("%s; expected %s; actual %s", w.Observation, trunc(w.Expected, 300), trunc(w.Actual, 300))
			return note
		}
	}
	note.Detail += "the front end builds the documented tree for every generated text and rejects every malformed one"
	return note
}

func replaySyntax(w *UnitWitness) (*UnitWitness, error) {
	var c synCase
	if err := json.Unmarshal(w.Input, &c); err != nil {
		return nil, err
	}
	c.Methods = w.Functions
	return checkSyntaxCase(&c)
}
