package main

// Witness search for unit "main" (property C18): the peg binary built from the working tree is run on a fixed list of
// scenarios (sources: file, standard input, missing file, directory; destinations: default name, named file, existing file,
// standard output, destinations that cannot be opened, destinations that open but cannot be written; grammars: valid, with
// warnings, with a syntax error, empty; with and without -strict and the generator options). What is expected comes from
// the property text alone:
//
//	exit status 0  <=>  the scenario is one in which a parser can be written (readable grammar without syntax error, no
//	                    diagnostics under -strict, writable destination), and then the destination holds a complete parser
//	                    (a Go file that parses, declares the parser type and ends with its Init method);
//	otherwise a non-zero exit status and a message on standard error.

import (
	"bytes"
	"encoding/json"
	"fmt"
	"go/ast"
	"go/parser"
	"go/token"
	"os"
	"os/exec"
	"path/filepath"
	"strings"
	"time"
)

// cliScenario: one run of the command in a fresh directory ("$D" in Args, Dest and Stdin stands for that directory).
type cliScenario struct {
	Name    string            `json:"name"`
	Files   map[string]string `json:"files,omitempty"` // relative path -> content
	Dirs    []string          `json:"dirs,omitempty"`  // relative paths of directories to create
	Args    []string          `json:"args"`
	Stdin   string            `json:"stdin,omitempty"` // file connected to standard input ("" = empty input)
	Stdout  string            `json:"stdout"`          // "capture" | "readonly" (descriptor not open for writing) | "/dev/full"
	Dest    string            `json:"destination"`     // file that has to hold the parser, or "stdout"
	Succeed bool              `json:"expect_success"`
	Why     string            `json:"why"`
	Type    string            `json:"parser_type"` // name of the parser type the grammar declares
}

const (
	cliGood = "package main\n\ntype T Peg {}\n\nS <- 'a' B* !.\nB <- 'b' / [c-e]\n"
	// one diagnostic of each kind (they are warnings: a parser is still written unless -strict is given)
	cliUnused    = "package main\n\ntype T Peg {}\n\nS <- 'a' !.\nU <- 'u'\n"
	cliUndefined = "package main\n\ntype T Peg {}\n\nS <- 'a' X !.\n"
	cliLeftRec   = "package main\n\ntype T Peg {}\n\nS <- S 'a' / 'b'\n"
	cliSyntax    = "package main\n\ntype T Peg {}\n\nS <- 'a' ( 'b'\n"
	cliNoHeader  = "S <- 'a'\n"
	cliDuplicate = "package main\n\ntype T Peg {}\n\nS <- 'a' A\nA <- 'x'\nA <- 'y'\n"
	cliActions   = "package main\n\nimport \"fmt\"\n\ntype T Peg {\n n int\n}\n\nS <- <'a'+> { p.n++; fmt.Println(text) } B !.\nB <- &{ p.n > 0 } 'b' / 'c'\n"
)

// cliScenarios: the fixed list; every scenario is derived for both values of -strict where that makes a difference.
func cliScenarios() []*cliScenario {
	var out []*cliScenario
	add := func(sc *cliScenario) {
		if sc.Type == "" {
			sc.Type = "T"
		}
		if sc.Stdout == "" {
			sc.Stdout = "capture"
		}
		out = append(out, sc)
	}
	big := strings.Repeat("// left over from an earlier, longer file\nvar x = 1 +\n", 4000)
	for _, strict := range []bool{false, true} {
		pre := []string{}
		tag := ""
		if strict {
			pre, tag = []string{"-strict"}, " -strict"
		}
		args := func(a ...string) []string { return append(append([]string{}, pre...), a...) }
		// --- a parser can be written
		add(&cliScenario{Name: "default destination" + tag, Files: map[string]string{"g.peg": cliGood}, Args: args("$D/g.peg"), Dest: "$D/g.peg.go", Succeed: true,
			Why: "valid grammar, no -output: the parser goes to <grammar>.go"})
		add(&cliScenario{Name: "named destination" + tag, Files: map[string]string{"g.peg": cliGood}, Args: args("-output", "$D/out.go", "$D/g.peg"), Dest: "$D/out.go", Succeed: true,
			Why: "valid grammar, writable named file"})
		add(&cliScenario{Name: "existing longer destination" + tag, Files: map[string]string{"g.peg": cliGood, "out.go": big}, Args: args("-output", "$D/out.go", "$D/g.peg"), Dest: "$D/out.go", Succeed: true,
			Why: "the destination exists and is longer than the parser: it has to be replaced, not overwritten in place"})
		add(&cliScenario{Name: "file to standard output" + tag, Files: map[string]string{"g.peg": cliGood}, Args: args("-output", "-", "$D/g.peg"), Dest: "stdout", Succeed: true,
			Why: "-output - writes the parser to standard output"})
		add(&cliScenario{Name: "standard input to standard output" + tag, Files: map[string]string{"g.peg": cliGood}, Args: args(), Stdin: "$D/g.peg", Dest: "stdout", Succeed: true,
			Why: "no file argument: the grammar is read from standard input, the parser goes to standard output"})
		add(&cliScenario{Name: "standard input (-) to a named file" + tag, Files: map[string]string{"g.peg": cliGood}, Args: args("-output", "$D/out.go", "-"), Stdin: "$D/g.peg", Dest: "$D/out.go", Succeed: true,
			Why: "the argument - reads standard input"})
		add(&cliScenario{Name: "grammar with actions and imports" + tag, Files: map[string]string{"g.peg": cliActions}, Args: args("-output", "$D/out.go", "$D/g.peg"), Dest: "$D/out.go", Succeed: true,
			Why: "valid grammar with actions, a predicate, state and an import"})
		for _, opts := range [][]string{{"-inline"}, {"-switch"}, {"-noast"}, {"-inline", "-switch", "-noast"}} {
			add(&cliScenario{Name: "options " + strings.Join(opts, " ") + tag, Files: map[string]string{"g.peg": cliGood}, Args: args(append(append([]string{}, opts...), "-output", "$D/out.go", "$D/g.peg")...),
				Dest: "$D/out.go", Succeed: true, Why: "valid grammar under generator options"})
		}
		// --- diagnostics: warnings without -strict (a parser is written), errors with it
		for _, g := range []struct{ name, text string }{{"unused rule", cliUnused}, {"undefined rule", cliUndefined}, {"left recursion", cliLeftRec}} {
			add(&cliScenario{Name: "grammar with a warning (" + g.name + ")" + tag, Files: map[string]string{"g.peg": g.text}, Args: args("-output", "$D/out.go", "$D/g.peg"), Dest: "$D/out.go",
				Succeed: !strict, Why: "a grammar with a diagnostic generates a parser (with a warning) unless -strict is given; with -strict it is a failure"})
		}
		// --- no parser can be written
		fail := func(name, why string, sc *cliScenario) {
			sc.Name, sc.Why, sc.Succeed = name+tag, why, false
			add(sc)
		}
		fail("missing grammar file", "the grammar file does not exist", &cliScenario{Args: args("$D/missing.peg"), Dest: "$D/missing.peg.go"})
		fail("missing grammar file, named destination", "the grammar file does not exist", &cliScenario{Args: args("-output", "$D/out.go", "$D/missing.peg"), Dest: "$D/out.go"})
		fail("directory as grammar", "the grammar argument is a directory: it cannot be read", &cliScenario{Dirs: []string{"dir"}, Args: args("-output", "$D/out.go", "$D/dir"), Dest: "$D/out.go"})
		fail("syntax error", "the grammar has a syntax error (unclosed parenthesis)", &cliScenario{Files: map[string]string{"g.peg": cliSyntax}, Args: args("-output", "$D/out.go", "$D/g.peg"), Dest: "$D/out.go"})
		fail("syntax error, default destination", "the grammar has a syntax error", &cliScenario{Files: map[string]string{"g.peg": cliSyntax}, Args: args("$D/g.peg"), Dest: "$D/g.peg.go"})
		fail("syntax error, existing destination", "the grammar has a syntax error; the destination held an older parser", &cliScenario{Files: map[string]string{"g.peg": cliSyntax, "out.go": big},
			Args: args("-output", "$D/out.go", "$D/g.peg"), Dest: "$D/out.go"})
		fail("syntax error to standard output", "the grammar has a syntax error", &cliScenario{Files: map[string]string{"g.peg": cliSyntax}, Args: args("-output", "-", "$D/g.peg"), Dest: "stdout"})
		fail("syntax error on standard input", "the grammar (standard input) has a syntax error", &cliScenario{Files: map[string]string{"g.peg": cliSyntax}, Args: args(), Stdin: "$D/g.peg", Dest: "stdout"})
		fail("grammar without header", "the text has no package and type declaration: not a grammar", &cliScenario{Files: map[string]string{"g.peg": cliNoHeader}, Args: args("-output", "$D/out.go", "$D/g.peg"), Dest: "$D/out.go"})
		fail("empty grammar file", "an empty file is not a grammar", &cliScenario{Files: map[string]string{"g.peg": ""}, Args: args("-output", "$D/out.go", "$D/g.peg"), Dest: "$D/out.go"})
		fail("empty standard input", "empty standard input is not a grammar", &cliScenario{Args: args("-output", "$D/out.go"), Dest: "$D/out.go"})
		fail("binary junk", "bytes that are not a grammar", &cliScenario{Files: map[string]string{"g.peg": "\x00\x01\xff\xfe{{{"}, Args: args("-output", "$D/out.go", "$D/g.peg"), Dest: "$D/out.go"})
		fail("rule defined twice", "a grammar that defines a rule twice cannot be generated", &cliScenario{Files: map[string]string{"g.peg": cliDuplicate}, Args: args("-output", "$D/out.go", "$D/g.peg"), Dest: "$D/out.go"})
		fail("destination in a missing directory", "the destination cannot be created", &cliScenario{Files: map[string]string{"g.peg": cliGood}, Args: args("-output", "$D/nodir/out.go", "$D/g.peg"), Dest: "$D/nodir/out.go"})
		fail("destination is a directory", "the destination is a directory", &cliScenario{Files: map[string]string{"g.peg": cliGood}, Dirs: []string{"out.go"}, Args: args("-output", "$D/out.go", "$D/g.peg"), Dest: "$D/out.go"})
		fail("destination below a regular file", "a component of the destination path is a regular file", &cliScenario{Files: map[string]string{"g.peg": cliGood, "f": "x"}, Args: args("-output", "$D/f/out.go", "$D/g.peg"), Dest: "$D/f/out.go"})
		fail("default destination cannot be created", "the directory of the grammar is read-only, so <grammar>.go cannot be created (skipped for the superuser)",
			&cliScenario{Files: map[string]string{"ro/g.peg": cliGood}, Dirs: []string{"ro!readonly"}, Args: args("$D/ro/g.peg"), Dest: "$D/ro/g.peg.go"})
		fail("destination in a read-only directory", "the destination directory is read-only (skipped for the superuser)",
			&cliScenario{Files: map[string]string{"g.peg": cliGood}, Dirs: []string{"ro!readonly"}, Args: args("-output", "$D/ro/out.go", "$D/g.peg"), Dest: "$D/ro/out.go"})
		if _, err := os.Stat("/dev/full"); err == nil {
			fail("destination on a full device", "the destination opens but every write fails (ENOSPC)", &cliScenario{Files: map[string]string{"g.peg": cliGood}, Args: args("-output", "/dev/full", "$D/g.peg"), Dest: "/dev/full"})
			fail("standard output on a full device", "standard output accepts no data (ENOSPC)", &cliScenario{Files: map[string]string{"g.peg": cliGood}, Args: args("-output", "-", "$D/g.peg"), Stdout: "/dev/full", Dest: "stdout"})
			fail("standard output on a full device, options", "standard output accepts no data (ENOSPC)", &cliScenario{Files: map[string]string{"g.peg": cliGood}, Args: args("-inline", "-switch", "-output", "-", "$D/g.peg"), Stdout: "/dev/full", Dest: "stdout"})
		}
		fail("standard output not open for writing", "standard output is a descriptor opened read-only: nothing can be written", &cliScenario{Files: map[string]string{"g.peg": cliGood}, Args: args("-output", "-", "$D/g.peg"), Stdout: "readonly", Dest: "stdout"})
		fail("standard input to a standard output not open for writing", "standard output is a descriptor opened read-only", &cliScenario{Files: map[string]string{"g.peg": cliGood}, Args: args("-output", "-"), Stdin: "$D/g.peg", Stdout: "readonly", Dest: "stdout"})
	}
	// a grammar whose parser is larger than common buffer sizes: the self-hosted grammar of the repository
	if data, err := os.ReadFile(filepath.Join(repoDir, "peg.peg")); err == nil {
		add(&cliScenario{Name: "large grammar (peg.peg)", Files: map[string]string{"g.peg": string(data)}, Args: []string{"-inline", "-switch", "-output", "$D/out.go", "$D/g.peg"}, Dest: "$D/out.go", Succeed: true, Type: "Peg",
			Why: "the self-hosted grammar: a parser of more than 60 KB"})
		if _, err := os.Stat("/dev/full"); err == nil {
			add(&cliScenario{Name: "large grammar (peg.peg) to a full device", Files: map[string]string{"g.peg": string(data)}, Args: []string{"-output", "/dev/full", "$D/g.peg"}, Dest: "/dev/full", Succeed: false, Type: "Peg",
				Why: "the destination opens but every write fails"})
		}
	}
	return out
}

type cliOutcome struct {
	Exit     int
	Stderr   string
	Parser   string // content of the destination after the run ("" if it does not exist)
	Complete bool
	Problem  string // why the destination is not a complete parser
}

// completeParser: does the text look like a complete generated parser: a Go file that parses, declares the parser type and
// its Init method (the last thing the generator emits)?
func completeParser(text, typ string) (bool, string) {
	if strings.TrimSpace(text) == "" {
		return false, "the destination is empty or missing"
	}
	fset := token.NewFileSet()
	f, err := parser.ParseFile(fset, "parser.go", text, parser.SkipObjectResolution)
	if err != nil {
		return false, "the destination is not a Go file that parses: " + trunc(err.Error(), 200)
	}
	hasType, hasInit := false, false
	for _, d := range f.Decls {
		switch d := d.(type) {
		case *ast.GenDecl:
			for _, s := range d.Specs {
				if ts, ok := s.(*ast.TypeSpec); ok && ts.Name.Name == typ {
					hasType = true
				}
			}
		case *ast.FuncDecl:
			if d.Name.Name == "Init" && d.Recv != nil {
				hasInit = true
			}
		}
	}
	if !hasType || !hasInit {
		return false, fmt.Sprintf("the destination parses as Go but is not a whole parser (type %s declared: %v, Init method: %v)", typ, hasType, hasInit)
	}
	return true, ""
}

// runScenario runs one scenario in a fresh directory below base. skipped: the scenario needs a set-up that is not possible
// here (a read-only directory does not stop the superuser).
func runScenario(pegBin, base string, sc *cliScenario) (out *cliOutcome, skipped bool, err error) {
	d, err := os.MkdirTemp(base, "run-")
	if err != nil {
		return nil, false, err
	}
	defer func() {
		_ = filepath.Walk(d, func(p string, info os.FileInfo, err error) error {
			if err == nil && info.IsDir() {
				_ = os.Chmod(p, 0o755)
			}
			return nil
		})
		_ = os.RemoveAll(d)
	}()
	sub := func(s string) string { return strings.ReplaceAll(s, "$D", d) }
	var readonly []string
	for _, dir := range sc.Dirs {
		ro := strings.HasSuffix(dir, "!readonly")
		dir = strings.TrimSuffix(dir, "!readonly")
		if err := os.MkdirAll(filepath.Join(d, dir), 0o755); err != nil {
			return nil, false, err
		}
		if ro {
			if os.Geteuid() == 0 {
				return nil, true, nil
			}
			readonly = append(readonly, filepath.Join(d, dir))
		}
	}
	for name, content := range sc.Files {
		p := filepath.Join(d, name)
		_ = os.MkdirAll(filepath.Dir(p), 0o755)
		if err := os.WriteFile(p, []byte(content), 0o644); err != nil {
			return nil, false, err
		}
	}
	for _, p := range readonly {
		_ = os.Chmod(p, 0o555)
	}
	var args []string
	for _, a := range sc.Args {
		args = append(args, sub(a))
	}
	cmd := exec.Command(pegBin, args...)
	cmd.Dir = d
	var stdout, stderr bytes.Buffer
	cmd.Stderr = &stderr
	if sc.Stdin != "" {
		f, err := os.Open(sub(sc.Stdin))
		if err != nil {
			return nil, false, err
		}
		defer f.Close()
		cmd.Stdin = f
	}
	switch sc.Stdout {
	case "readonly":
		f, err := os.Open(os.DevNull) // opened for reading only: write(2) on it fails with EBADF
		if err != nil {
			return nil, false, err
		}
		defer f.Close()
		cmd.Stdout = f
	case "/dev/full":
		f, err := os.OpenFile("/dev/full", os.O_WRONLY, 0)
		if err != nil {
			return nil, false, err
		}
		defer f.Close()
		cmd.Stdout = f
	default:
		cmd.Stdout = &stdout
	}
	done := make(chan error, 1)
	if err := cmd.Start(); err != nil {
		return nil, false, err
	}
	go func() { done <- cmd.Wait() }()
	out = &cliOutcome{}
	select {
	case werr := <-done:
		out.Exit = cmd.ProcessState.ExitCode()
		if werr != nil && out.Exit == 0 {
			out.Exit = -1
		}
	case <-time.After(30 * time.Second):
		_ = cmd.Process.Kill()
		<-done
		out.Exit = -2
		stderr.WriteString("\n(killed: no exit within 30 s)")
	}
	out.Stderr = stderr.String()
	switch {
	case sc.Dest == "stdout" && sc.Stdout == "capture":
		out.Parser = stdout.String()
	case sc.Dest == "stdout":
		out.Parser = "" // nothing can have arrived
	default:
		if info, err := os.Stat(sub(sc.Dest)); err == nil && info.Mode().IsRegular() {
			data, _ := os.ReadFile(sub(sc.Dest))
			out.Parser = string(data)
		}
	}
	out.Complete, out.Problem = completeParser(out.Parser, sc.Type)
	return out, false, nil
}

// judgeScenario compares the outcome with what the property asks for; "" = as expected.
func judgeScenario(sc *cliScenario, o *cliOutcome) (expected, actual string) {
	describe := func() string {
		s := fmt.Sprintf("exit status %d", o.Exit)
		if strings.TrimSpace(o.Stderr) == "" {
			s += ", nothing on standard error"
		} else {
			s += ", standard error: " + trunc(strings.TrimSpace(o.Stderr), 200)
		}
		if o.Complete {
			s += "; the destination holds a complete parser"
		} else {
			s += "; " + o.Problem
		}
		return s
	}
	if sc.Succeed {
		if o.Exit == 0 && o.Complete {
			return "", ""
		}
		return "exit status 0 and a complete parser in " + sc.Dest + " (" + sc.Why + ")", describe()
	}
	if o.Exit != 0 && strings.TrimSpace(o.Stderr) != "" {
		return "", ""
	}
	return "a non-zero exit status and a message on standard error (" + sc.Why + ")", describe()
}

func cliWitness(sc *cliScenario, expected, actual string) *UnitWitness {
	in, _ := json.Marshal(sc)
	return &UnitWitness{Unit: "main", Kind: "cli", Functions: []string{"main", "main.$arg0", "parse", "getIO", "getIO.closeAll"}, Input: in,
		Observation: "peg " + strings.Join(sc.Args, " ") + " (" + sc.Name + "; $D = a fresh directory holding the files of the input; standard output: " + sc.Stdout + ")",
		Expected:    expected, Actual: actual,
		Rerun: "govc replay-unit <this file>: builds peg from " + repoDir + ", creates the files in a fresh directory, runs the command and judges exit status, standard error and destination"}
}

func (r *Run) witnessMain(obs []*Obligation, deadline time.Time) *searchNote {
	note := &searchNote{Unit: "main", Functions: failingFunctions(obs)}
	t, err := buildTools()
	if err != nil {
		note.Detail = "peg does not build: " + trunc(err.Error(), 300)
		return note
	}
	base := witnessDir("main")
	skipped := 0
	for _, sc := range cliScenarios() {
		if time.Now().After(deadline) {
			note.Detail += " (stopped: budget used up)"
			break
		}
		o, skip, err := runScenario(t.Peg, base, sc)
		if skip {
			skipped++
			continue
		}
		if err != nil {
			continue
		}
		note.Tried++
		expected, actual := judgeScenario(sc, o)
		if expected == "" {
			continue
		}
		// run it once more, the way the replay does
		w := cliWitness(sc, expected, actual)
		again, err := replayMain(w)
		if err != nil || again == nil {
			continue
		}
		note.Found = true
		attach(obs, again, true)
		note.Detail = fmt.Sprintf("%s: expected %s; actual %s", sc.Name, expected, actual)
		return note
	}
	note.Detail = fmt.Sprintf("every scenario behaved as the property asks (%d skipped: they need a read-only directory, which does not stop the superuser)%s", skipped, note.Detail)
	return note
}

func replayMain(w *UnitWitness) (*UnitWitness, error) {
	var sc cliScenario
	if err := json.Unmarshal(w.Input, &sc); err != nil {
		return nil, err
	}
	t, err := buildTools()
	if err != nil {
		return nil, err
	}
	o, skip, err := runScenario(t.Peg, witnessDir("main-replay"), &sc)
	if err != nil {
		return nil, err
	}
	if skip {
		return nil, fmt.Errorf("the scenario needs a read-only directory, which does not stop the superuser")
	}
	expected, actual := judgeScenario(&sc, o)
	if expected == "" {
		return nil, nil
	}
	return cliWitness(&sc, expected, actual), nil
}
