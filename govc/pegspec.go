package main

// pegspec: the PEG semantics table of DESIGN.md section 4, rendered as SMT-LIB definitions from
// the rule tree the front end built (JSON dump by /verif/treedump). It never looks at the emitter.

import (
	"encoding/json"
	"fmt"
	"os"
	"strings"
	"sync"
)

type PNode struct {
	Type     int      `json:"type"`
	TypeName string   `json:"type_name"`
	Str      string   `json:"str"`
	ID       int      `json:"id"`
	Kids     []*PNode `json:"kids"`

	k int // spec node number
}

type PRule struct {
	Name  string
	Body  *PNode
	Const int // rule constant in the generated file
	Stars []*PNode
}

type PegSpec struct {
	Top      []*PNode
	Rules    []*PRule
	ByName   map[string]*PRule
	n        int
	defs     []string // define-funs in dependency order
	decls    []string
	stars    []*PNode
	Actions  []*PNode // in textual order
	Preds    []*PNode
	HasPush  bool
	consts   map[string]int // rule name -> constant
	AS       map[string]bool
	Refused  map[string]string // rule -> reason it has no spec
	Mode     SpecMode
	rowCache map[string][2]string
	ruleDefs map[string]string // rule name -> definitions of the spec functions of its body
	Nullable map[string]bool
	LeftRec  map[string]bool
	First    map[string]firstSet
	LemmaErrors []string
	mu          sync.Mutex
	ProvenRule map[string]bool
	ProvenStar map[int]bool
}

type SpecMode struct {
	Ast bool // tokens recorded
}

func LoadPegSpec(jsonPath string) (*PegSpec, error) {
	data, err := os.ReadFile(jsonPath)
	if err != nil {
		return nil, err
	}
	ps := &PegSpec{ByName: map[string]*PRule{}, AS: map[string]bool{}, Refused: map[string]string{}, rowCache: map[string][2]string{}}
	if err := json.Unmarshal(data, &ps.Top); err != nil {
		return nil, err
	}
	for _, t := range ps.Top {
		if t.TypeName == "Rule" {
			if _, dup := ps.ByName[t.Str]; dup {
				continue // first definition wins, as in the generator
			}
			if len(t.Kids) == 0 {
				continue
			}
			r := &PRule{Name: t.Str, Body: t.Kids[0]}
			ps.Rules = append(ps.Rules, r)
			ps.ByName[t.Str] = r
		}
	}
	// number actions and predicates in textual order; collect stars per rule in emission order
	for _, r := range ps.Rules {
		ps.number(r.Body)
	}
	return ps, nil
}

func (ps *PegSpec) number(n *PNode) {
	ps.n++
	n.k = ps.n
	switch n.TypeName {
	case "Action":
		n.ID = len(ps.Actions)
		ps.Actions = append(ps.Actions, n)
	case "Predicate":
		n.ID = len(ps.Preds)
		ps.Preds = append(ps.Preds, n)
	case "Push":
		ps.HasPush = true
	}
	for _, c := range n.Kids {
		ps.number(c)
	}
}

// starsInEmissionOrder lists the repetition nodes of an expression in the order in which their
// loop heads appear in the emitted code (e+ is emitted as e followed by the loop over e).
func (ps *PegSpec) starsInEmissionOrder(n *PNode, inlined func(name string) *PRule, out *[]*PNode) {
	switch n.TypeName {
	case "Star":
		*out = append(*out, n)
		ps.starsInEmissionOrder(n.Kids[0], inlined, out)
	case "Plus":
		ps.starsInEmissionOrder(n.Kids[0], inlined, out)
		*out = append(*out, n)
		ps.starsInEmissionOrder(n.Kids[0], inlined, out)
	case "Name":
		if r := inlined(n.Str); r != nil {
			ps.starsInEmissionOrder(r.Body, inlined, out)
		}
	default:
		for _, c := range n.Kids {
			ps.starsInEmissionOrder(c, inlined, out)
		}
	}
}

func (ps *PegSpec) computeAS() {
	// greatest fixed point of "never fails" (partial correctness: if it returns, it returns true)
	for _, r := range ps.Rules {
		ps.AS[r.Name] = true
	}
	var as func(n *PNode) bool
	as = func(n *PNode) bool {
		switch n.TypeName {
		case "Character", "Range", "Dot", "Predicate", "String", "PeekNot":
			return false
		case "Sequence":
			for _, c := range n.Kids {
				if !as(c) {
					return false
				}
			}
			return true
		case "Alternate":
			for _, c := range n.Kids {
				if as(c) {
					return true
				}
			}
			return false
		case "Query", "Star", "Action", "Nil", "StateChange":
			return true
		case "Plus", "PeekFor", "Push":
			return as(n.Kids[0])
		case "Name":
			if _, ok := ps.ByName[n.Str]; !ok {
				return true // undefined rule: stub with an empty body
			}
			return ps.AS[n.Str]
		}
		return false
	}
	for changed := true; changed; {
		changed = false
		for _, r := range ps.Rules {
			if ps.AS[r.Name] && !as(r.Body) {
				ps.AS[r.Name] = false
				changed = true
			}
		}
	}
}

const endSymbolLit = "1114112"

// Prelude renders the declarations shared by every closure of the grammar.
// ruleConst maps rule names (including ActionK and PegText) to the constants of the generated file.
func (ps *PegSpec) Prelude(ruleConst map[string]int, ast bool) string {
	ps.consts = ruleConst
	ps.Mode.Ast = ast
	ps.computeAS()
	ps.computeFirst()
	var sb strings.Builder
	sb.WriteString("; ---- pegspec\n(declare-sort TSeq 0)\n(declare-fun snoc (TSeq DT_token) TSeq)\n(declare-const seq_empty TSeq)\n")
	sb.WriteString("(declare-fun tabs ((Array Int DT_token) Int) TSeq)\n")
	sb.WriteString("(declare-sort TSeg 0)\n(declare-fun cat (TSeq TSeg) TSeq)\n(declare-fun seg2 ((Array Int DT_token) Int Int) TSeg)\n(declare-fun TOKS (Int Int) TSeg)\n")
	sb.WriteString("(declare-const bufc (Array Int Int))\n(declare-const n Int)\n")
	sb.WriteString("(declare-fun OK (Int Int) Bool)\n(declare-fun END (Int Int) Int)\n(declare-fun APP (Int Int TSeq) TSeq)\n(declare-fun MX (Int Int DT_token) DT_token)\n")
	sb.WriteString("(declare-sort TLog 0)\n(declare-fun snocL (TLog Int Str) TLog)\n(declare-fun TXT (Int Int Str) Str)\n(declare-fun LOG (Int Int TLog Str) TLog)\n")
	sb.WriteString("(define-fun upd ((m DT_token) (t DT_token)) DT_token (ite (and (not (= (token_begin t) (token_end t))) (> (token_end t) (token_end m))) t m))\n")
	for i := range ps.Preds {
		fmt.Fprintf(&sb, "(declare-fun P_%d (Int) Bool)\n", i)
	}
	// IDEMP (trusted property of the table, by induction over its rows): re-running an attempt with the
	// register it produced does not move the register
	sb.WriteString("(assert (forall ((r Int) (p Int) (m DT_token)) (! (= (MX r p (MX r p m)) (MX r p m)) :pattern ((MX r p (MX r p m))))))\n")
	ps.ruleDefs = map[string]string{}
	for _, r := range ps.Rules {
		ps.defs = nil
		ps.define(r.Body)
		ps.ruleDefs[r.Name] = strings.Join(ps.defs, "\n") + "\n"
	}
	// AS as a predicate on rule constants
	var ors []string
	for _, r := range ps.Rules {
		if ps.AS[r.Name] {
			if c, ok := ruleConst[r.Name]; ok {
				ors = append(ors, fmt.Sprintf("(= r %d)", c))
			}
		}
	}
	for i := range ps.Actions {
		if c, ok := ruleConst[fmt.Sprintf("Action%d", i)]; ok {
			ors = append(ors, fmt.Sprintf("(= r %d)", c))
		}
	}
	fmt.Fprintf(&sb, "(define-fun AS ((r Int)) Bool %s)\n", or(ors...))
	// Execute: which rule constants are actions (and which), which is the capture pseudo-rule
	ai := "(- 1)"
	for i := range ps.Actions {
		if c, ok := ruleConst[fmt.Sprintf("Action%d", i)]; ok {
			ai = fmt.Sprintf("(ite (= r %d) %d %s)", c, i, ai)
		}
	}
	fmt.Fprintf(&sb, "(define-fun actIdx ((r Int)) Int %s)\n", ai)
	pt := -1
	if c, ok := ruleConst["PegText"]; ok {
		pt = c
	}
	fmt.Fprintf(&sb, "(define-fun PEGTEXT () Int %s)\n", num(int64(pt)))
	// rows of the action rules (non-recursive, always included)
	for i := range ps.Actions {
		c, ok := ruleConst[fmt.Sprintf("Action%d", i)]
		if !ok {
			continue
		}
		fmt.Fprintf(&sb, "(assert (forall ((p Int)) (! (and (OK %d p) (= (END %d p) p)) :pattern ((OK %d p)) :pattern ((END %d p)))))\n", c, c, c, c)
		fmt.Fprintf(&sb, "(assert (forall ((p Int) (a TSeq)) (! (= (APP %d p a) (snoc a (mk_token %d p p))) :pattern ((APP %d p a)))))\n", c, c, c)
		fmt.Fprintf(&sb, "(assert (forall ((p Int) (m DT_token)) (! (= (MX %d p m) m) :pattern ((MX %d p m)))))\n", c, c)
		fmt.Fprintf(&sb, "(assert (forall ((p Int) (t Str)) (! (= (TXT %d p t) t) :pattern ((TXT %d p t)))))\n", c, c)
		fmt.Fprintf(&sb, "(assert (forall ((p Int) (l TLog) (t Str)) (! (= (LOG %d p l t) (snocL l %d t)) :pattern ((LOG %d p l t)))))\n", c, i, c)
	}
	return sb.String()
}

func (ps *PegSpec) f(kind string, n *PNode) string { return fmt.Sprintf("%s_%d", kind, n.k) }

// define emits ok_k, end_k, app_k, mx_k for the node (children first).
func (ps *PegSpec) define(n *PNode) {
	for _, c := range n.Kids {
		if n.TypeName == "Range" {
			break
		}
		ps.define(c)
	}
	ok, end, app, mx := "", "", "", ""
	k := n.k
	tok := func(rule int, b, e string) string { return fmt.Sprintf("(mk_token %d %s %s)", rule, b, e) }
	ch := func(i int) *PNode { return n.Kids[i] }
	c1 := func(kind string, args ...string) string { return sx(ps.f(kind, ch(0)), args...) }
	switch n.TypeName {
	case "Character":
		r := []rune(n.Str)
		if len(r) != 1 {
			ps.Refused[fmt.Sprint(k)] = "character node with string of length != 1"
			r = []rune{0}
		}
		ok, end, app, mx = fmt.Sprintf("(= (select bufc p) %d)", r[0]), "(+ p 1)", "a", "m"
	case "Range":
		lo, hi := []rune(n.Kids[0].Str), []rune(n.Kids[1].Str)
		ok = fmt.Sprintf("(and (<= %d (select bufc p)) (<= (select bufc p) %d))", lo[0], hi[0])
		end, app, mx = "(+ p 1)", "a", "m"
	case "Dot":
		ok, end, app, mx = "(< p n)", "(+ p 1)", "a", "m"
	case "Nil", "StateChange", "Commit":
		ok, end, app, mx = "true", "p", "a", "m"
	case "Predicate":
		ok, end, app, mx = fmt.Sprintf("(P_%d p)", n.ID), "p", "a", "m"
	case "Action":
		ok, end, mx = "true", "p", "m"
		app = "a"
		if c, has := ps.consts[fmt.Sprintf("Action%d", n.ID)]; has {
			app = fmt.Sprintf("(snoc a %s)", tok(c, "p", "p"))
		}
	case "Name":
		c, has := ps.consts[n.Str]
		if !has {
			// undefined rule: the generator makes an empty stub and warns; outside the property's domain
			ps.Refused[fmt.Sprint(k)] = "reference to undefined rule " + n.Str
			c = 0
		}
		ok, end, app, mx = fmt.Sprintf("(OK %d p)", c), fmt.Sprintf("(END %d p)", c), fmt.Sprintf("(APP %d p a)", c), fmt.Sprintf("(MX %d p m)", c)
	case "Query":
		ok = "true"
		end = ite(c1("ok", "p"), c1("end", "p"), "p")
		app = ite(c1("ok", "p"), c1("app", "p", "a"), "a")
		mx = c1("mx", "p", "m")
	case "PeekFor":
		ok, end, app, mx = c1("ok", "p"), "p", "a", c1("mx", "p", "m")
	case "PeekNot":
		ok, end, app, mx = not(c1("ok", "p")), "p", "a", c1("mx", "p", "m")
	case "Push":
		ok, end = c1("ok", "p"), c1("end", "p")
		t := tok(ps.consts["PegText"], "p", c1("end", "p"))
		app = fmt.Sprintf("(snoc %s %s)", c1("app", "p", "a"), t)
		mx = ite(c1("ok", "p"), fmt.Sprintf("(upd %s %s)", c1("mx", "p", "m"), t), c1("mx", "p", "m"))
	case "Star", "Plus":
		// E_k, A_k, M_k: uninterpreted, unfolded at trigger terms
		body := ch(0)
		E, A, M, T := fmt.Sprintf("E_%d", k), fmt.Sprintf("A_%d", k), fmt.Sprintf("M_%d", k), fmt.Sprintf("trig_%d", k)
		ps.defs = append(ps.defs,
			fmt.Sprintf("(declare-fun %s (Int) Int)\n(declare-fun %s (Int) Bool)", E, T),
			fmt.Sprintf("(assert (forall ((p Int)) (! (%s p) :pattern ((%s p)))))", T, T),
			fmt.Sprintf("(assert (forall ((p Int)) (! (= (%s p) (ite %s (%s %s) p)) :pattern ((%s p)))))", E, sx(ps.f("ok", body), "p"), E, sx(ps.f("end", body), "p"), T))
		if ps.Mode.Ast {
			ps.defs = append(ps.defs,
				fmt.Sprintf("(declare-fun %s (Int TSeq) TSeq)\n(declare-fun %s (Int DT_token) DT_token)", A, M),
				fmt.Sprintf("(assert (forall ((p Int) (a TSeq)) (! (= (%s p a) (ite %s (%s %s %s) a)) :pattern ((%s p) (%s p a)))))", A, sx(ps.f("ok", body), "p"), A, sx(ps.f("end", body), "p"), sx(ps.f("app", body), "p", "a"), T, A),
				fmt.Sprintf("(assert (forall ((p Int) (m DT_token)) (! (= (%s p m) (ite %s (%s %s %s) %s)) :pattern ((%s p) (%s p m)))))", M, sx(ps.f("ok", body), "p"), M, sx(ps.f("end", body), "p"), sx(ps.f("mx", body), "p", "m"), sx(ps.f("mx", body), "p", "m"), T, M))
		}
		if n.TypeName == "Star" {
			ok, end, app, mx = "true", sx(E, "p"), sx(A, "p", "a"), sx(M, "p", "m")
		} else {
			// e+ = e e*
			b := func(kind string, args ...string) string { return sx(ps.f(kind, body), args...) }
			ok = b("ok", "p")
			end = sx(E, b("end", "p"))
			app = sx(A, b("end", "p"), b("app", "p", "a"))
			mx = ite(b("ok", "p"), sx(M, b("end", "p"), b("mx", "p", "m")), b("mx", "p", "m"))
		}
	case "Sequence":
		// one family of definitions per prefix keeps the text linear in the number of members
		pre, okpre, apre, mpre := "p", "true", "a", "m"
		for i, c := range n.Kids {
			nOK := and(okpre, sx(ps.f("ok", c), pre))
			nM := ite(okpre, sx(ps.f("mx", c), pre, mpre), mpre)
			nA := sx(ps.f("app", c), pre, apre)
			nP := sx(ps.f("end", c), pre)
			if i == len(n.Kids)-1 {
				pre, okpre, apre, mpre = nP, nOK, nA, nM
				break
			}
			ps.defs = append(ps.defs,
				fmt.Sprintf("(define-fun sok_%d_%d ((p Int)) Bool %s)", k, i, nOK),
				fmt.Sprintf("(define-fun spre_%d_%d ((p Int)) Int %s)", k, i, nP))
			if ps.Mode.Ast {
				ps.defs = append(ps.defs,
					fmt.Sprintf("(define-fun sapp_%d_%d ((p Int) (a TSeq)) TSeq %s)", k, i, nA),
					fmt.Sprintf("(define-fun smx_%d_%d ((p Int) (m DT_token)) DT_token %s)", k, i, nM))
			}
			pre, okpre = fmt.Sprintf("(spre_%d_%d p)", k, i), fmt.Sprintf("(sok_%d_%d p)", k, i)
			apre, mpre = fmt.Sprintf("(sapp_%d_%d p a)", k, i), fmt.Sprintf("(smx_%d_%d p m)", k, i)
		}
		ok, end, app, mx = okpre, pre, apre, mpre
	case "Alternate":
		// suffix families: alt_i = alternatives i..n-1
		last := len(n.Kids) - 1
		ok, end, app = sx(ps.f("ok", n.Kids[last]), "p"), sx(ps.f("end", n.Kids[last]), "p"), sx(ps.f("app", n.Kids[last]), "p", "a")
		mx = sx(ps.f("mx", n.Kids[last]), "p", "m")
		for i := last - 1; i >= 0; i-- {
			c := n.Kids[i]
			if i < last-1 {
				ps.defs = append(ps.defs,
					fmt.Sprintf("(define-fun aok_%d_%d ((p Int)) Bool %s)", k, i+1, ok),
					fmt.Sprintf("(define-fun aend_%d_%d ((p Int)) Int %s)", k, i+1, end))
				if ps.Mode.Ast {
					ps.defs = append(ps.defs,
						fmt.Sprintf("(define-fun aapp_%d_%d ((p Int) (a TSeq)) TSeq %s)", k, i+1, app),
						fmt.Sprintf("(define-fun amx_%d_%d ((p Int) (m DT_token)) DT_token %s)", k, i+1, mx))
				}
				ok, end = fmt.Sprintf("(aok_%d_%d p)", k, i+1), fmt.Sprintf("(aend_%d_%d p)", k, i+1)
				app = fmt.Sprintf("(aapp_%d_%d p a)", k, i+1)
				mx = fmt.Sprintf("(amx_%d_%d p m)", k, i+1)
			}
			cOK := sx(ps.f("ok", c), "p")
			// register: the first alternative is attempted; the rest only if it failed
			restMx := strings.Replace(mx, " m)", " "+sx(ps.f("mx", c), "p", "m")+")", 1)
			if !strings.HasSuffix(mx, " m)") {
				panic("alternate mx shape")
			}
			mx = ite(cOK, sx(ps.f("mx", c), "p", "m"), restMx)
			ok = or(cOK, ok)
			end = ite(cOK, sx(ps.f("end", c), "p"), end)
			app = ite(cOK, sx(ps.f("app", c), "p", "a"), app)
		}
	default:
		ps.Refused[fmt.Sprint(k)] = "node type " + n.TypeName + " has no row in the specification table"
		ok, end, app, mx = "false", "p", "a", "m"
	}
	ps.defs = append(ps.defs,
		fmt.Sprintf("(define-fun ok_%d ((p Int)) Bool %s)", k, ok),
		fmt.Sprintf("(define-fun end_%d ((p Int)) Int %s)", k, end))
	if ps.Mode.Ast {
		ps.defs = append(ps.defs,
			fmt.Sprintf("(define-fun app_%d ((p Int) (a TSeq)) TSeq %s)", k, app),
			fmt.Sprintf("(define-fun mx_%d ((p Int) (m DT_token)) DT_token %s)", k, mx))
	} else {
		ps.defineNoAst(n)
	}
}

// defineNoAst emits txt_k(p,t) (value of `text` after the attempt) and log_k(p,l,t) (ghost log of
// the actions executed by the attempt, including those of branches that fail later).
func (ps *PegSpec) defineNoAst(n *PNode) {
	k := n.k
	f := func(kind string, c *PNode, args ...string) string { return sx(fmt.Sprintf("%s_%d", kind, c.k), args...) }
	txt, lg := "t", "l"
	switch n.TypeName {
	case "Action":
		lg = fmt.Sprintf("(snocL l %d t)", n.ID)
	case "Name":
		c := ps.consts[n.Str]
		txt, lg = fmt.Sprintf("(TXT %d p t)", c), fmt.Sprintf("(LOG %d p l t)", c)
	case "Query", "PeekFor", "PeekNot":
		txt, lg = f("txt", n.Kids[0], "p", "t"), f("log", n.Kids[0], "p", "l", "t")
	case "Push":
		b := n.Kids[0]
		txt = ite(f("ok", b, "p"), fmt.Sprintf("(str_of_runes bufc p (- %s p))", f("end", b, "p")), f("txt", b, "p", "t"))
		lg = f("log", b, "p", "l", "t")
	case "Star", "Plus":
		b := n.Kids[0]
		X, G := fmt.Sprintf("X_%d", k), fmt.Sprintf("G_%d", k)
		T := fmt.Sprintf("trig_%d", k)
		ps.defs = append(ps.defs,
			fmt.Sprintf("(declare-fun %s (Int Str) Str)\n(declare-fun %s (Int TLog Str) TLog)", X, G),
			fmt.Sprintf("(assert (forall ((p Int) (t Str)) (! (= (%s p t) (ite %s (%s %s %s) %s)) :pattern ((%s p) (%s p t)))))", X, f("ok", b, "p"), X, f("end", b, "p"), f("txt", b, "p", "t"), f("txt", b, "p", "t"), T, X),
			fmt.Sprintf("(assert (forall ((p Int) (l TLog) (t Str)) (! (= (%s p l t) (ite %s (%s %s %s %s) %s)) :pattern ((%s p) (%s p l t)))))", G, f("ok", b, "p"), G, f("end", b, "p"), f("log", b, "p", "l", "t"), f("txt", b, "p", "t"), f("log", b, "p", "l", "t"), T, G))
		if n.TypeName == "Star" {
			txt, lg = sx(X, "p", "t"), sx(G, "p", "l", "t")
		} else {
			txt = ite(f("ok", b, "p"), sx(X, f("end", b, "p"), f("txt", b, "p", "t")), f("txt", b, "p", "t"))
			lg = ite(f("ok", b, "p"), sx(G, f("end", b, "p"), f("log", b, "p", "l", "t"), f("txt", b, "p", "t")), f("log", b, "p", "l", "t"))
		}
	case "Sequence":
		pre, okpre := "p", "true"
		for i, c := range n.Kids {
			nT := ite(okpre, f("txt", c, pre, txt), txt)
			nL := ite(okpre, f("log", c, pre, lg, txt), lg)
			if i == len(n.Kids)-1 {
				txt, lg = nT, nL
				break
			}
			ps.defs = append(ps.defs,
				fmt.Sprintf("(define-fun stxt_%d_%d ((p Int) (t Str)) Str %s)", k, i, nT),
				fmt.Sprintf("(define-fun slog_%d_%d ((p Int) (l TLog) (t Str)) TLog %s)", k, i, nL))
			txt, lg = fmt.Sprintf("(stxt_%d_%d p t)", k, i), fmt.Sprintf("(slog_%d_%d p l t)", k, i)
			if i < len(n.Kids)-1 {
				pre, okpre = fmt.Sprintf("(spre_%d_%d p)", k, i), fmt.Sprintf("(sok_%d_%d p)", k, i)
			}
		}
	case "Alternate":
		anyOK := "false"
		for i, c := range n.Kids {
			nT := ite(anyOK, txt, f("txt", c, "p", txt))
			nL := ite(anyOK, lg, f("log", c, "p", lg, txt))
			anyOK = or(anyOK, f("ok", c, "p"))
			if i == len(n.Kids)-1 {
				txt, lg = nT, nL
				break
			}
			ps.defs = append(ps.defs,
				fmt.Sprintf("(define-fun atxt_%d_%d ((p Int) (t Str)) Str %s)", k, i, nT),
				fmt.Sprintf("(define-fun alog_%d_%d ((p Int) (l TLog) (t Str)) TLog %s)", k, i, nL),
				fmt.Sprintf("(define-fun aany_%d_%d ((p Int)) Bool %s)", k, i, anyOK))
			txt, lg, anyOK = fmt.Sprintf("(atxt_%d_%d p t)", k, i), fmt.Sprintf("(alog_%d_%d p l t)", k, i), fmt.Sprintf("(aany_%d_%d p)", k, i)
		}
	}
	ps.defs = append(ps.defs,
		fmt.Sprintf("(define-fun txt_%d ((p Int) (t Str)) Str %s)", k, txt),
		fmt.Sprintf("(define-fun log_%d ((p Int) (l TLog) (t Str)) TLog %s)", k, lg))
}

// RuleRow gives the defining equations of rule r: the ground instance at position term p
// (with live sequence a and register m), and the quantified form (for inlined rules).
func (ps *PegSpec) RuleRow(r *PRule) (quant string) {
	c := r.Const
	b := r.Body
	t := fmt.Sprintf("(mk_token %d p (end_%d p))", c, b.k)
	var sb strings.Builder
	fmt.Fprintf(&sb, "(assert (forall ((p Int)) (! (and (= (OK %d p) (ok_%d p)) (= (END %d p) (end_%d p))) :pattern ((OK %d p)) :pattern ((END %d p)))))\n", c, b.k, c, b.k, c, c)
	if ps.Mode.Ast {
		fmt.Fprintf(&sb, "(assert (forall ((p Int) (a TSeq)) (! (= (APP %d p a) (snoc (app_%d p a) %s)) :pattern ((APP %d p a)))))\n", c, b.k, t, c)
		fmt.Fprintf(&sb, "(assert (forall ((p Int) (m DT_token)) (! (= (MX %d p m) (ite (ok_%d p) (upd (mx_%d p m) %s) (mx_%d p m))) :pattern ((MX %d p m)))))\n", c, b.k, b.k, t, b.k, c)
	} else {
		fmt.Fprintf(&sb, "(assert (forall ((p Int) (t Str)) (! (= (TXT %d p t) (txt_%d p t)) :pattern ((TXT %d p t)))))\n", c, b.k, c)
		fmt.Fprintf(&sb, "(assert (forall ((p Int) (l TLog) (t Str)) (! (= (LOG %d p l t) (log_%d p l t)) :pattern ((LOG %d p l t)))))\n", c, b.k, c)
	}
	return sb.String()
}

// RuleRowAt: ground instances of the row at the given terms.
func (ps *PegSpec) RuleRowAt(r *PRule, p, a, m string) string {
	c := r.Const
	b := r.Body
	t := fmt.Sprintf("(mk_token %d %s (end_%d %s))", c, p, b.k, p)
	var sb strings.Builder
	fmt.Fprintf(&sb, "(assert (and (= (OK %d %s) (ok_%d %s)) (= (END %d %s) (end_%d %s))))\n", c, p, b.k, p, c, p, b.k, p)
	fmt.Fprintf(&sb, "(assert (= (APP %d %s %s) (snoc (app_%d %s %s) %s)))\n", c, p, a, b.k, p, a, t)
	fmt.Fprintf(&sb, "(assert (= (MX %d %s %s) (ite (ok_%d %s) (upd (mx_%d %s %s) %s) (mx_%d %s %s))))\n", c, p, m, b.k, p, b.k, p, m, t, b.k, p, m)
	return sb.String()
}

// ---------------------------------------------------------------------------------------------
// first sets (used by the proofs of -switch parsers): computed from the table, proved as lemmas

type firstSet struct {
	any    bool
	ranges [][2]rune
}

func (a firstSet) union(b firstSet) firstSet {
	if a.any || b.any {
		return firstSet{any: true}
	}
	return firstSet{ranges: append(append([][2]rune{}, a.ranges...), b.ranges...)}
}

func (ps *PegSpec) computeFirst() {
	ps.Nullable = map[string]bool{}
	ps.First = map[string]firstSet{}
	// nullable: least fixed point
	var nullable func(n *PNode) bool
	nullable = func(n *PNode) bool {
		switch n.TypeName {
		case "Character", "Range", "Dot", "String":
			return false
		case "Sequence":
			for _, c := range n.Kids {
				if !nullable(c) {
					return false
				}
			}
			return true
		case "Alternate":
			for _, c := range n.Kids {
				if nullable(c) {
					return true
				}
			}
			return false
		case "Plus", "Push":
			return nullable(n.Kids[0])
		case "Name":
			if _, ok := ps.ByName[n.Str]; !ok {
				return true
			}
			return ps.Nullable[n.Str]
		}
		return true // ? * & ! action predicate nil statechange
	}
	for changed := true; changed; {
		changed = false
		for _, r := range ps.Rules {
			if !ps.Nullable[r.Name] && nullable(r.Body) {
				ps.Nullable[r.Name] = true
				changed = true
			}
		}
	}
	// left recursion: rule reaches itself through left positions
	left := map[string]map[string]bool{}
	var leftRefs func(n *PNode, out map[string]bool)
	leftRefs = func(n *PNode, out map[string]bool) {
		switch n.TypeName {
		case "Sequence":
			for _, c := range n.Kids {
				leftRefs(c, out)
				if !nullable(c) {
					return
				}
			}
		case "Name":
			out[n.Str] = true
		case "Range":
		default:
			for _, c := range n.Kids {
				leftRefs(c, out)
			}
		}
	}
	for _, r := range ps.Rules {
		left[r.Name] = map[string]bool{}
		leftRefs(r.Body, left[r.Name])
	}
	ps.LeftRec = map[string]bool{}
	for _, r := range ps.Rules {
		seen := map[string]bool{}
		stack := []string{r.Name}
		for len(stack) > 0 {
			x := stack[len(stack)-1]
			stack = stack[:len(stack)-1]
			for y := range left[x] {
				if y == r.Name {
					ps.LeftRec[r.Name] = true
				}
				if !seen[y] {
					seen[y] = true
					stack = append(stack, y)
				}
			}
		}
	}
	// first sets: least fixed point (finite union of ranges or "any")
	var first func(n *PNode) firstSet
	first = func(n *PNode) firstSet {
		switch n.TypeName {
		case "Character":
			r := []rune(n.Str)
			if len(r) != 1 {
				return firstSet{any: true}
			}
			return firstSet{ranges: [][2]rune{{r[0], r[0]}}}
		case "Range":
			lo, hi := []rune(n.Kids[0].Str), []rune(n.Kids[1].Str)
			return firstSet{ranges: [][2]rune{{lo[0], hi[0]}}}
		case "Dot":
			return firstSet{any: true}
		case "Sequence":
			var f firstSet
			for _, c := range n.Kids {
				f = f.union(first(c))
				if !nullable(c) {
					return f
				}
			}
			return f
		case "Alternate", "Query", "Star", "Plus", "Push":
			var f firstSet
			for _, c := range n.Kids {
				f = f.union(first(c))
			}
			return f
		case "Name":
			if _, ok := ps.ByName[n.Str]; !ok {
				return firstSet{}
			}
			return ps.First[n.Str]
		}
		return firstSet{} // lookahead, action, predicate: contribute nothing (the node is nullable)
	}
	for iter := 0; iter < len(ps.Rules)+2; iter++ {
		for _, r := range ps.Rules {
			ps.First[r.Name] = first(r.Body)
		}
	}
}

func (f firstSet) smt(c string) string {
	if f.any {
		return "true"
	}
	var ors []string
	seen := map[[2]rune]bool{}
	for _, r := range f.ranges {
		if seen[r] {
			continue
		}
		seen[r] = true
		if r[0] == r[1] {
			ors = append(ors, fmt.Sprintf("(= %s %d)", c, r[0]))
		} else {
			ors = append(ors, fmt.Sprintf("(and (<= %d %s) (<= %s %d))", r[0], c, c, r[1]))
		}
	}
	return or(ors...)
}

// hasFirstLemma: rules for which a progress/first-set lemma is attempted.
func (ps *PegSpec) hasFirstLemma(r *PRule) bool {
	return !ps.LeftRec[r.Name] && r.Const != 0
}

// ruleLemma: OK(r,p) => p <= END(r,p) <= n, a consuming match starts with a rune of FIRST(r), and a
// non-nullable rule consumes.
func (ps *PegSpec) ruleLemma(r *PRule, p string) string {
	c := r.Const
	end := fmt.Sprintf("(END %d %s)", c, p)
	concl := []string{sx("<=", p, end), sx("<=", end, "n"), imp(sx(">", end, p), ps.First[r.Name].smt("(select bufc "+p+")"))}
	if !ps.Nullable[r.Name] {
		concl = append(concl, sx(">", end, p))
	}
	return imp(and(sx("<=", "0", p), sx("<=", p, "n"), fmt.Sprintf("(OK %d %s)", c, p)), and(concl...))
}

func (ps *PegSpec) starLemma(k int, q string) string {
	e := fmt.Sprintf("(E_%d %s)", k, q)
	return imp(and(sx("<=", "0", q), sx("<=", q, "n")), and(sx("<=", q, e), sx("<=", e, "n")))
}

// LemmaAxioms: the lemmas that have been proved, as patterned axioms.
func (ps *PegSpec) LemmaAxioms(skipRule string, skipStar int) string {
	var sb strings.Builder
	for _, r := range ps.Rules {
		if r.Name == skipRule || !ps.ProvenRule[r.Name] {
			continue
		}
		fmt.Fprintf(&sb, "(assert (forall ((p Int)) (! %s :pattern ((OK %d p)) :pattern ((END %d p)))))\n", ps.ruleLemma(r, "p"), r.Const, r.Const)
	}
	return sb.String()
}

func (ps *PegSpec) starAxioms(r *PRule, skipStar int) string {
	var sb strings.Builder
	var walk func(n *PNode)
	walk = func(n *PNode) {
		if (n.TypeName == "Star" || n.TypeName == "Plus") && n.k != skipStar && ps.ProvenStar[n.k] {
			fmt.Fprintf(&sb, "(assert (forall ((q Int)) (! %s :pattern ((E_%d q)))))\n", ps.starLemma(n.k, "q"), n.k)
		}
		if n.TypeName == "Range" {
			return
		}
		for _, c := range n.Kids {
			walk(c)
		}
	}
	walk(r.Body)
	return sb.String()
}

const inputFacts = "(assert (and (>= n 0) (= (select bufc n) " + endSymbolLit + ")))\n" +
	"(assert (forall ((i Int)) (! (=> (and (<= 0 i) (< i n)) (and (<= 0 (select bufc i)) (<= (select bufc i) 1114111))) :pattern ((select bufc i)))))\n"

func (ps *PegSpec) trigAll(r *PRule, p string) string {
	var sb strings.Builder
	var walk func(n *PNode)
	walk = func(n *PNode) {
		if n.TypeName == "Star" || n.TypeName == "Plus" {
			fmt.Fprintf(&sb, "(assert (trig_%d %s))\n", n.k, p)
		}
		if n.TypeName == "Range" {
			return
		}
		for _, c := range n.Kids {
			walk(c)
		}
	}
	walk(r.Body)
	return sb.String()
}

// ruleLemmaQuery: refutation query for the lemma of rule r (spec level: no code involved).
func (ps *PegSpec) ruleLemmaQuery(r *PRule, unitPrelude string) string {
	var sb strings.Builder
	sb.WriteString(unitPrelude)
	sb.WriteString(ps.ruleDefs[r.Name])
	sb.WriteString(ps.LemmaAxioms(r.Name, 0))
	sb.WriteString(ps.starAxioms(r, 0))
	sb.WriteString(inputFacts)
	sb.WriteString("(declare-const p0 Int)\n")
	// induction hypothesis: the rule's own lemma at every later position (strong induction on n - p)
	fmt.Fprintf(&sb, "(assert (forall ((p Int)) (! (=> (> p p0) %s) :pattern ((OK %d p)) :pattern ((END %d p)))))\n", ps.ruleLemma(r, "p"), r.Const, r.Const)
	fmt.Fprintf(&sb, "(assert (and (= (OK %d p0) (ok_%d p0)) (= (END %d p0) (end_%d p0))))\n", r.Const, r.Body.k, r.Const, r.Body.k)
	sb.WriteString(ps.trigAll(r, "p0"))
	fmt.Fprintf(&sb, "(assert (not %s))\n", ps.ruleLemma(r, "p0"))
	return sb.String()
}

// starLemmaQuery: induction step for q <= E_k(q) <= n (strong induction on n - q).
func (ps *PegSpec) starLemmaQuery(r *PRule, star *PNode, unitPrelude string) string {
	var sb strings.Builder
	sb.WriteString(unitPrelude)
	sb.WriteString(ps.ruleDefs[r.Name])
	sb.WriteString(ps.LemmaAxioms("", 0))
	sb.WriteString(ps.starAxioms(r, star.k))
	sb.WriteString(inputFacts)
	sb.WriteString("(declare-const q0 Int)\n")
	fmt.Fprintf(&sb, "(assert (forall ((q Int)) (! (=> (> q q0) %s) :pattern ((E_%d q)))))\n", ps.starLemma(star.k, "q"), star.k)
	sb.WriteString(ps.trigAll(r, "q0"))
	fmt.Fprintf(&sb, "(assert (not %s))\n", ps.starLemma(star.k, "q0"))
	return sb.String()
}

// ProveLemmas computes the set of lemmas that hold: start from all candidates, prove each one
// assuming the others, drop the failures, repeat until stable. (Sound by strong induction on n - p
// and, at equal positions, on the acyclic left-dependency order of a grammar without left recursion;
// left-recursive rules are never candidates.)
func (ps *PegSpec) ProveLemmas(unitPrelude string) (failed []string) {
	ps.ProvenRule = map[string]bool{}
	ps.ProvenStar = map[int]bool{}
	type starOf struct {
		r *PRule
		s *PNode
	}
	var stars []starOf
	for _, r := range ps.Rules {
		if ps.hasFirstLemma(r) {
			ps.ProvenRule[r.Name] = true
		}
		var walk func(n *PNode)
		walk = func(n *PNode) {
			if n.TypeName == "Star" || n.TypeName == "Plus" {
				stars = append(stars, starOf{r, n})
				ps.ProvenStar[n.k] = true
			}
			if n.TypeName == "Range" {
				return
			}
			for _, c := range n.Kids {
				walk(c)
			}
		}
		walk(r.Body)
	}
	for round := 0; round < 6; round++ {
		type job struct {
			rule  string
			star  int
			query string
			ok    bool
		}
		var jobs []*job
		for _, r := range ps.Rules {
			if ps.ProvenRule[r.Name] {
				jobs = append(jobs, &job{rule: r.Name, query: ps.ruleLemmaQuery(r, unitPrelude)})
			}
		}
		for _, so := range stars {
			if ps.ProvenStar[so.s.k] {
				jobs = append(jobs, &job{star: so.s.k, query: ps.starLemmaQuery(so.r, so.s, unitPrelude)})
			}
		}
		var wg sync.WaitGroup
		sem := make(chan struct{}, 15)
		for _, j := range jobs {
			wg.Add(1)
			sem <- struct{}{}
			go func(j *job) {
				defer wg.Done()
				defer func() { <-sem }()
				v, out, _ := runOne(solverSpecs["z3-new"], j.query+"\n(check-sat)\n", 8)
				j.ok = v == VUnsat
				if v == VError {
					ps.mu.Lock()
					ps.LemmaErrors = append(ps.LemmaErrors, fmt.Sprintf("%s#%d: %s", j.rule, j.star, trunc(out, 300)))
					ps.mu.Unlock()
				}
			}(j)
		}
		wg.Wait()
		changed := false
		for _, j := range jobs {
			if j.ok {
				continue
			}
			changed = true
			if j.rule != "" {
				ps.ProvenRule[j.rule] = false
				failed = append(failed, "rule "+j.rule)
			} else {
				ps.ProvenStar[j.star] = false
				failed = append(failed, fmt.Sprintf("star #%d", j.star))
			}
		}
		if !changed {
			return failed
		}
	}
	// not stable after the round limit: use nothing
	ps.ProvenRule = map[string]bool{}
	ps.ProvenStar = map[int]bool{}
	return append(failed, "lemma fixpoint did not stabilise: no lemma is used")
}
