package main

// Lowering of a Go function body to a control-flow graph whose nodes are the original statements.
// Loops (for, range, backward goto) are cut at their heads by the executor; this file finds them.

import (
	"fmt"
	"go/ast"
	"go/token"
	"sort"
)

type NodeKind int

const (
	NStmt      NodeKind = iota // ordinary simple statement (assign, incdec, decl, expr, go, defer)
	NTag                       // evaluate switch tag into hidden cell Aux
	NRangeInit                 // evaluate range operand, index := 0
	NRangeBind                 // key, value := idx, x[idx]; idx++
	NRangeNext                 // range over a list iterator: cursor = cursor.next; idx++ (runs after the body, as in the iterator)
)

type INode struct {
	Kind  NodeKind
	Stmt  ast.Stmt
	Expr  ast.Expr
	Range *ast.RangeStmt
	Aux   string
}

type CondKind int

const (
	CExpr CondKind = iota
	CCaseEq
	CRangeHas
	CCell // the Bool value of the hidden cell Aux (result of a callback body inlined by callbackLoop)
)

type Cond struct {
	Kind  CondKind
	Expr  ast.Expr
	Aux   string // hidden tag cell
	Range *ast.RangeStmt
}

type TermKind int

const (
	TJump TermKind = iota
	TBranch
	TReturn
	TPanic
	TNone
)

type Block struct {
	ID      int
	Pos     token.Pos
	Nodes   []*INode
	Kind    TermKind
	Cond    *Cond
	Succs   []*Block // TJump: 1; TBranch: [true,false]
	Ret     *ast.ReturnStmt
	Preds   []*Block
	Comment string
	ScopePos token.Pos // position at which names of loop invariants are resolved (loop heads)

	// loop information, filled by analyse()
	LoopHead bool
	LoopOrd  int
	LoopBody map[*Block]bool // natural loop (including head)
	BackSrc  []*Block        // sources of back edges to this head
	IsBack   map[*Block]bool // for a source block: succ -> is back edge
	topo     int
}

type CFG struct {
	Blocks []*Block
	Entry  *Block
	Loops  []*Block // loop heads in source order
	Defers []*ast.DeferStmt
	Order  []*Block // topological order of the acyclic graph (back edges removed)
	rngN   int
	tagN   int
	// Callback: synthetic range statements standing for `slices.ContainsFunc(seq, func(p T) bool {...})` (see callbackLoop);
	// the value is the literal's parameter, which receives the element.
	Callback map[*ast.RangeStmt]*ast.Ident
}

// LowerOpts: what the lowering needs to know about types (the lowering itself is purely syntactic).
type LowerOpts struct {
	// FuncRange: the range statement iterates over one of the unit's list iterators (range over func): the cursor advances
	// after the body, as in the iterator's own loop.
	FuncRange func(rs *ast.RangeStmt) bool
	// CallbackLoop: e is a call slices.ContainsFunc(seq, func literal) that is to be executed by its definition
	// (`for _, v := range seq { if f(v) { return true } }; return false`) with the literal's body in place of f(v).
	CallbackLoop func(e ast.Expr) (call *ast.CallExpr, lit *ast.FuncLit, ok bool)
}

// cbCtx: lowering the body of a callback literal in place: `return e` means "the callback returns e".
type cbCtx struct {
	aux         string
	found, next *Block
}

type lowerer struct {
	g      *CFG
	cur    *Block
	labels map[string]*Block
	// break / continue targets
	brk, cont []*Block
	lblBrk    map[string]*Block
	lblCont   map[string]*Block
	pendLabel string
	ft        *Block // fallthrough target
	err       error
	rngName   map[*ast.RangeStmt]string
	opts      *LowerOpts
	cb        *cbCtx
}

func (l *lowerer) newBlock(pos token.Pos, comment string) *Block {
	b := &Block{ID: len(l.g.Blocks), Pos: pos, Kind: TNone, Comment: comment, IsBack: map[*Block]bool{}}
	l.g.Blocks = append(l.g.Blocks, b)
	return b
}

func (l *lowerer) jump(to *Block) {
	if l.cur != nil && l.cur.Kind == TNone {
		l.cur.Kind = TJump
		l.cur.Succs = []*Block{to}
	}
}

func (l *lowerer) branch(c *Cond, t, f *Block) {
	if l.cur != nil && l.cur.Kind == TNone {
		l.cur.Kind = TBranch
		l.cur.Cond = c
		l.cur.Succs = []*Block{t, f}
	}
}

func (l *lowerer) add(n *INode) {
	if l.cur == nil || l.cur.Kind != TNone {
		// unreachable code: give it a block of its own so that labels inside still work
		l.cur = l.newBlock(token.NoPos, "unreachable")
	}
	l.cur.Nodes = append(l.cur.Nodes, n)
}

func (l *lowerer) label(name string, pos token.Pos) *Block {
	if b, ok := l.labels[name]; ok {
		if b.Pos == token.NoPos {
			b.Pos = pos
		}
		return b
	}
	b := l.newBlock(pos, "label "+name)
	l.labels[name] = b
	return b
}

func BuildCFG(body *ast.BlockStmt, opts *LowerOpts) (*CFG, error) {
	g := &CFG{Callback: map[*ast.RangeStmt]*ast.Ident{}}
	if opts == nil {
		opts = &LowerOpts{}
	}
	l := &lowerer{g: g, labels: map[string]*Block{}, lblBrk: map[string]*Block{}, lblCont: map[string]*Block{}, rngName: map[*ast.RangeStmt]string{}, opts: opts}
	g.Entry = l.newBlock(body.Pos(), "entry")
	l.cur = g.Entry
	l.stmts(body.List)
	if l.err != nil {
		return nil, l.err
	}
	if l.cur != nil && l.cur.Kind == TNone {
		l.cur.Kind = TReturn // fall off the end
	}
	for _, b := range g.Blocks {
		if b.Kind == TNone {
			b.Kind = TReturn
		}
	}
	if err := g.analyse(); err != nil {
		return nil, err
	}
	return g, nil
}

func (l *lowerer) stmts(list []ast.Stmt) {
	for _, s := range list {
		l.stmt(s)
	}
}

func (l *lowerer) stmt(s ast.Stmt) {
	if l.err != nil {
		return
	}
	switch s := s.(type) {
	case *ast.BlockStmt:
		l.stmts(s.List)
	case *ast.EmptyStmt:
	case *ast.LabeledStmt:
		b := l.label(s.Label.Name, s.Pos())
		b.ScopePos = s.Stmt.Pos()
		l.jump(b)
		l.cur = b
		l.pendLabel = s.Label.Name
		l.stmt(s.Stmt)
		l.pendLabel = ""
	case *ast.IfStmt:
		if s.Init != nil {
			l.add(&INode{Kind: NStmt, Stmt: s.Init})
		}
		if l.cur == nil || l.cur.Kind != TNone {
			l.cur = l.newBlock(s.Pos(), "unreachable if")
		}
		thenB := l.newBlock(s.Body.Pos(), "if.then")
		done := l.newBlock(s.End(), "if.done")
		elseB := done
		if s.Else != nil {
			elseB = l.newBlock(s.Else.Pos(), "if.else")
		}
		l.branch(&Cond{Kind: CExpr, Expr: s.Cond}, thenB, elseB)
		l.cur = thenB
		l.stmts(s.Body.List)
		l.jump(done)
		if s.Else != nil {
			l.cur = elseB
			l.stmt(s.Else)
			l.jump(done)
		}
		l.cur = done
	case *ast.ForStmt:
		lbl := l.pendLabel
		l.pendLabel = ""
		if s.Init != nil {
			l.add(&INode{Kind: NStmt, Stmt: s.Init})
		}
		head := l.newBlock(s.Pos(), "for.head")
		body := l.newBlock(s.Body.Pos(), "for.body")
		done := l.newBlock(s.End(), "for.done")
		post := head
		if s.Post != nil {
			post = l.newBlock(s.Post.Pos(), "for.post")
		}
		l.jump(head)
		l.cur = head
		head.ScopePos = s.Body.Lbrace + 1
		if s.Cond != nil {
			l.branch(&Cond{Kind: CExpr, Expr: s.Cond}, body, done)
		} else {
			l.jump(body)
		}
		l.push(done, post, lbl)
		l.cur = body
		l.stmts(s.Body.List)
		l.jump(post)
		l.pop(lbl)
		if s.Post != nil {
			l.cur = post
			l.add(&INode{Kind: NStmt, Stmt: s.Post})
			l.jump(head)
		}
		l.cur = done
	case *ast.RangeStmt:
		lbl := l.pendLabel
		l.pendLabel = ""
		l.g.rngN++
		l.add(&INode{Kind: NRangeInit, Range: s})
		head := l.newBlock(s.Pos(), "range.head")
		body := l.newBlock(s.Body.Pos(), "range.body")
		done := l.newBlock(s.End(), "range.done")
		l.jump(head)
		l.cur = head
		head.ScopePos = s.Body.Lbrace + 1
		l.branch(&Cond{Kind: CRangeHas, Range: s}, body, done)
		post := head
		if l.opts.FuncRange != nil && l.opts.FuncRange(s) {
			// range over a list iterator: `continue` and the end of the body go to the advance step
			post = l.newBlock(s.Body.Rbrace, "range.next")
		}
		l.push(done, post, lbl)
		l.cur = body
		l.add(&INode{Kind: NRangeBind, Range: s})
		l.stmts(s.Body.List)
		l.jump(post)
		l.pop(lbl)
		if post != head {
			l.cur = post
			l.add(&INode{Kind: NRangeNext, Range: s})
			l.jump(head)
		}
		l.cur = done
	case *ast.SwitchStmt:
		lbl := l.pendLabel
		l.pendLabel = ""
		if s.Init != nil {
			l.add(&INode{Kind: NStmt, Stmt: s.Init})
		}
		l.g.tagN++
		tag := fmt.Sprintf("$tag%d", l.g.tagN)
		l.add(&INode{Kind: NTag, Expr: s.Tag, Aux: tag}) // Expr may be nil: tag is `true`
		done := l.newBlock(s.End(), "switch.done")
		var bodies []*Block
		var deflt *Block
		for _, c := range s.Body.List {
			cc := c.(*ast.CaseClause)
			b := l.newBlock(cc.Pos(), "case.body")
			bodies = append(bodies, b)
			if cc.List == nil {
				deflt = b
			}
		}
		if l.cur == nil || l.cur.Kind != TNone {
			l.cur = l.newBlock(s.Pos(), "unreachable switch")
		}
		for i, c := range s.Body.List {
			cc := c.(*ast.CaseClause)
			for _, e := range cc.List {
				next := l.newBlock(e.Pos(), "case.next")
				l.branch(&Cond{Kind: CCaseEq, Expr: e, Aux: tag}, bodies[i], next)
				l.cur = next
			}
		}
		if deflt != nil {
			l.jump(deflt)
		} else {
			l.jump(done)
		}
		l.brk = append(l.brk, done)
		if lbl != "" {
			l.lblBrk[lbl] = done
		}
		for i, c := range s.Body.List {
			cc := c.(*ast.CaseClause)
			l.cur = bodies[i]
			saveFt := l.ft
			l.ft = nil
			if i+1 < len(bodies) {
				l.ft = bodies[i+1]
			}
			l.stmts(cc.Body)
			l.ft = saveFt
			l.jump(done)
		}
		l.brk = l.brk[:len(l.brk)-1]
		l.cur = done
	case *ast.BranchStmt:
		switch s.Tok {
		case token.GOTO:
			l.jump(l.label(s.Label.Name, token.NoPos))
		case token.BREAK:
			if s.Label != nil {
				l.jump(l.lblBrk[s.Label.Name])
			} else if len(l.brk) > 0 {
				l.jump(l.brk[len(l.brk)-1])
			} else {
				l.err = fmt.Errorf("break outside loop")
			}
		case token.CONTINUE:
			if s.Label != nil {
				l.jump(l.lblCont[s.Label.Name])
			} else if len(l.cont) > 0 {
				l.jump(l.cont[len(l.cont)-1])
			} else {
				l.err = fmt.Errorf("continue outside loop")
			}
		case token.FALLTHROUGH:
			if l.ft == nil {
				l.err = fmt.Errorf("fallthrough without target")
			} else {
				l.jump(l.ft)
			}
		}
		l.cur = nil
	case *ast.ReturnStmt:
		if l.cur == nil || l.cur.Kind != TNone {
			l.cur = l.newBlock(s.Pos(), "unreachable return")
		}
		if l.cb != nil {
			// inside an inlined callback body: the callback returns this value
			if len(s.Results) != 1 {
				l.err = fmt.Errorf("callback literal must return one value")
				return
			}
			l.add(&INode{Kind: NTag, Expr: s.Results[0], Aux: l.cb.aux})
			l.branch(&Cond{Kind: CCell, Aux: l.cb.aux}, l.cb.found, l.cb.next)
			l.cur = nil
			return
		}
		if len(s.Results) == 1 && l.opts.CallbackLoop != nil {
			neg, e := false, unparenIR(s.Results[0])
			for {
				u, ok := e.(*ast.UnaryExpr)
				if !ok || u.Op != token.NOT {
					break
				}
				neg, e = !neg, unparenIR(u.X)
			}
			if call, lit, ok := l.opts.CallbackLoop(e); ok {
				l.callbackLoop(s, call, lit, neg)
				return
			}
		}
		l.cur.Kind = TReturn
		l.cur.Ret = s
		l.cur = nil
	case *ast.ExprStmt:
		if call, ok := s.X.(*ast.CallExpr); ok {
			if id, ok := call.Fun.(*ast.Ident); ok && id.Name == "panic" {
				l.add(&INode{Kind: NStmt, Stmt: s})
				l.cur.Kind = TPanic
				l.cur = nil
				return
			}
		}
		l.add(&INode{Kind: NStmt, Stmt: s})
	case *ast.DeferStmt:
		l.g.Defers = append(l.g.Defers, s)
		l.add(&INode{Kind: NStmt, Stmt: s})
	case *ast.AssignStmt, *ast.IncDecStmt, *ast.DeclStmt, *ast.GoStmt:
		l.add(&INode{Kind: NStmt, Stmt: s})
	default:
		l.err = fmt.Errorf("statement %T outside the accepted subset", s)
	}
}

func unparenIR(e ast.Expr) ast.Expr {
	for {
		p, ok := e.(*ast.ParenExpr)
		if !ok {
			return e
		}
		e = p.X
	}
}

// callbackLoop lowers `return [!]slices.ContainsFunc(seq, func(p T) bool { body })` by the definition of ContainsFunc:
//
//	for _, p := range seq { <body, where `return e` reads: if e { return true } else continue> }; return false
//
// The loop is an ordinary loop of the function: it is cut at its head and needs an invariant (`loop N invariant`, N counted
// in source order with the position of the call). Names in that invariant are resolved in the scope of the call, not of the
// literal. The sequence is evaluated once, before the first call of the literal (as the argument of ContainsFunc is).
func (l *lowerer) callbackLoop(ret *ast.ReturnStmt, call *ast.CallExpr, lit *ast.FuncLit, neg bool) {
	if l.cb != nil {
		l.err = fmt.Errorf("nested callback loops")
		return
	}
	if lit.Type.Params == nil || len(lit.Type.Params.List) != 1 || len(lit.Type.Params.List[0].Names) != 1 {
		l.err = fmt.Errorf("callback literal must have exactly one named parameter")
		return
	}
	rs := &ast.RangeStmt{For: call.Pos(), X: call.Args[0], Tok: token.DEFINE, Body: lit.Body}
	l.g.Callback[rs] = lit.Type.Params.List[0].Names[0]
	l.g.rngN++
	l.g.tagN++
	aux := fmt.Sprintf("$cb%d", l.g.tagN)
	l.add(&INode{Kind: NRangeInit, Range: rs})
	head := l.newBlock(call.Pos(), "cbloop.head")
	body := l.newBlock(lit.Body.Pos(), "cbloop.body")
	next := l.newBlock(lit.Body.Rbrace, "cbloop.next")
	found := l.newBlock(ret.Pos(), "cbloop.found")
	done := l.newBlock(ret.End(), "cbloop.done")
	l.jump(head)
	l.cur = head
	head.ScopePos = call.Pos()
	l.branch(&Cond{Kind: CRangeHas, Range: rs}, body, done)
	l.cur = body
	l.add(&INode{Kind: NRangeBind, Range: rs})
	// break/continue inside the literal cannot leave it: fresh target stacks
	saveBrk, saveCont, saveFt := l.brk, l.cont, l.ft
	l.brk, l.cont, l.ft = nil, nil, nil
	l.cb = &cbCtx{aux: aux, found: found, next: next}
	l.stmts(lit.Body.List)
	l.cb = nil
	l.brk, l.cont, l.ft = saveBrk, saveCont, saveFt
	l.jump(next)
	l.cur = next
	l.add(&INode{Kind: NRangeNext, Range: rs})
	l.jump(head)
	mkRet := func(v bool) *ast.ReturnStmt {
		name := "false"
		if v != neg {
			name = "true"
		}
		return &ast.ReturnStmt{Return: ret.Return, Results: []ast.Expr{&ast.Ident{NamePos: ret.Return, Name: name}}}
	}
	found.Kind, found.Ret = TReturn, mkRet(true)
	done.Kind, done.Ret = TReturn, mkRet(false)
	l.cur = nil
}

func (l *lowerer) push(brk, cont *Block, lbl string) {
	l.brk = append(l.brk, brk)
	l.cont = append(l.cont, cont)
	if lbl != "" {
		l.lblBrk[lbl] = brk
		l.lblCont[lbl] = cont
	}
}

func (l *lowerer) pop(lbl string) {
	l.brk = l.brk[:len(l.brk)-1]
	l.cont = l.cont[:len(l.cont)-1]
}

// analyse computes predecessors, reachable blocks, back edges, natural loops and a topological order.
func (g *CFG) analyse() error {
	// reachability
	reach := map[*Block]bool{}
	var dfs func(b *Block)
	state := map[*Block]int{} // 1 = on stack, 2 = done
	var post []*Block
	type edge struct{ from, to *Block }
	var back []edge
	dfs = func(b *Block) {
		reach[b] = true
		state[b] = 1
		for _, s := range b.Succs {
			if s == nil {
				continue
			}
			switch state[s] {
			case 0:
				dfs(s)
			case 1:
				back = append(back, edge{b, s})
			}
		}
		state[b] = 2
		post = append(post, b)
	}
	dfs(g.Entry)
	var blocks []*Block
	for _, b := range g.Blocks {
		if reach[b] {
			blocks = append(blocks, b)
		}
	}
	g.Blocks = blocks
	for _, b := range g.Blocks {
		for _, s := range b.Succs {
			if s == nil {
				return fmt.Errorf("jump to undefined label")
			}
			s.Preds = append(s.Preds, b)
		}
	}
	for _, e := range back {
		e.from.IsBack[e.to] = true
		e.to.LoopHead = true
		e.to.BackSrc = append(e.to.BackSrc, e.from)
	}
	for _, h := range g.Blocks {
		if !h.LoopHead {
			continue
		}
		body := map[*Block]bool{h: true}
		var stack []*Block
		for _, s := range h.BackSrc {
			if !body[s] {
				body[s] = true
				stack = append(stack, s)
			}
		}
		for len(stack) > 0 {
			b := stack[len(stack)-1]
			stack = stack[:len(stack)-1]
			for _, p := range b.Preds {
				if !body[p] {
					body[p] = true
					stack = append(stack, p)
				}
			}
		}
		if body[g.Entry] && h != g.Entry {
			return fmt.Errorf("irreducible control flow (loop at %v entered other than through its head)", h.Comment)
		}
		h.LoopBody = body
		g.Loops = append(g.Loops, h)
	}
	// reducibility: every edge into a loop body from outside must target the head
	for _, h := range g.Loops {
		for b := range h.LoopBody {
			if b == h {
				continue
			}
			for _, p := range b.Preds {
				if !h.LoopBody[p] {
					return fmt.Errorf("irreducible control flow: jump into loop body")
				}
			}
		}
	}
	sort.Slice(g.Loops, func(i, j int) bool { return g.Loops[i].Pos < g.Loops[j].Pos })
	for i, h := range g.Loops {
		h.LoopOrd = i
	}
	// topological order = reverse postorder of the DFS that ignores back edges
	for i := len(post) - 1; i >= 0; i-- {
		post[i].topo = len(g.Order)
		g.Order = append(g.Order, post[i])
	}
	return nil
}
