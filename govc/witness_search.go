package main

// Witness search, part 5: integration. When `check` has established violations (the list of failing
// obligations is final), the failing obligations are grouped by unit; for every generated-parser unit and
// for the unit "runtime" the real parser is run on enumerated inputs (witness_enum.go) through the harness
// (witness_harness.go) and compared with the reference interpreter (witness.go). The first input on which
// they differ in an aspect the property names is attached to the failing obligations of the unit as
// `Ground` (failing_input in the replay file). The search never creates, suppresses or decides a violation
// and does not run when nothing fails. `govc replay <replay.json>` reproduces a witness from the replay file
// alone against the current working tree of /repo.

import (
	"encoding/json"
	"fmt"
	"os"
	"path/filepath"
	"reflect"
	"sort"
	"strconv"
	"strings"
	"sync"
	"time"
)

// ProgInfo: what the run remembers about a generated program (the schema grammars live in a scratch
// directory that is deleted, so the text is kept).
type ProgInfo struct {
	Name      string
	Grammar   string // text of the .peg file
	Opts      []string
	Consts    map[string]int    // rule name -> rule constant of the generated file
	Companion map[string]string // hand-written Go files next to a shipped grammar
}

var progMu sync.Mutex
var progRegistry = map[string]*ProgInfo{}

// rememberProgram is called by Generate for every program it loads.
func rememberProgram(name, grammarPath string, opts []string, consts map[string]int) {
	text, err := os.ReadFile(grammarPath)
	if err != nil {
		return
	}
	pi := &ProgInfo{Name: name, Grammar: string(text), Opts: append([]string{}, opts...), Consts: consts}
	// hand-written companions of a shipped grammar (the same files Generate copies)
	if ents, err := os.ReadDir(filepath.Dir(grammarPath)); err == nil && strings.HasPrefix(grammarPath, filepath.Join(repoDir, "grammars")+"/") {
		for _, e := range ents {
			nm := e.Name()
			if strings.HasSuffix(nm, ".go") && !strings.HasSuffix(nm, "_test.go") && !strings.HasSuffix(nm, ".peg.go") {
				if data, err := os.ReadFile(filepath.Join(filepath.Dir(grammarPath), nm)); err == nil {
					if pi.Companion == nil {
						pi.Companion = map[string]string{}
					}
					pi.Companion[nm] = string(data)
				}
			}
		}
	}
	progMu.Lock()
	defer progMu.Unlock()
	progRegistry[name] = pi
}

// Witness is the content of Obligation.Ground / failing_input.
type Witness struct {
	Unit        string            `json:"unit"`
	Property    string            `json:"property"`
	Aspect      string            `json:"aspect"` // what differs (verdict, end, tokens, error-token, memo, reset, ...)
	Grammar     string            `json:"grammar"`
	GrammarNote string            `json:"grammar_note"`
	Companion   map[string]string `json:"companion_files,omitempty"` // hand-written Go files of a shipped grammar
	Options     []string          `json:"options"`
	StartRule   string            `json:"start_rule"`
	Input       string            `json:"input"`       // Go-quoted
	InputBytes  []byte            `json:"input_bytes"` // base64 in JSON: the exact bytes
	PredOK      bool              `json:"state_ok"`    // value given to the state variable `ok` (semantic predicates of the schema grammars)
	Expected    json.RawMessage   `json:"expected"`    // reference (DESIGN.md 4.2)
	Actual      json.RawMessage   `json:"actual"`      // the real parser
	Difference  string            `json:"difference"`
	Rerun       string            `json:"how_to_rerun"`
}

// aspect priorities per property: the aspects the property names.
var primaryAspects = map[string][]string{
	"C01": {"verdict", "end", "hang", "crash"},
	"C02": {"verdict", "end", "tokens", "hang", "crash", "panic"},
	"C17": {"verdict", "end", "tokens", "hang", "crash", "panic"},
	"C03": {"tokens", "end"},
	"C04": {"execute"},
	"C05": {"ast", "tree"},
	"C06": {"memo"},
	"C07": {"verdict", "inline-actions", "hang", "crash", "panic"},
	"C11": {"error-token", "error-message"},
	"C12": {"reset"},
	"C13": {"panic", "hang", "crash", "offsets"},
}

// any of these is accepted for every property when the property's own aspects show nothing
var secondaryAspects = []string{"verdict", "panic", "hang", "crash"}

type mismatch struct {
	aspect string
	text   string
}

func tokensEqual(a, b []WTok) bool {
	if len(a) != len(b) {
		return false
	}
	for i := range a {
		if a[i] != b[i] {
			return false
		}
	}
	return true
}

// obsDiffer compares two observations of the real parser in what C06/C12 name: verdict, tokens, error token
// (and the action trace and tree that follow from the tokens).
func obsDiffer(a, b *WObs) string {
	switch {
	case a == nil || b == nil:
		return ""
	case a.Panic != b.Panic:
		return fmt.Sprintf("panic %q vs %q", a.Panic, b.Panic)
	case a.OK != b.OK:
		return fmt.Sprintf("verdict %v vs %v", a.OK, b.OK)
	case !tokensEqual(a.Toks, b.Toks):
		return fmt.Sprintf("tokens %v vs %v", a.Toks, b.Toks)
	case (a.Err == nil) != (b.Err == nil):
		return "error present vs absent"
	case a.Err != nil && (a.Err.R != b.Err.R || a.Err.B != b.Err.B || a.Err.E != b.Err.E || a.Err.Msg != b.Err.Msg):
		return fmt.Sprintf("error %s[%d:%d] vs %s[%d:%d]", a.Err.R, a.Err.B, a.Err.E, b.Err.R, b.Err.B, b.Err.E)
	case a.ExecN != b.ExecN || !reflect.DeepEqual(a.ExecLog, b.ExecLog):
		return fmt.Sprintf("action trace n=%d %q vs n=%d %q", a.ExecN, a.ExecLog, b.ExecN, b.ExecLog)
	case a.Tree != b.Tree:
		return "syntax tree differs"
	}
	return ""
}

// compareCase lists the aspects in which the real parser differs from the reference on one case.
func compareCase(h *Harness, input []byte, ref *RefResult, out *WOut) []mismatch {
	var ms []mismatch
	add := func(a, f string, x ...any) { ms = append(ms, mismatch{a, fmt.Sprintf(f, x...)}) }
	if out.Hang {
		what := "does not terminate"
		if out.Mem {
			what = "does not terminate and allocates without bound"
		}
		add("hang", "the real parser %s on this input (the reference terminates with verdict %v)", what, ref.OK)
		return ms
	}
	if out.Crash != "" {
		add("crash", "the parser process died on this input: %s", out.Crash)
		return ms
	}
	f := out.Fresh
	if f == nil {
		return nil
	}
	nrunes := len([]rune(string(input)))
	for _, o := range []struct {
		n string
		o *WObs
	}{{"fresh parser", out.Fresh}, {"DisableMemoize parser", out.NoMemo}, {"after Reset", out.Reset}, {"after second Reset", out.Reset2}} {
		if o.o == nil {
			continue
		}
		if o.o.Panic != "" {
			add("panic", "%s: Parse panicked: %s", o.n, o.o.Panic)
		}
		if o.o.Err != nil && o.o.Err.MsgPanic != "" {
			add("panic", "%s: Error() panicked: %s", o.n, o.o.Err.MsgPanic)
		}
		for _, t := range o.o.Toks {
			if t.B < 0 || t.B > t.E || t.E > nrunes {
				add("offsets", "%s: token %s[%d:%d] does not index the %d runes of the input", o.n, t.R, t.B, t.E, nrunes)
				break
			}
		}
	}
	if f.Panic == "" {
		if f.OK != ref.OK {
			add("verdict", "expected verdict %v, the real parser says %v", ref.OK, f.OK)
		} else if f.OK && h.Ast {
			end := -1
			if len(f.Toks) > 0 {
				end = f.Toks[len(f.Toks)-1].E
			}
			if end != ref.End {
				add("end", "expected consumed prefix %d, the last token of the real parser ends at %d", ref.End, end)
			}
			if !tokensEqual(f.Toks, ref.Toks) {
				add("tokens", "expected tokens %v, got %v", ref.Toks, f.Toks)
			}
			if f.ExecPanic != "" {
				add("execute", "Execute panicked: %s", f.ExecPanic)
			} else if f.ExecRan && (f.ExecN != ref.ExecN || !reflect.DeepEqual(nilIfEmpty(f.ExecLog), nilIfEmpty(ref.ExecLog))) {
				add("execute", "expected action trace n+=%d log=%q, Execute did n+=%d log=%q", ref.ExecN, ref.ExecLog, f.ExecN, f.ExecLog)
			}
			if f.AstPanic != "" {
				add("ast", "AST()/SprintSyntaxTree panicked: %s", f.AstPanic)
			} else {
				if !reflect.DeepEqual(nilIfEmptyN(f.Ast), nilIfEmptyN(ref.Ast)) {
					add("ast", "expected tree (pre-order) %v, AST() gives %v", ref.Ast, f.Ast)
				}
				if f.Tree != ref.Tree {
					add("tree", "expected printed tree %q, got %q", ref.Tree, f.Tree)
				}
			}
		} else if !f.OK && f.Err != nil {
			if h.Ast && !h.Switch && (f.Err.R != ref.Max.R || f.Err.B != ref.Max.B || f.Err.E != ref.Max.E) {
				add("error-token", "expected error token %s[%d:%d] (furthest failure), got %s[%d:%d]", ref.Max.R, ref.Max.B, ref.Max.E, f.Err.R, f.Err.B, f.Err.E)
			}
			if f.Err.MsgPanic == "" {
				// the message must describe the token the error carries (line/column of begin and end, quoted text)
				buf := append([]rune(string(input)), wSentinel)
				if want := refErrorMessage(buf, WTok{f.Err.R, f.Err.B, f.Err.E}); want != f.Err.Msg {
					add("error-message", "expected message %q, got %q", want, f.Err.Msg)
				}
			}
		}
		if !h.Ast && !h.Switch && h.InlineObs && (f.InlineN != ref.InlineN || !reflect.DeepEqual(nilIfEmpty(f.InlineLog), nilIfEmpty(ref.InlineLog))) {
			add("inline-actions", "expected inline action trace n+=%d log=%q, got n+=%d log=%q", ref.InlineN, ref.InlineLog, f.InlineN, f.InlineLog)
		}
	}
	if d := obsDiffer(out.Fresh, out.NoMemo); d != "" {
		add("memo", "memoising parser vs DisableMemoize parser: %s", d)
	}
	if d := obsDiffer(out.Fresh, out.Reset); d != "" {
		add("reset", "fresh parser vs long-lived parser after Reset (previous input differed): %s", d)
	} else if d := obsDiffer(out.Fresh, out.Reset2); d != "" {
		add("reset", "fresh parser vs long-lived parser after Reset with the identical Buffer: %s", d)
	}
	// (no AST) the inline action trace of the long-lived parser: `text` is a variable of Init that reset() does not clear, so
	// an action reached before the first capture of a parse sees the last capture of the previous parse. This differs from
	// a fresh parser on the unchanged tree (reported as a finding); it is listed by `govc witness` and never used as a witness.
	if !h.Ast && h.InlineObs && out.Fresh != nil && out.Fresh.Panic == "" {
		for _, o := range []*WObs{out.Reset, out.Reset2} {
			if o != nil && o.Panic == "" && (o.InlineN != out.Fresh.InlineN || !reflect.DeepEqual(nilIfEmpty(o.InlineLog), nilIfEmpty(out.Fresh.InlineLog))) {
				add(knownResetText, "fresh parser vs long-lived parser after Reset: inline action trace n+=%d %q vs n+=%d %q", out.Fresh.InlineN, out.Fresh.InlineLog, o.InlineN, o.InlineLog)
				break
			}
		}
	}
	return ms
}

// knownResetText: an aspect in which the real code differs from a fresh parser on the unchanged tree (see compareCase).
const knownResetText = "reset-text-noast"

func nilIfEmpty(x []string) []string {
	if len(x) == 0 {
		return nil
	}
	return x
}

func nilIfEmptyN(x []WNode) []WNode {
	if len(x) == 0 {
		return nil
	}
	return x
}

func pickAspect(ms []mismatch, aspects []string) *mismatch {
	for _, a := range aspects {
		for i := range ms {
			if ms[i].aspect == a {
				return &ms[i]
			}
		}
	}
	return nil
}

// witnessDebug, when set (govc witness), receives every mismatch instead of the search stopping at the first.
var witnessDebug func(c WCase, ref *RefResult, out *WOut, ms []mismatch)

// found is a mismatch together with the case it was found on.
type found struct {
	rank  int // 0 = an aspect the property names, 1 = verdict/panic/termination, 2 = any other aspect
	m     mismatch
	c     WCase
	ref   *RefResult
	out   *WOut
	h     *Harness
	gnote string
}

// WitStats is what the evidence records about the search.
type WitStats struct {
	mu        sync.Mutex
	Units     int      `json:"units_searched"`
	Inputs    int      `json:"inputs_tried"`
	Witnesses int      `json:"witnesses_found"`
	Seconds   float64  `json:"seconds"`
	Notes     []string `json:"notes,omitempty"`
}

func (s *WitStats) note(f string, a ...any) {
	s.mu.Lock()
	s.Notes = append(s.Notes, fmt.Sprintf(f, a...))
	s.mu.Unlock()
}

// searchGrammar runs the enumeration for one grammar. startRules in priority order. Returns the best mismatch.
func searchGrammar(h *Harness, prop string, startRules []string, deadline time.Time, stats *WitStats, gnote string) *found {
	ri := &RefInterp{Spec: h.Spec, NoAst: !h.Ast}
	hostile := prop == "C13"
	maxLen := 8 // all strings up to this length, shortest first; in practice the time budget ends the enumeration earlier
	type stream struct {
		rule string
		st   *inputStream
		pred bool // the rule reaches a predicate on the state variable ok: try both values
	}
	var streams []*stream
	for _, r := range startRules {
		if h.Spec.ByName[r] == nil || !wellFormed(h.Spec, r) {
			continue
		}
		s := &stream{rule: r, st: newInputStream(h.Spec, r, hostile, maxLen)}
		for _, rn := range reachableRules(h.Spec, r) {
			var walk func(n *PNode)
			walk = func(n *PNode) {
				if n.TypeName == "Predicate" {
					s.pred = true
				}
				for _, c := range n.Kids {
					walk(c)
				}
			}
			if pr := h.Spec.ByName[rn]; pr != nil {
				walk(pr.Body)
			}
		}
		streams = append(streams, s)
	}
	var best *found
	var bestAt time.Time
	id := 0
	perCase := 2 * time.Second
	chunk := 150
	var pendC []WCase // cases left unanswered behind a hang or crash: first in the next batch
	var pendR []*RefResult
	for (len(streams) > 0 || len(pendC) > 0) && time.Now().Before(deadline) {
		if best != nil && (best.rank == 0 || time.Since(bestAt) > 8*time.Second) {
			break // an aspect the property names; or a lesser witness and no better one within a few seconds
		}
		cases, refs := pendC, pendR
		pendC, pendR = nil, nil
		var live []*stream
		for _, s := range streams {
			got, exhausted := 0, false
			for got < chunk && len(cases) < 3*chunk {
				in, ok := s.st.next()
				if !ok {
					exhausted = true
					break
				}
				got++
				for _, pv := range []bool{false, true} {
					if pv && !s.pred {
						continue
					}
					ref := ri.Run(s.rule, []byte(in), pv)
					if ref.Undetermined != "" {
						continue
					}
					id++
					cases = append(cases, WCase{ID: id, Rule: s.rule, Input: []byte(in), PredOK: pv})
					refs = append(refs, ref)
				}
			}
			if !exhausted {
				live = append(live, s)
			}
		}
		streams = live
		if len(cases) == 0 {
			continue
		}
		outs := h.RunCases(cases, perCase, deadline, true)
		tried, dropped := 0, map[string]bool{}
		stopped := false // a hang or crash ended the batch: what follows it is still to be run
		for i, o := range outs {
			if o == nil {
				if stopped {
					pendC, pendR = append(pendC, cases[i]), append(pendR, refs[i])
				}
				continue
			}
			stopped = stopped || o.Hang || o.Crash != ""
			if o.NilRule {
				dropped[cases[i].Rule] = true // no closure (unused rule, or inlined): not an entry point
				continue
			}
			tried++
			if o.Hang || o.Crash != "" {
				// confirm in a process of its own with a three times longer limit: a stalled machine must not look like a loop
				re := h.RunCases([]WCase{cases[i]}, 3*perCase, deadline, false)
				if re[0] == nil {
					continue
				}
				o = re[0]
			}
			ms := compareCase(h, cases[i].Input, refs[i], o)
			if len(ms) == 0 {
				continue
			}
			if witnessDebug != nil {
				witnessDebug(cases[i], refs[i], o, ms) // cross-check mode (govc witness): list everything, stop at nothing
				continue
			}
			var keep []mismatch
			for _, m := range ms {
				if m.aspect != knownResetText {
					keep = append(keep, m)
				}
			}
			if ms = keep; len(ms) == 0 {
				continue
			}
			cand := &found{c: cases[i], ref: refs[i], out: o, h: h, gnote: gnote}
			if m := pickAspect(ms, primaryAspects[prop]); m != nil {
				cand.rank, cand.m = 0, *m
			} else if m := pickAspect(ms, secondaryAspects); m != nil {
				cand.rank, cand.m = 1, *m
			} else {
				cand.rank, cand.m = 2, ms[0]
			}
			if best == nil || cand.rank < best.rank {
				best, bestAt = cand, time.Now()
			}
			if best.rank == 0 {
				break
			}
		}
		stats.mu.Lock()
		stats.Inputs += tried
		stats.mu.Unlock()
		if len(dropped) > 0 {
			var keep []*stream
			for _, s := range streams {
				if !dropped[s.rule] {
					keep = append(keep, s)
				}
			}
			streams = keep
		}
		if chunk < 2400 {
			chunk *= 2
		}
	}
	return best
}

// startRulesFor: the rules whose closures failed, the rules that (transitively) reference them, the first rule.
func startRulesFor(ps *PegSpec, failed []string) []string {
	var out []string
	seen := map[string]bool{}
	add := func(r string) {
		if !seen[r] && ps.ByName[r] != nil {
			seen[r] = true
			out = append(out, r)
		}
	}
	for _, f := range failed {
		add(f)
	}
	for i, r := range referrers(ps, failed) {
		if i >= 8 {
			break
		}
		add(r)
	}
	if len(ps.Rules) > 0 {
		add(ps.Rules[0].Name)
	}
	if len(failed) == 0 {
		// no particular closure (template function, unit-level obligation): every rule is an entry point
		for i, r := range ps.Rules {
			if i >= 40 {
				break
			}
			add(r.Name)
		}
	}
	return out
}

// searchOwn: phase A. The unit's own grammar (for the unit "runtime": the carrier), started at the rules whose closures failed.
func searchOwn(unit string, prog *ProgInfo, failedRules []string, prop string, deadline time.Time, stats *WitStats) *found {
	note := "the unit's grammar"
	if unit == "runtime" {
		note = "the carrier grammar of the runtime unit"
	}
	h, err := buildParserHarness(prog.Grammar, prog.Opts, prog.Companion)
	if err != nil {
		stats.note("%s: harness not built: %s", unit, trunc(err.Error(), 300))
		return nil
	}
	return searchGrammar(h, prop, startRulesFor(h.Spec, failedRules), deadline, stats, note)
}

// searchProbes: phase B. The probe grammars under one option set; the result serves every unit generated with these options
// (a probe does not depend on the unit), so it is computed once per option set.
func searchProbes(opts []string, prop string, deadline time.Time, stats *WitStats) *found {
	noast := false
	for _, o := range opts {
		noast = noast || o == "-noast"
	}
	var todo []probeGrammar
	for _, pg := range probeGrammars {
		if !(pg.AstOnly && noast) {
			todo = append(todo, pg)
		}
	}
	var best *found
	for i, pg := range todo {
		remaining := time.Until(deadline)
		if remaining < 3*time.Second {
			break
		}
		h, err := buildParserHarness(pg.Text, opts, nil)
		if err != nil {
			stats.note("probe %s %v: harness not built: %s", pg.Name, opts, trunc(err.Error(), 300))
			continue
		}
		note := "probe grammar " + pg.Name + " (witness_probes.go) under the unit's options"
		f := searchGrammar(h, prop, startRulesFor(h.Spec, nil), time.Now().Add(remaining/time.Duration(len(todo)-i)), stats, note)
		if f != nil && (best == nil || f.rank < best.rank) {
			if best == nil && f.rank > 0 && time.Until(deadline) > 12*time.Second {
				// a lesser witness (verdict, panic, ...) is in hand: a little more effort for an aspect the property names, not the whole budget
				deadline = time.Now().Add(12 * time.Second)
			}
			best = f
		}
		if best != nil && best.rank == 0 {
			break
		}
	}
	return best
}

// buildWitness renders the witness, with the grammar cut down to the rules reachable from the start rule when
// the cut-down grammar still shows the same difference.
func buildWitness(prop string, f *found, deadline time.Time, stats *WitStats) *Witness {
	w := &Witness{Property: prop, Aspect: f.m.aspect, Grammar: f.h.Grammar, Companion: f.h.Companion, GrammarNote: f.gnote + " (complete text)", Options: f.h.Opts,
		StartRule: f.c.Rule, Input: strconv.Quote(string(f.c.Input)), InputBytes: f.c.Input, PredOK: f.c.PredOK, Difference: f.m.text}
	if w.Options == nil {
		w.Options = []string{}
	}
	ref, out := f.ref, f.out
	if time.Until(deadline) > 6*time.Second && len(f.h.Spec.Rules) > len(reachableRules(f.h.Spec, f.c.Rule)) {
		if text, ok := minimiseGrammar(f.h.Spec, f.c.Rule); ok {
			if mh, err := buildParserHarness(text, f.h.Opts, f.h.Companion); err == nil {
				mref := (&RefInterp{Spec: mh.Spec, NoAst: !mh.Ast}).Run(f.c.Rule, f.c.Input, f.c.PredOK)
				c := f.c
				c.ID = 1
				outs := mh.RunCases([]WCase{c}, 6*time.Second, time.Now().Add(10*time.Second), false)
				if mref.Undetermined == "" && outs[0] != nil && !outs[0].NilRule {
					for _, m := range compareCase(mh, c.Input, mref, outs[0]) {
						if m.aspect == f.m.aspect {
							w.Grammar, w.GrammarNote = text, f.gnote+"; minimised to the rules reachable from "+f.c.Rule+" (re-printed from the rule tree; the difference was reproduced on the minimised grammar)"
							w.Difference = m.text
							ref, out = mref, outs[0]
							break
						}
					}
				}
			}
		}
	}
	w.Expected, _ = json.Marshal(ref)
	w.Actual, _ = json.Marshal(out)
	return w
}

// ---------------------------------------------------------------------------------------------
// minimisation: print the rules reachable from the start rule back as .peg text

func pegQuoteChar(s string, inClass bool) string {
	var sb strings.Builder
	for _, c := range s {
		switch {
		case c == '\\':
			sb.WriteString(`\\`)
		case c == '\'' && !inClass:
			sb.WriteString(`\'`)
		case inClass && (c == '[' || c == ']' || c == '-'):
			sb.WriteString(`\` + string(c))
		case inClass && c == '^':
			sb.WriteString(`\0x5E`)
		case c == '\n':
			sb.WriteString(`\n`)
		case c == '\r':
			sb.WriteString(`\r`)
		case c == '\t':
			sb.WriteString(`\t`)
		case c < 0x20 || c == 0x7f || c >= 0xE000 && c <= 0xF8FF || c >= 0xFFF0:
			fmt.Fprintf(&sb, `\0x%X`, c)
		default:
			sb.WriteRune(c)
		}
	}
	return sb.String()
}

// pegText prints an expression of the rule tree in .peg syntax; ok=false for node types it cannot print.
func pegText(n *PNode, top bool, ok *bool) string {
	kid := func(i int) string { return pegText(n.Kids[i], false, ok) }
	switch n.TypeName {
	case "Character":
		return "'" + pegQuoteChar(n.Str, false) + "'"
	case "Range":
		return "[" + pegQuoteChar(n.Kids[0].Str, true) + "-" + pegQuoteChar(n.Kids[1].Str, true) + "]"
	case "Dot":
		return "."
	case "Name":
		return n.Str
	case "Nil":
		return ""
	case "Predicate":
		return "&{" + n.Str + "}"
	case "StateChange":
		return "!{" + n.Str + "}"
	case "Action":
		return "{" + n.Str + "}"
	case "Push":
		return "<" + pegText(n.Kids[0], true, ok) + ">"
	case "Query":
		return kid(0) + "?"
	case "Star":
		return kid(0) + "*"
	case "Plus":
		return kid(0) + "+"
	case "PeekFor":
		return "&" + kid(0)
	case "PeekNot":
		return "!" + kid(0)
	case "Sequence", "Alternate":
		var parts []string
		for i := range n.Kids {
			parts = append(parts, kid(i))
		}
		sep := " "
		if n.TypeName == "Alternate" {
			sep = " / "
		}
		s := strings.TrimRight(strings.Join(parts, sep), " ")
		if n.TypeName == "Alternate" && n.Kids[len(n.Kids)-1].TypeName == "Nil" {
			s = strings.TrimRight(strings.Join(parts[:len(parts)-1], sep), " ") + " /"
		}
		if top {
			return s
		}
		return "(" + s + ")"
	}
	*ok = false
	return ""
}

func minimiseGrammar(ps *PegSpec, start string) (string, bool) {
	var sb strings.Builder
	ok := true
	for _, n := range ps.Top {
		switch n.TypeName {
		case "Package":
			fmt.Fprintf(&sb, "package %s\n\n", n.Str)
		case "Import":
			if strings.HasPrefix(n.Str, "=") {
				return "", false // aliased import: not re-printed
			}
			fmt.Fprintf(&sb, "import %q\n\n", n.Str)
		case "Peg":
			state := ""
			for _, k := range n.Kids {
				if k.TypeName == "State" {
					state = k.Str
				}
			}
			fmt.Fprintf(&sb, "type %s Peg {%s}\n\n", n.Str, state)
		}
	}
	for _, rn := range reachableRules(ps, start) {
		r := ps.ByName[rn]
		fmt.Fprintf(&sb, "%s <- %s\n", rn, pegText(r.Body, true, &ok))
	}
	return sb.String(), ok
}

// ---------------------------------------------------------------------------------------------
// integration with `check`

// groundFailing is called by report once the list of failing obligations is final and non-empty.
func (r *Run) groundFailing(failing []*Obligation) {
	start := time.Now()
	budget := 60 * time.Second
	if r.Tier == "thorough" {
		budget = 600 * time.Second
	}
	if s := os.Getenv("GOVC_WITNESS_BUDGET"); s != "" {
		if d, err := time.ParseDuration(s); err == nil {
			budget = d
		}
	}
	// the search ends a little before the budget does: what is left is for rendering (minimisation rebuilds a parser)
	reserve := budget / 6
	if reserve > 8*time.Second {
		reserve = 8 * time.Second
	}
	deadline := start.Add(budget - reserve)
	hardStop := start.Add(budget + 5*time.Second)
	stats := &WitStats{}
	defer func() {
		stats.Seconds = time.Since(start).Seconds()
		r.Extra["witness_search"] = stats
		r.Notes = append(r.Notes, fmt.Sprintf("witness search: %d units searched, %d inputs replayed on the real parser against the reference interpreter, %d units with a witness, %.1fs",
			stats.Units, stats.Inputs, stats.Witnesses, stats.Seconds))
	}()
	if budget <= 0 {
		stats.note("disabled (GOVC_WITNESS_BUDGET)")
		return
	}
	if _, ok := primaryAspects[r.Property]; !ok {
		stats.note("not a property about the behaviour of generated parsers on inputs: no search")
		return
	}
	// group by unit; per unit the rules whose closures have failing obligations
	type group struct {
		unit  string
		prog  *ProgInfo
		obls  []*Obligation
		rules []string
		best  *found
	}
	groups := map[string]*group{}
	var order []*group
	progMu.Lock()
	for _, ob := range failing {
		prog := progRegistry[ob.Unit]
		if ob.Unit == "" || prog == nil {
			continue // not a generated parser (set, tree, main, frame analyses, dropped-obligation counts): no input to search for
		}
		g := groups[ob.Unit]
		if g == nil {
			g = &group{unit: ob.Unit, prog: prog}
			groups[ob.Unit] = g
			order = append(order, g)
		}
		g.obls = append(g.obls, ob)
		var c int
		if _, err := fmt.Sscanf(ob.Fn, "Init.$rules%d", &c); err == nil {
			for name, cc := range prog.Consts {
				if cc == c && !strings.HasPrefix(name, "Action") && name != "PegText" {
					dup := false
					for _, x := range g.rules {
						dup = dup || x == name
					}
					if !dup {
						g.rules = append(g.rules, name)
					}
				}
			}
		}
	}
	progMu.Unlock()
	if len(order) == 0 {
		stats.note("no failing obligation belongs to a generated parser or to the parser runtime")
		return
	}
	for _, g := range order {
		sort.Strings(g.rules)
	}
	// the units with the fewest failing closures first (the most specific ones)
	sort.SliceStable(order, func(i, j int) bool { return len(order[i].rules) < len(order[j].rules) })
	const par = 4
	parallel := func(n int, f func(i int)) {
		var wg sync.WaitGroup
		sem := make(chan struct{}, par)
		for i := 0; i < n; i++ {
			wg.Add(1)
			sem <- struct{}{}
			go func(i int) {
				defer wg.Done()
				defer func() { <-sem }()
				f(i)
			}(i)
		}
		wg.Wait()
	}
	// phase A: every unit on its own grammar, from the rules whose closures failed; half of the budget, shared by the rounds
	rounds := (len(order) + par - 1) / par
	perUnit := budget / 2 / time.Duration(rounds)
	if perUnit < 5*time.Second {
		perUnit = 5 * time.Second
	}
	endA := start.Add(budget / 2)
	parallel(len(order), func(i int) {
		g := order[i]
		if time.Until(endA) < 3*time.Second {
			return
		}
		d := time.Now().Add(perUnit)
		if g.unit == "runtime" && perUnit > budget/10 {
			d = time.Now().Add(budget / 10) // the carrier was written for the proofs; runtime defects show on the probes
		}
		stats.mu.Lock()
		stats.Units++
		stats.mu.Unlock()
		g.best = searchOwn(g.unit, g.prog, g.rules, r.Property, d, stats)
	})
	// phase B: the probe grammars, once per option set that still has a unit without a witness in an aspect the property names
	type optset struct {
		opts   []string
		best   *found
		lesser bool // every unit of the set already has a lesser witness (verdict, panic, ...): only a little more effort
	}
	sets := map[string]*optset{}
	var setOrder []*optset
	for _, g := range order {
		if g.best != nil && g.best.rank == 0 {
			continue
		}
		k := strings.Join(g.prog.Opts, " ")
		if sets[k] == nil {
			sets[k] = &optset{opts: g.prog.Opts, lesser: true}
			setOrder = append(setOrder, sets[k])
		}
		sets[k].lesser = sets[k].lesser && g.best != nil
	}
	if n := len(setOrder); n > 0 && time.Until(deadline) > 5*time.Second {
		per := time.Until(deadline) / time.Duration((n+par-1)/par)
		parallel(n, func(i int) {
			if time.Until(deadline) < 3*time.Second {
				return
			}
			d := time.Now().Add(per)
			if setOrder[i].lesser && per > 10*time.Second {
				d = time.Now().Add(10 * time.Second)
			}
			if d.After(deadline) {
				d = deadline
			}
			setOrder[i].best = searchProbes(setOrder[i].opts, r.Property, d, stats)
		})
	}
	// phase C: render (and minimise) each distinct finding once, attach it to the failing obligations of its units
	chosen := make([]*found, len(order))
	var distinct []*found
	seenF := map[*found]bool{}
	for i, g := range order {
		f := g.best
		if pb := sets[strings.Join(g.prog.Opts, " ")]; pb != nil && pb.best != nil && (f == nil || pb.best.rank < f.rank) {
			f = pb.best
		}
		chosen[i] = f
		if f != nil && !seenF[f] {
			seenF[f] = true
			distinct = append(distinct, f)
		}
	}
	rendered := make([]*Witness, len(distinct))
	parallel(len(distinct), func(i int) { rendered[i] = buildWitness(r.Property, distinct[i], hardStop, stats) })
	for i, g := range order {
		f := chosen[i]
		if f == nil {
			continue
		}
		var w *Witness
		for k, d := range distinct {
			if d == f {
				w = rendered[k]
			}
		}
		stats.Witnesses++
		for _, ob := range g.obls {
			ww := *w
			ww.Unit = g.unit
			if f != g.best {
				if g.unit == "runtime" {
					ww.GrammarNote += "; the defect is in the parser runtime, which every generated parser shares"
				} else {
					ww.GrammarNote += "; NOT the grammar of unit " + g.unit + ": its own grammar gave no such witness within its share of the budget"
				}
			}
			ww.Rerun = "cd " + verifDir + " && bin/govc replay " + r.replayPath(ob) + "   (rebuilds peg from the working tree of /repo, regenerates the parser with the recorded options, runs the recorded input; exit status 1 while the real parser differs from the reference)"
			data, _ := json.Marshal(&ww)
			ob.Ground = string(data)
		}
		stats.note("%s: witness (%s) rule %s input %s [%s]", g.unit, w.Aspect, w.StartRule, w.Input, trunc(f.gnote, 40))
	}
}

func (r *Run) replayPath(ob *Obligation) string {
	return filepath.Join(verifDir, "replays", r.Property+"-"+safeName(ob.Name)+".json")
}

// ---------------------------------------------------------------------------------------------
// govc replay <replay.json>

func cmdReplay(args []string) int {
	if len(args) < 1 {
		fmt.Println("usage: govc replay <replay.json>")
		return 2
	}
	data, err := os.ReadFile(args[0])
	if err != nil {
		fmt.Println(err)
		return 2
	}
	var rep struct {
		Property string          `json:"property"`
		Failing  json.RawMessage `json:"failing_input"`
	}
	if err := json.Unmarshal(data, &rep); err != nil {
		fmt.Println("replay file:", err)
		return 2
	}
	var w Witness
	if len(rep.Failing) == 0 || string(rep.Failing) == "null" || json.Unmarshal(rep.Failing, &w) != nil || w.Grammar == "" {
		fmt.Println("the replay file carries no failing input (no-failing-input-found): nothing to replay")
		return 2
	}
	h, err := buildParserHarness(w.Grammar, w.Options, w.Companion)
	if err != nil {
		fmt.Println("the parser could not be generated or built from the current tree:", err)
		return 1
	}
	ref := (&RefInterp{Spec: h.Spec, NoAst: !h.Ast}).Run(w.StartRule, w.InputBytes, w.PredOK)
	if ref.Undetermined != "" {
		fmt.Println("the specification has no value for this case on the current tree:", ref.Undetermined)
		return 2
	}
	outs := h.RunCases([]WCase{{ID: 1, Rule: w.StartRule, Input: w.InputBytes, PredOK: w.PredOK}}, 6*time.Second, time.Now().Add(60*time.Second), false)
	fmt.Printf("property   %s (recorded aspect: %s)\noptions    %v\nstart rule %s\ninput      %s\n", w.Property, w.Aspect, w.Options, w.StartRule, strconv.Quote(string(w.InputBytes)))
	exp, _ := json.Marshal(ref)
	fmt.Printf("expected   %s\n", exp)
	if outs[0] == nil {
		fmt.Println("actual     (the parser process gave no answer)")
		return 1
	}
	if outs[0].NilRule {
		fmt.Println("actual     (the rule has no closure in the parser generated from the current tree)")
		return 2
	}
	act, _ := json.Marshal(outs[0])
	fmt.Printf("actual     %s\n", act)
	n := 0
	for _, m := range compareCase(h, w.InputBytes, ref, outs[0]) {
		if m.aspect == knownResetText {
			// differs on the unchanged tree as well (see compareCase): shown, not counted
			fmt.Printf("KNOWN      %s: %s\n", m.aspect, m.text)
			continue
		}
		n++
		fmt.Printf("MISMATCH   %s: %s\n", m.aspect, m.text)
	}
	if n == 0 {
		fmt.Println("AGREE: the real parser now agrees with the reference on this input")
		return 0
	}
	return 1
}

// ---------------------------------------------------------------------------------------------
// govc witness <grammar.peg|carrier|probes|schema:quick|schema:thorough> [-o "<peg options>"] [-t 30s] [-r Rule,...] [-p Cnn]
//
// Cross-check of the reference interpreter against the real generated parser: runs the enumeration from every rule
// (or the named ones) and prints every difference in any aspect. On an unchanged tree it must print none.

func cmdParserWitness(args []string) int {
	if len(args) < 1 {
		fmt.Println("usage: govc witness <grammar.peg|carrier|probes|schema:<tier>> [-o options] [-t duration] [-r rules] [-p property]")
		return 2
	}
	optsFlag, dur, rules, prop := "", 30*time.Second, "", "C13"
	for i := 1; i+1 < len(args); i += 2 {
		switch args[i] {
		case "-o":
			optsFlag = args[i+1]
		case "-t":
			if d, err := time.ParseDuration(args[i+1]); err == nil {
				dur = d
			}
		case "-r":
			rules = args[i+1]
		case "-p":
			prop = args[i+1]
		}
	}
	type gr struct{ name, text string }
	var gs []gr
	switch {
	case args[0] == "simulate":
		// simulate -p Cnn -o "<opts>|<opts>|..." [-r Rule,...]: pretend that the named closures (or, without -r, one obligation
		// per unit) of every quick-tier program and of the runtime unit failed, and run the search as `check` would
		run := NewRun(prop, "quick", 0)
		progs, err := closurePrograms(run)
		if err != nil {
			fmt.Println(err)
			return 2
		}
		var fake []*Obligation
		var mu sync.Mutex
		var wg sync.WaitGroup
		sem := make(chan struct{}, 6)
		gen := func(name, grammar string, opts []string) {
			defer wg.Done()
			defer func() { <-sem }()
			gp, err := Generate(name, grammar, opts)
			if err != nil {
				fmt.Println("generate", name, trunc(err.Error(), 200))
				return
			}
			mu.Lock()
			defer mu.Unlock()
			n := 0
			for _, rn := range strings.Split(rules, ",") {
				if c, ok := gp.Consts[rn]; ok && rn != "" {
					fake = append(fake, &Obligation{Name: fmt.Sprintf("%s/Init.$rules%d#simulated", name, c), Unit: name, Fn: fmt.Sprintf("Init.$rules%d", c), Kind: "ensures"})
					n++
				}
			}
			if n == 0 && rules == "" {
				fake = append(fake, &Obligation{Name: name + "/Init.parse#simulated", Unit: name, Fn: "Init.parse", Kind: "ensures"})
			}
		}
		for _, os := range strings.Split(optsFlag, "|") {
			opts := strings.Fields(os)
			for _, pr := range progs {
				wg.Add(1)
				sem <- struct{}{}
				go gen(pr.Name+strings.Join(opts, ""), pr.Grammar, opts)
			}
		}
		wg.Add(1)
		sem <- struct{}{}
		go gen("runtime", filepath.Join(verifDir, "carriers", "carrier.peg"), nil)
		wg.Wait()
		sort.Slice(fake, func(i, j int) bool { return fake[i].Name < fake[j].Name })
		t0 := time.Now()
		run.groundFailing(fake)
		for _, ob := range fake {
			var w Witness
			if ob.Ground != "" && json.Unmarshal([]byte(ob.Ground), &w) == nil {
				fmt.Printf("%-50s WITNESS %s rule=%s input=%s opts=%v :: %s\n   [%s]\n", ob.Name, w.Aspect, w.StartRule, w.Input, w.Options, trunc(w.Difference, 200), trunc(w.GrammarNote, 200))
			} else {
				fmt.Printf("%-50s no-failing-input-found\n", ob.Name)
			}
		}
		st, _ := json.Marshal(run.Extra["witness_search"])
		fmt.Printf("search took %.1fs: %s\n", time.Since(t0).Seconds(), st)
		return 0
	case args[0] == "probes":
		for _, pg := range probeGrammars {
			if !(pg.AstOnly && strings.Contains(optsFlag, "-noast")) {
				gs = append(gs, gr{pg.Name, pg.Text})
			}
		}
	case args[0] == "carrier":
		data, err := os.ReadFile(filepath.Join(verifDir, "carriers", "carrier.peg"))
		if err != nil {
			fmt.Println(err)
			return 2
		}
		gs = append(gs, gr{"carrier", string(data)})
	case strings.HasPrefix(args[0], "schema:"):
		files, err := writeSchemas(filepath.Join(scratchDir, "schemas"), strings.TrimPrefix(args[0], "schema:"), 0)
		if err != nil {
			fmt.Println(err)
			return 2
		}
		for _, f := range files {
			data, _ := os.ReadFile(f.Path)
			gs = append(gs, gr{f.Name, string(data)})
		}
	default:
		data, err := os.ReadFile(args[0])
		if err != nil {
			fmt.Println(err)
			return 2
		}
		gs = append(gs, gr{filepath.Base(args[0]), string(data)})
	}
	nmis := 0
	var mu sync.Mutex
	cur := ""
	witnessDebug = func(c WCase, ref *RefResult, out *WOut, ms []mismatch) {
		mu.Lock()
		defer mu.Unlock()
		nmis++
		if nmis > 40 {
			return
		}
		fmt.Printf("MISMATCH %s rule=%s input=%s ok=%v\n", cur, c.Rule, strconv.Quote(string(c.Input)), c.PredOK)
		for _, m := range ms {
			fmt.Printf("   %s: %s\n", m.aspect, trunc(m.text, 600))
		}
	}
	stats := &WitStats{}
	for _, g := range gs {
		cur = g.name
		var comp map[string]string
		if strings.HasSuffix(args[0], ".peg") {
			rememberProgram("witness-debug", args[0], nil, nil)
			comp = progRegistry["witness-debug"].Companion
		}
		h, err := buildParserHarness(g.text, strings.Fields(optsFlag), comp)
		if err != nil {
			fmt.Println(g.name, "harness:", err)
			continue
		}
		var starts []string
		if rules != "" {
			starts = strings.Split(rules, ",")
		} else {
			for _, r := range h.Spec.Rules {
				starts = append(starts, r.Name)
			}
		}
		before := stats.Inputs
		searchGrammar(h, prop, starts, time.Now().Add(dur), stats, "")
		fmt.Printf("%s %s: %d start rules, %d cases compared\n", g.name, optsFlag, len(starts), stats.Inputs-before)
	}
	fmt.Printf("mismatching cases: %d\n", nmis)
	if nmis > 0 {
		return 1
	}
	return 0
}
