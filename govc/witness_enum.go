package main

// Witness search, part 3: which inputs are tried. Symbols are byte strings (so that invalid UTF-8 and the
// maximum code point can be symbols). For a start rule the alphabet is read off the part of the grammar the
// rule reaches; inputs are (a) sentences derived from the grammar and their one-edit mutations and (b) all
// strings over the alphabet up to a length bound, shortest first.

import (
	"sort"
	"strings"
)

// reachableRules: the rules reachable from `start` (including it), in breadth-first order.
func reachableRules(ps *PegSpec, start string) []string {
	seen := map[string]bool{start: true}
	order := []string{start}
	for i := 0; i < len(order); i++ {
		r := ps.ByName[order[i]]
		if r == nil {
			continue
		}
		var walk func(n *PNode)
		walk = func(n *PNode) {
			if n.TypeName == "Name" && !seen[n.Str] && ps.ByName[n.Str] != nil {
				seen[n.Str] = true
				order = append(order, n.Str)
			}
			if n.TypeName == "Range" {
				return
			}
			for _, c := range n.Kids {
				walk(c)
			}
		}
		walk(r.Body)
	}
	return order
}

// referrers: the rules that (transitively) reference one of `targets`, nearest first.
func referrers(ps *PegSpec, targets []string) []string {
	refs := map[string][]string{} // rule -> rules whose body mentions it
	for _, r := range ps.Rules {
		seen := map[string]bool{}
		var walk func(n *PNode)
		walk = func(n *PNode) {
			if n.TypeName == "Name" && !seen[n.Str] {
				seen[n.Str] = true
				refs[n.Str] = append(refs[n.Str], r.Name)
			}
			if n.TypeName == "Range" {
				return
			}
			for _, c := range n.Kids {
				walk(c)
			}
		}
		walk(r.Body)
	}
	seen := map[string]bool{}
	for _, t := range targets {
		seen[t] = true
	}
	queue := append([]string{}, targets...)
	var out []string
	for i := 0; i < len(queue); i++ {
		for _, q := range refs[queue[i]] {
			if !seen[q] {
				seen[q] = true
				out = append(out, q)
				queue = append(queue, q)
			}
		}
	}
	return out
}

// wellFormed: the domain of C01 (no left recursion; repetitions of nullable bodies are detected at run time by
// the interpreter). Rules outside it are not used as start rules.
func wellFormed(ps *PegSpec, start string) bool {
	for _, r := range reachableRules(ps, start) {
		if ps.LeftRec[r] {
			return false
		}
	}
	return true
}

// alphabetFor: the characters mentioned in the literals and classes reachable from the start rule (the front end
// has already expanded case-insensitive literals into both cases), the neighbours of range bounds, one character
// outside all of them, one multi-byte rune; with `hostile`, also NUL, an invalid UTF-8 byte and the maximum code
// point (the inputs C13 names).
func alphabetFor(ps *PegSpec, start string, hostile bool) []string {
	in := map[rune]bool{}   // characters the grammar mentions
	near := map[rune]bool{} // neighbours of range bounds
	var ranges [][2]rune
	for _, rn := range reachableRules(ps, start) {
		var walk func(n *PNode)
		walk = func(n *PNode) {
			switch n.TypeName {
			case "Character":
				for _, c := range n.Str {
					in[c] = true
				}
			case "Range":
				lo, hi := []rune(n.Kids[0].Str), []rune(n.Kids[1].Str)
				if len(lo) == 1 && len(hi) == 1 {
					in[lo[0]], in[hi[0]] = true, true
					ranges = append(ranges, [2]rune{lo[0], hi[0]})
					if lo[0] > 0 {
						near[lo[0]-1] = true
					}
					if hi[0] < 0x10FFFF {
						near[hi[0]+1] = true
					}
					if hi[0]-lo[0] >= 2 {
						in[lo[0]+(hi[0]-lo[0])/2] = true
					}
				}
				return
			}
			for _, c := range n.Kids {
				walk(c)
			}
		}
		if r := ps.ByName[rn]; r != nil {
			walk(r.Body)
		}
	}
	mentioned := func(c rune) bool {
		if in[c] {
			return true
		}
		for _, r := range ranges {
			if r[0] <= c && c <= r[1] {
				return true
			}
		}
		return false
	}
	var out []string
	add := func(c rune) {
		s := string(c)
		for _, o := range out {
			if o == s {
				return
			}
		}
		out = append(out, s)
	}
	var cs []rune
	for c := range in {
		cs = append(cs, c)
	}
	sort.Slice(cs, func(i, j int) bool { return cs[i] < cs[j] })
	for _, c := range cs {
		add(c)
	}
	cs = cs[:0]
	for c := range near {
		if c >= 0xD800 && c <= 0xDFFF {
			continue // not a rune a Go string can hold
		}
		cs = append(cs, c)
	}
	sort.Slice(cs, func(i, j int) bool { return cs[i] < cs[j] })
	for _, c := range cs {
		add(c)
	}
	for _, c := range "~#%_0zZ" { // one character outside everything the grammar mentions
		if !mentioned(c) && !near[c] {
			add(c)
			break
		}
	}
	for _, c := range "é世→" { // one multi-byte rune (preferably one the grammar does not mention)
		if !mentioned(c) {
			add(c)
			break
		}
	}
	if hostile {
		add(0x10FFFF)
		add(0)
		add('\n')
		out = append(out, "\xff")
	}
	return out
}

// sentences: strings derived from the grammar by expanding alternatives (lookaheads and predicates are ignored, so
// not every sentence matches; the reference decides). At most `cap` strings per node, short ones preferred.
type sentenceGen struct {
	ps    *PegSpec
	cap   int
	memo  map[string][]string
	depth map[string]int
	any   []string // what `.` expands to
}

func newSentenceGen(ps *PegSpec, alphabet []string) *sentenceGen {
	g := &sentenceGen{ps: ps, cap: 6, memo: map[string][]string{}, depth: map[string]int{}}
	// `.`: the outside character and the multi-byte rune are the last plain symbols of the alphabet
	for i := len(alphabet) - 1; i >= 0 && len(g.any) < 2; i-- {
		if alphabet[i] != "\xff" && alphabet[i] != "\x00" && alphabet[i] != "\n" && alphabet[i] != string(rune(0x10FFFF)) {
			g.any = append(g.any, alphabet[i])
		}
	}
	if len(g.any) == 0 {
		g.any = []string{"~"}
	}
	return g
}

func (g *sentenceGen) trim(xs []string) []string {
	seen := map[string]bool{}
	var out []string
	for _, x := range xs {
		if !seen[x] {
			seen[x] = true
			out = append(out, x)
		}
	}
	sort.SliceStable(out, func(i, j int) bool { return len(out[i]) < len(out[j]) })
	if len(out) > g.cap {
		// keep the shortest and a spread of the rest, so that later alternatives are represented
		keep := append([]string{}, out[:g.cap/2]...)
		step := (len(out) - g.cap/2) / (g.cap - g.cap/2)
		if step < 1 {
			step = 1
		}
		for i := g.cap / 2; i < len(out) && len(keep) < g.cap; i += step {
			keep = append(keep, out[i])
		}
		out = keep
	}
	return out
}

func (g *sentenceGen) rule(name string) []string {
	if v, ok := g.memo[name]; ok {
		return v
	}
	r := g.ps.ByName[name]
	if r == nil || g.depth[name] >= 2 {
		return nil // recursion: this branch contributes nothing at this depth
	}
	g.depth[name]++
	v := g.gen(r.Body)
	g.depth[name]--
	if g.depth[name] == 0 {
		g.memo[name] = v
	}
	return v
}

func (g *sentenceGen) gen(n *PNode) []string {
	switch n.TypeName {
	case "Character":
		return []string{n.Str}
	case "Range":
		lo, hi := n.Kids[0].Str, n.Kids[1].Str
		if lo == hi {
			return []string{lo}
		}
		return []string{lo, hi}
	case "Dot":
		return g.any
	case "Name":
		return g.rule(n.Str)
	case "Sequence":
		acc := []string{""}
		for _, c := range n.Kids {
			part := g.gen(c)
			if len(part) == 0 {
				return nil
			}
			var nxt []string
			for _, a := range acc {
				for _, b := range part {
					nxt = append(nxt, a+b)
				}
			}
			acc = g.trim(nxt)
		}
		return acc
	case "Alternate":
		var out []string
		for _, c := range n.Kids {
			part := g.gen(c)
			if len(part) > 2 {
				part = part[:2]
			}
			out = append(out, part...)
		}
		return g.trim(out)
	case "Query":
		return g.trim(append([]string{""}, g.gen(n.Kids[0])...))
	case "Star", "Plus":
		body := g.gen(n.Kids[0])
		var out []string
		if n.TypeName == "Star" {
			out = append(out, "")
		}
		out = append(out, body...)
		for i, b := range body {
			if i < 2 {
				out = append(out, b+b, b+body[len(body)-1])
			}
		}
		return g.trim(out)
	case "Push":
		return g.gen(n.Kids[0])
	}
	return []string{""} // lookaheads, actions, predicates, state changes, the empty alternative
}

// splitSymbols cuts a string into symbols (runes; a bad byte is a symbol of its own).
func splitSymbols(s string) []string {
	var out []string
	for len(s) > 0 {
		n := 1
		for n < len(s) && n < 4 && !isRuneStart(s[n]) {
			n++
		}
		out = append(out, s[:n])
		s = s[n:]
	}
	return out
}

func isRuneStart(b byte) bool { return b&0xC0 != 0x80 }

// mutations: the one-edit neighbours of s over the alphabet (delete, replace, insert), and s followed by each symbol.
func mutations(s string, alphabet []string) []string {
	sy := splitSymbols(s)
	var out []string
	join := func(a []string, mid string, b []string) string {
		return strings.Join(a, "") + mid + strings.Join(b, "")
	}
	for i := range sy {
		out = append(out, join(sy[:i], "", sy[i+1:]))
		for _, a := range alphabet {
			if a != sy[i] {
				out = append(out, join(sy[:i], a, sy[i+1:]))
			}
		}
	}
	for i := 0; i <= len(sy); i++ {
		for _, a := range alphabet {
			out = append(out, join(sy[:i], a, sy[i:]))
		}
	}
	return out
}

// inputStream yields the inputs for one start rule: derived sentences, their mutations, then all strings over the
// alphabet by increasing length. next returns "", false when the stream is exhausted.
type inputStream struct {
	alphabet []string
	queue    []string // sentences and mutations not yet handed out
	seen     map[string]bool
	length   int   // current length of the exhaustive enumeration
	idx      []int // odometer over the alphabet
	maxLen   int
	done     bool
}

func newInputStream(ps *PegSpec, start string, hostile bool, maxLen int) *inputStream {
	al := alphabetFor(ps, start, hostile)
	st := &inputStream{alphabet: al, seen: map[string]bool{}, maxLen: maxLen}
	g := newSentenceGen(ps, al)
	sents := g.rule(start)
	st.queue = append(st.queue, sents...)
	for _, s := range sents {
		if len(splitSymbols(s)) <= 12 {
			st.queue = append(st.queue, mutations(s, al)...)
		}
	}
	return st
}

func (st *inputStream) next() (string, bool) {
	for len(st.queue) > 0 {
		s := st.queue[0]
		st.queue = st.queue[1:]
		if !st.seen[s] {
			st.seen[s] = true
			return s, true
		}
	}
	for !st.done {
		if st.idx == nil {
			st.idx = make([]int, st.length)
		}
		var sb strings.Builder
		for _, i := range st.idx {
			sb.WriteString(st.alphabet[i])
		}
		// advance the odometer
		k := len(st.idx) - 1
		for k >= 0 {
			st.idx[k]++
			if st.idx[k] < len(st.alphabet) {
				break
			}
			st.idx[k] = 0
			k--
		}
		if k < 0 {
			st.length++
			st.idx = nil
			if st.length > st.maxLen || len(st.alphabet) == 0 {
				st.done = true
			}
		}
		s := sb.String()
		if !st.seen[s] {
			if len(st.seen) < 200000 {
				st.seen[s] = true
			}
			return s, true
		}
	}
	return "", false
}
