package main

// Translation validation of generated parsers: build peg from /repo's working tree, generate a
// parser for a grammar under an option set, load the generated file, and prove every emitted rule
// closure against the contract derived from the grammar by pegspec.

import (
	"fmt"
	"go/ast"
	"go/constant"
	"go/parser"
	"go/types"
	"os"
	"os/exec"
	"path/filepath"
	"regexp"
	"sort"
	"strings"
	"sync"
)

type Tools struct {
	Dir      string
	Peg      string
	TreeDump string
	err      error
}

var toolsOnce sync.Once
var tools Tools

func goEnv() []string {
	env := os.Environ()
	env = append(env, "GOFLAGS=-mod=mod", "GOPROXY=off", "GOSUMDB=off", "GOTOOLCHAIN=local", "CGO_ENABLED=0")
	return env
}

func runCmd(dir string, name string, args ...string) (string, error) {
	cmd := exec.Command(name, args...)
	cmd.Dir = dir
	cmd.Env = goEnv()
	out, err := cmd.CombinedOutput()
	return string(out), err
}

// buildTools builds peg and treedump from the current working tree of /repo into the scratch dir.
func buildTools() (*Tools, error) {
	toolsOnce.Do(func() {
		tools.Dir = filepath.Join(scratchDir, "tools")
		_ = os.MkdirAll(tools.Dir, 0o755)
		tools.Peg = filepath.Join(tools.Dir, "peg")
		if out, err := runCmd(repoDir, "go", "build", "-o", tools.Peg, "."); err != nil {
			tools.err = fmt.Errorf("go build peg: %v\n%s", err, out)
			return
		}
		td := filepath.Join(tools.Dir, "td")
		_ = os.MkdirAll(td, 0o755)
		src, err := os.ReadFile(filepath.Join(verifDir, "treedump", "main.go.txt"))
		if err != nil {
			tools.err = err
			return
		}
		_ = os.WriteFile(filepath.Join(td, "main.go"), src, 0o644)
		pp, err := os.ReadFile(filepath.Join(repoDir, "peg.peg.go"))
		if err != nil {
			tools.err = err
			return
		}
		_ = os.WriteFile(filepath.Join(td, "peg.peg.go"), pp, 0o644)
		_ = os.WriteFile(filepath.Join(td, "go.mod"), []byte("module treedump\n\ngo 1.26\n\nrequire github.com/pointlander/peg v0.0.0\n\nreplace github.com/pointlander/peg => "+repoDir+"\n"), 0o644)
		tools.TreeDump = filepath.Join(tools.Dir, "treedump")
		if out, err := runCmd(td, "go", "build", "-o", tools.TreeDump, "."); err != nil {
			tools.err = fmt.Errorf("go build treedump: %v\n%s", err, out)
		}
	})
	if tools.err != nil {
		return nil, tools.err
	}
	return &tools, nil
}

type GenProgram struct {
	Name    string
	Grammar string // path of the .peg file
	Opts    []string
	Dir     string
	Unit    *Unit
	Spec    *PegSpec
	Consts  map[string]int
	Ast     bool
	Inline  bool
	Switch  bool
	MemoCollision []string
	lemmasDone  bool
	LemmaFailed []string
}

// Generate runs peg on the grammar and loads the generated file as a unit.
func Generate(name, grammar string, opts []string) (*GenProgram, error) {
	t, err := buildTools()
	if err != nil {
		return nil, err
	}
	gp := &GenProgram{Name: name, Grammar: grammar, Opts: opts, Ast: true}
	for _, o := range opts {
		switch o {
		case "-noast":
			gp.Ast = false
		case "-inline":
			gp.Inline = true
		case "-switch":
			gp.Switch = true
		}
	}
	gp.Dir = filepath.Join(scratchDir, "gen", safeName(name))
	_ = os.RemoveAll(gp.Dir)
	_ = os.MkdirAll(gp.Dir, 0o755)
	args := append(append([]string{}, opts...), "-output", filepath.Join(gp.Dir, "g.go"), grammar)
	if out, err := runCmd(gp.Dir, t.Peg, args...); err != nil {
		return nil, fmt.Errorf("peg %s: %v\n%s", strings.Join(args, " "), err, out)
	}
	_ = os.WriteFile(filepath.Join(gp.Dir, "go.mod"), []byte("module m\n\ngo 1.26\n\nrequire github.com/pointlander/peg v0.0.0\n\nreplace github.com/pointlander/peg => "+repoDir+"\n"), 0o644)
	// hand-written companions of a shipped grammar (types used by its actions)
	if ents, err := os.ReadDir(filepath.Dir(grammar)); err == nil && strings.HasPrefix(grammar, filepath.Join(repoDir, "grammars")+"/") {
		for _, e := range ents {
			nm := e.Name()
			if strings.HasSuffix(nm, ".go") && !strings.HasSuffix(nm, "_test.go") && !strings.HasSuffix(nm, ".peg.go") {
				if data, err := os.ReadFile(filepath.Join(filepath.Dir(grammar), nm)); err == nil {
					_ = os.WriteFile(filepath.Join(gp.Dir, nm), data, 0o644)
				}
			}
		}
	}
	dump := filepath.Join(gp.Dir, "tree.json")
	out, err := runCmd(gp.Dir, t.TreeDump, grammar)
	if err != nil {
		return nil, fmt.Errorf("treedump: %v\n%s", err, out)
	}
	_ = os.WriteFile(dump, []byte(out), 0o644)
	gp.Spec, err = LoadPegSpec(dump)
	if err != nil {
		return nil, err
	}
	u, err := LoadUnit(name, gp.Dir, []string{"."}, "")
	if err != nil {
		return nil, err
	}
	gp.Unit = u
	cfile := "contracts_tmpl_verif.go"
	if !gp.Ast {
		cfile = "contracts_tmpl_noast_verif.go"
	}
	if err := u.CS.ParseFile(filepath.Join(repoDir, "tree", cfile)); err != nil {
		return nil, err
	}
	// "$T" stands for the parser struct of the grammar (keys and modifies clauses)
	for _, key := range sortedKeys(u.CS.Funcs) {
		if strings.HasPrefix(key, "$T.") {
			fc := u.CS.Funcs[key]
			delete(u.CS.Funcs, key)
			fc.Key = gp.structName() + key[2:]
			u.CS.Funcs[fc.Key] = fc
		}
	}
	// "$T" in modifies clauses stands for the parser struct of the grammar
	for _, fc := range u.CS.Funcs {
		for _, m := range fc.Modifies {
			for i, f := range m.Fields {
				if strings.HasPrefix(f, "$T.") {
					m.Fields[i] = gp.structName() + f[2:]
				}
			}
		}
	}
	// rule constants of the generated file
	gp.Consts = map[string]int{}
	sc := u.Pkg.Types.Scope()
	for _, nm := range sc.Names() {
		c, ok := sc.Lookup(nm).(*types.Const)
		if !ok || !strings.HasPrefix(nm, "rule") || nm == "ruleUnknown" {
			continue
		}
		if v, ok := constant.Int64Val(c.Val()); ok {
			gp.Consts[strings.TrimPrefix(nm, "rule")] = int(v)
		}
	}
	for _, r := range gp.Spec.Rules {
		r.Const = gp.Consts[r.Name]
	}
	gp.setupSpec()
	// the witness search (witness_search.go) needs the grammar text after the scratch directory is gone
	rememberProgram(name, grammar, opts, gp.Consts)
	return gp, nil
}

func (gp *GenProgram) setupSpec() {
	u := gp.Unit
	// make sure the token datatype exists before the prelude mentions it
	if obj, ok := u.Pkg.Types.Scope().Lookup("token").(*types.TypeName); ok {
		u.sortOf(obj.Type())
	}
	u.Prelude = append(u.Prelude, gp.Spec.Prelude(gp.Consts, gp.Ast), "(define-fun runeAtC ((i Int)) Int (select bufc i))", gp.memoIDTable())
	u.SpecConsts = map[string]Sort{"bufc": arr(SInt, SInt), "n": SInt, "maxU": SInt, "seq_empty": "TSeq"}
	u.MaxUConst = true
	decl := func(name, result string) {
		u.CS.SpecFuncs[name] = &SpecFunc{Name: name, Result: result, Declared: true}
	}
	decl("OK", "bool")
	decl("END", "int")
	decl("APP", "TSeq")
	decl("MX", "DT_token")
	decl("AS", "bool")
	decl("upd", "DT_token")
	decl("snoc", "TSeq")
	decl("tabs", "TSeq")
	decl("runeAtC", "int")
	decl("RULEOF", "int")
	decl("seg2", "TSeg")
	decl("cat", "TSeq")
	decl("TOKS", "TSeg")
	decl("TXT", "Str")
	decl("LOG", "TLog")
	decl("snocL", "TLog")
	u.ExtraCells["alog"] = "TLog"
	if !gp.Ast {
		// `text` is declared by the template only when a capture is reachable; otherwise it is a ghost
		hasText := false
		if fi := u.Funcs[gp.structName()+".Init"]; fi != nil {
			ast.Inspect(fi.Body, func(n ast.Node) bool {
				if vs, ok := n.(*ast.ValueSpec); ok {
					for _, nm := range vs.Names {
						if nm.Name == "text" {
							hasText = true
						}
					}
				}
				return true
			})
		}
		if !hasText {
			u.ExtraCells["text"] = SStr
		}
	}
	for i := range gp.Spec.Preds {
		decl(fmt.Sprintf("P_%d", i), "bool")
	}
	var walk func(n *PNode)
	walk = func(n *PNode) {
		decl(fmt.Sprintf("ok_%d", n.k), "bool")
		decl(fmt.Sprintf("end_%d", n.k), "int")
		decl(fmt.Sprintf("app_%d", n.k), "TSeq")
		decl(fmt.Sprintf("mx_%d", n.k), "DT_token")
		decl(fmt.Sprintf("txt_%d", n.k), "Str")
		decl(fmt.Sprintf("log_%d", n.k), "TLog")
		if n.TypeName == "Star" || n.TypeName == "Plus" {
			decl(fmt.Sprintf("E_%d", n.k), "int")
			decl(fmt.Sprintf("A_%d", n.k), "TSeq")
			decl(fmt.Sprintf("M_%d", n.k), "DT_token")
			decl(fmt.Sprintf("trig_%d", n.k), "bool")
			decl(fmt.Sprintf("X_%d", n.k), "Str")
			decl(fmt.Sprintf("G_%d", n.k), "TLog")
		}
		if n.TypeName == "Range" {
			return
		}
		for _, c := range n.Kids {
			walk(c)
		}
	}
	for _, r := range gp.Spec.Rules {
		walk(r.Body)
	}
	// user state: fields of the parser struct assigned by state-change code (and by inline actions
	// when there is no AST) may change across any rule call
	if fi := u.Funcs[gp.structName()+".Init"]; fi != nil {
		re := regexp.MustCompile(`p\.(\w+)\s*(\+\+|--|\+=|-=|\*=|=[^=])`)
		written := map[string]bool{}
		var scan func(n *PNode)
		scan = func(n *PNode) {
			if n.TypeName == "StateChange" || (n.TypeName == "Action" && !gp.Ast) {
				for _, m := range re.FindAllStringSubmatch(n.Str, -1) {
					written[m[1]] = true
				}
			}
			for _, c := range n.Kids {
				scan(c)
			}
		}
		for _, r := range gp.Spec.Rules {
			scan(r.Body)
		}
		if gen := u.CS.Funcs["Init.$rule"]; gen != nil && len(written) > 0 {
			m := &ModClause{Text: "user state written by state-change code"}
			for _, f := range sortedKeys(written) {
				m.Fields = append(m.Fields, gp.structName()+"."+f)
			}
			gen.Modifies = append(gen.Modifies, m)
			if mr := u.CS.Funcs["Init.memoizedResult"]; mr != nil {
				mr.Modifies = append(mr.Modifies, m)
			}
			if pf := u.CS.Funcs["Init.parse"]; pf != nil { // parse calls a rule
				pf.Modifies = append(pf.Modifies, m)
			}
		}
	}
	if gp.Switch {
		// C02 promises verdict, prefix and tokens under -switch, not the furthest-failure register:
		// an unordered choice legitimately skips attempts that the ordered one makes
		for _, key := range []string{"Init.$rule", "Init.memoizedResult"} {
			if fc := u.CS.Funcs[key]; fc != nil {
				var keep []*Clause
				for _, e := range fc.Ensures {
					if strings.Contains(e.Tag, "C11") || strings.Contains(e.Text, "TXT(") || strings.Contains(e.Text, "LOG(") {
						continue // (no AST) text and the action log of attempts that an unordered choice skips are not promised either
					}
					keep = append(keep, e)
				}
				fc.Ensures = keep
			}
		}
		// the register clause of the memo invariant is dropped with it: the memoised replay of a -switch
		// parser is only required to reproduce verdict, position and tokens
		if fc := u.CS.Funcs["Init.memoize"]; fc != nil {
			var keep []*Clause
			for _, rq := range fc.Requires {
				if strings.Contains(rq.Text, "MX(") {
					continue
				}
				keep = append(keep, rq)
			}
			fc.Requires = keep
		}
	}
	if ex := u.CS.Funcs[gp.structName()+".Execute"]; ex != nil && gp.Ast {
		re := regexp.MustCompile(`p\.(\w+)\s*(\+\+|--|\+=|-=|\*=|=[^=])`)
		written := map[string]bool{}
		seenTxt := map[string]bool{}
		for _, a := range gp.Spec.Actions {
			for _, m := range re.FindAllStringSubmatch(a.Str, -1) {
				written[m[1]] = true
			}
			if first, err := firstStmtText(a.Str); err == nil && !seenTxt[first] {
				seenTxt[first] = true
				ex.Ghosts = append(ex.Ghosts, gp.logGhost(a.ID, "", first))
			} else {
				u.Refused[gp.structName()+".Execute"] = "action bodies are empty or not distinguishable by their first statement: the ghost log hook cannot be attached"
			}
		}
		if len(written) > 0 {
			m := &ModClause{Text: "user state written by actions"}
			for _, f := range sortedKeys(written) {
				m.Fields = append(m.Fields, gp.structName()+"."+f)
			}
			ex.Modifies = append(ex.Modifies, m)
		}
	}
	u.OpaqueExternals = true
	u.SkipSMT = true
	u.OpaquePreds = map[string]bool{"MemoInv": true}
	u.Provider = gp.provider
	u.NoSplit = map[string]bool{"RT": true, "inputOK": true}
}

func (gp *GenProgram) structName() string {
	for k := range gp.Unit.Funcs {
		if strings.HasSuffix(k, ".Init") {
			return strings.TrimSuffix(k, ".Init")
		}
	}
	return ""
}

// memoKeyOf: the rule id literal used by a closure for its memo table lookups (nil if none).
func memoKeyOf(u *Unit, body *ast.BlockStmt) *ast.BasicLit {
	var lit *ast.BasicLit
	ast.Inspect(body, func(n ast.Node) bool {
		if lit != nil {
			return false
		}
		if cl, ok := n.(*ast.CompositeLit); ok && len(cl.Elts) == 2 {
			if t := u.Info.TypeOf(cl); t != nil && typeName(t) == "memoKey" {
				if bl, ok := cl.Elts[0].(*ast.BasicLit); ok {
					lit = bl
				}
			}
		}
		return true
	})
	return lit
}

// memoIDTable defines RULEOF: memo key id -> rule constant, read off the generated closures. Two
// closures using the same id would share memo entries: that is reported as a failed unit obligation.
func (gp *GenProgram) memoIDTable() string {
	u := gp.Unit
	body := "0"
	seen := map[string]int{}
	for _, key := range sortedKeys(u.Funcs) {
		var c int
		if _, err := fmt.Sscanf(key, "Init.$rules%d", &c); err != nil {
			continue
		}
		if lit := memoKeyOf(u, u.Funcs[key].Body); lit != nil {
			if prev, dup := seen[lit.Value]; dup && prev != c {
				gp.MemoCollision = append(gp.MemoCollision, fmt.Sprintf("memo id %s is used by rules %d and %d", lit.Value, prev, c))
			}
			seen[lit.Value] = c
			body = fmt.Sprintf("(ite (= id %s) %d %s)", lit.Value, c, body)
		}
	}
	return "(define-fun RULEOF ((id Int)) Int " + body + ")"
}

// provider resolves calls of rule closures: _rules[ruleX]() and p.rules[r]().
func (gp *GenProgram) provider(fv *FV, call *ast.CallExpr, cx *Cx) *CalleeSpec {
	ix, ok := unparen(call.Fun).(*ast.IndexExpr)
	if !ok {
		// memoizedResult gets the ghost argument r = the rule being verified
		if id, ok := unparen(call.Fun).(*ast.Ident); ok && id.Name == "memoizedResult" {
			if r, ok := fv.lets["r"]; ok {
				fi := fv.u.Funcs["Init.memoizedResult"]
				if fi != nil {
					cs := fv.specForFunc(fi)
					cs.ExtraEnv = map[string]TV{"r": r}
					if lit := memoKeyOf(fv.u, fv.fn.Body); lit != nil {
						cs.ExtraEnv["kid"] = TV{T: lit.Value, Ty: tInt, S: SInt}
					}
					return cs
				}
			}
		}
		return nil
	}
	isRules := false
	switch b := unparen(ix.X).(type) {
	case *ast.Ident:
		isRules = b.Name == "_rules"
	case *ast.SelectorExpr:
		isRules = b.Sel.Name == "rules"
	}
	if !isRules {
		return nil
	}
	fc := fv.u.CS.Funcs["Init.$rule"]
	if fc == nil {
		panic(refuse("no generic rule contract"))
	}
	idx := fv.expr(ix.Index, cx.with(func(c *Cx) { c.noOb = true }))
	pos := fv.fn.Body.Lbrace + 1
	return &CalleeSpec{Key: "Init.$rule", FC: fc, ScopePos: pos, Results: []types.Type{types.Typ[types.Bool]}, ExtraEnv: map[string]TV{"r": {T: idx.T, Ty: tInt, S: SInt}}}
}

// lemmaAxioms: proved progress/first-set lemmas, used by the proofs of -switch parsers only.
func (gp *GenProgram) lemmaAxioms(pr *PRule) string {
	if !gp.Switch {
		return ""
	}
	if !gp.lemmasDone {
		gp.lemmasDone = true
		gp.LemmaFailed = gp.Spec.ProveLemmas(gp.Unit.preludeText())
		if os.Getenv("GOVC_DEBUG") != "" {
			fmt.Println("lemmas not proved:", gp.LemmaFailed)
		}
	}
	return gp.Spec.LemmaAxioms("", 0) + gp.Spec.starAxioms(pr, 0)
}

// closureContract builds the contract of the closure of rule r: the generic rule contract plus the
// defining equations of r at the entry state and the loop invariants of its repetitions.
func (gp *GenProgram) closureContract(r *PRule, inlined func(string) *PRule) (*FuncContract, error) {
	gen := gp.Unit.CS.Funcs["Init.$rule"]
	if gen == nil {
		return nil, fmt.Errorf("no generic rule contract Init.$rule")
	}
	fc := &FuncContract{Key: fmt.Sprintf("Init.$rules%d", r.Const), Requires: append([]*Clause{}, gen.Requires...), Ensures: gen.Ensures, Modifies: gen.Modifies,
		LoopInv: map[int][]*Clause{}, LoopDec: map[int]*Clause{}}
	k := r.Body.k
	tok := fmt.Sprintf("mk(token, r, position, end_%d(position))", k)
	rows := []string{
		fmt.Sprintf("OK(r, position) == ok_%d(position) && END(r, position) == end_%d(position)", k, k),
	}
	if !gp.Ast {
		rows = append(rows,
			fmt.Sprintf("TXT(r, position, text) == txt_%d(position, text)", k),
			fmt.Sprintf("LOG(r, position, alog, text) == log_%d(position, alog, text)", k))
	}
	if gp.Ast {
		rows = append(rows,
			fmt.Sprintf("APP(r, position, live()) == snoc(app_%d(position, live()), %s)", k, tok),
			fmt.Sprintf("MX(r, position, maxToken) == ite(ok_%d(position), upd(mx_%d(position, maxToken), %s), mx_%d(position, maxToken))", k, k, tok, k))
	}
	for i, txt := range rows {
		e, err := parseExpr(txt)
		if err != nil {
			return nil, err
		}
		fc.Requires = append(fc.Requires, &Clause{Name: fmt.Sprintf("row[%d]", i), Text: txt, Expr: e})
	}
	// predicates: P_i(q) is the value of the grammar's Go expression (assumed pure)
	var preds []*PNode
	var collect func(n *PNode)
	collect = func(n *PNode) {
		if n.TypeName == "Predicate" {
			preds = append(preds, n)
		}
		if n.TypeName == "Name" {
			if ir := inlined(n.Str); ir != nil {
				collect(ir.Body)
			}
		}
		for _, c := range n.Kids {
			collect(c)
		}
	}
	collect(r.Body)
	for _, p := range preds {
		txt := fmt.Sprintf("forall(q, P_%d(q) == (%s))", p.ID, p.Str)
		e, err := parseExpr(txt)
		if err != nil {
			return nil, fmt.Errorf("predicate %q is outside the accepted subset: %v", p.Str, err)
		}
		fc.Requires = append(fc.Requires, &Clause{Name: fmt.Sprintf("pred[%d]", p.ID), Text: txt, Expr: e})
	}
	// inlined actions of a -noast parser: ghost log entry after the first statement of the action
	if !gp.Ast {
		seenTxt := map[string]bool{}
		var acts func(n *PNode, top bool) error
		acts = func(n *PNode, top bool) error {
			if n.TypeName == "Action" {
				if _, has := gp.Unit.Funcs[fmt.Sprintf("Init.$rules%d", gp.Consts[fmt.Sprintf("Action%d", n.ID)])]; !has {
					first, err := firstStmtText(n.Str)
					if err != nil {
						return err
					}
					if seenTxt[first] {
						return fmt.Errorf("two inlined actions begin with the same statement %q: ghost log hook would be ambiguous", first)
					}
					seenTxt[first] = true
					fc.Ghosts = append(fc.Ghosts, gp.logGhost(n.ID, "", first))
				}
			}
			if n.TypeName == "Name" {
				if ir := inlined(n.Str); ir != nil {
					if err := acts(ir.Body, false); err != nil {
						return err
					}
				}
			}
			for _, c := range n.Kids {
				if err := acts(c, false); err != nil {
					return err
				}
			}
			return nil
		}
		if err := acts(r.Body, true); err != nil {
			return nil, err
		}
	}
	// loop invariants
	var stars []*PNode
	gp.Spec.starsInEmissionOrder(r.Body, inlined, &stars)
	// which loop of the emitted closure is which repetition: by what the loop body does (loopmatch.go); the order of
	// the rule tree when that gives no answer
	var perm []int
	if fi := gp.Unit.Funcs[fc.Key]; fi != nil && fi.Body != nil {
		perm = gp.matchLoops(fi.Body, r.Name, stars, inlined, r.Body)
	}
	for i := range stars {
		s := stars[i]
		if perm != nil {
			s = stars[perm[i]]
		}
		fc.LoopInv[i] = gp.starInvariant(s, i)
	}
	return fc, nil
}

func (gp *GenProgram) logGhost(k int, at, after string) *GhostStmt {
	l, _ := parseExpr("alog")
	rh, _ := parseExpr(fmt.Sprintf("snocL(alog, %d, text)", k))
	return &GhostStmt{At: at, After: after, LHS: l, RHS: rh, Text: fmt.Sprintf("alog = snocL(alog, %d, text)", k)}
}

// firstStmtText: normalised text of the first statement of an action body.
func firstStmtText(action string) (string, error) {
	e, err := parser.ParseExpr("func(){\n" + action + "\n}")
	if err != nil {
		return "", fmt.Errorf("action %q does not parse: %v", action, err)
	}
	fl := e.(*ast.FuncLit)
	if len(fl.Body.List) == 0 {
		return "", fmt.Errorf("empty action: no statement to attach the ghost log entry to")
	}
	return exprString(nil, fl.Body.List[0]), nil
}

func (gp *GenProgram) starInvariant(s *PNode, ord int) []*Clause {
	k := s.k
	texts := [][2]string{
		{"RT()", "C13"},
		{fmt.Sprintf("trig_%d(position)", k), "C01"},
		{"entry(position) <= position && entry(tokenIndex) <= tokenIndex", "C01,C03"},
		{fmt.Sprintf("E_%d(position) == E_%d(entry(position))", k, k), "C01"},
	}
	if gp.Ast {
		texts = append(texts,
			[2]string{fmt.Sprintf("A_%d(position, live()) == A_%d(entry(position), entry(live()))", k, k), "C03"},
			[2]string{fmt.Sprintf("M_%d(position, maxToken) == M_%d(entry(position), entry(maxToken))", k, k), "C11"}, // dropped under -switch below
			[2]string{"forall(j, imp(j <= entry(tokenIndex), absAt(j) == entry(absAt(j))))", "C03"})
	}
	if !gp.Ast && !gp.Switch {
		texts = append(texts,
			[2]string{fmt.Sprintf("X_%d(position, text) == X_%d(entry(position), entry(text))", k, k), "C07"},
			[2]string{fmt.Sprintf("G_%d(position, alog, text) == G_%d(entry(position), entry(alog), entry(text))", k, k), "C07"})
	}
	var out []*Clause
	for i, tt := range texts {
		t := tt[0]
		if gp.Switch && tt[1] == "C11" {
			continue
		}
		e, err := parseExpr(t)
		if err != nil {
			panic(err)
		}
		out = append(out, &Clause{Name: fmt.Sprintf("inv[%d][%d]", ord, i), Text: t, Expr: e, Tag: tt[1]})
	}
	return out
}

// verifyClosures generates the obligations of every rule closure of the program.
func (gp *GenProgram) verifyClosures(r *Run, only map[string]bool) {
	u := gp.Unit
	byConst := map[int]*PRule{}
	for _, pr := range gp.Spec.Rules {
		byConst[pr.Const] = pr
	}
	var keys []string
	for k := range u.Funcs {
		if strings.HasPrefix(k, "Init.$rules") {
			keys = append(keys, k)
		}
	}
	sort.Slice(keys, func(i, j int) bool {
		var a, b int
		fmt.Sscanf(keys[i], "Init.$rules%d", &a)
		fmt.Sscanf(keys[j], "Init.$rules%d", &b)
		return a < b
	})
	inlinedSet := map[string]bool{}
	if gp.Inline {
		// a rule whose element in _rules is nil and which is referenced is inlined at its use
		for _, pr := range gp.Spec.Rules {
			if _, has := u.Funcs[fmt.Sprintf("Init.$rules%d", pr.Const)]; !has {
				inlinedSet[pr.Name] = true
			}
		}
	}
	inlined := func(name string) *PRule {
		if inlinedSet[name] {
			return gp.Spec.ByName[name]
		}
		return nil
	}
	for _, key := range keys {
		var c int
		fmt.Sscanf(key, "Init.$rules%d", &c)
		pr := byConst[c]
		fname := u.Name + "/" + key
		if pr != nil {
			fname += "(" + pr.Name + ")"
		}
		if pr == nil && only != nil {
			continue
		}
		if pr == nil {
			// closures of Action rules (and other synthesised rules) have no grammar rule: their row is in the prelude
			fc := u.CS.Funcs["Init.$rule"]
			cp := *fc
			cp.LoopInv = map[int][]*Clause{}
			if !gp.Ast {
				// the closure of rule ActionK runs the action: ghost log entry (K, current text)
				for nm, cc := range gp.Consts {
					var kk int
					if cc == c && strings.HasPrefix(nm, "Action") {
						if _, err := fmt.Sscanf(nm, "Action%d", &kk); err == nil {
							cp.Ghosts = append(cp.Ghosts, gp.logGhost(kk, "entry", ""))
						}
					}
				}
			}
			gp.runClosure(r, key, &cp, c, fname, "")
			continue
		}
		if only != nil && !only[pr.Name] {
			continue
		}
		fc, err := gp.closureContract(pr, inlined)
		if err != nil {
			r.Fns = append(r.Fns, FnReport{Key: fname, Reason: err.Error()})
			continue
		}
		extra := gp.Spec.ruleDefs[pr.Name]
		if gp.Inline {
			// rows of the rules inlined into this closure (each is referenced once: no recursion)
			seen := map[string]bool{}
			var add func(n *PNode)
			add = func(n *PNode) {
				if n.TypeName == "Name" {
					if ir := inlined(n.Str); ir != nil && !seen[n.Str] {
						seen[n.Str] = true
						add(ir.Body)
						extra = gp.Spec.ruleDefs[ir.Name] + extra + gp.Spec.RuleRow(ir)
					}
				}
				for _, ch := range n.Kids {
					add(ch)
				}
			}
			add(pr.Body)
		}
		gp.runClosure(r, key, fc, c, fname, extra+gp.lemmaAxioms(pr))
	}
	for _, le := range gp.Spec.LemmaErrors {
		// a malformed lemma query is an engine fault, never a silent "lemma not available"
		r.Obls = append(r.Obls, &Obligation{Name: u.Name + "#unit.lemmaquery", Kind: "unit", Unit: u.Name, Goal: "false", PC: "true",
			Detail: "solver error in a spec-level lemma query: " + le, Result: SolverResult{Verdict: VError, Output: le}})
		break
	}
	for _, mc := range gp.MemoCollision {
		r.Obls = append(r.Obls, &Obligation{Name: u.Name + "#unit.memoids", Kind: "unit", Unit: u.Name, Goal: "false", PC: "true", Props: "C06",
			Detail: mc, Result: SolverResult{Verdict: VUnknown, Output: mc}})
	}
	r.Programs++
	for a := range u.Assumptions {
		r.Assume[a] = true
	}
}

func (gp *GenProgram) runClosure(r *Run, key string, fc *FuncContract, c int, fname, extraPrelude string) {
	u := gp.Unit
	fi := u.Funcs[key]
	fv := NewFV(u, fi, fc)
	fv.lets["r"] = TV{T: num(int64(c)), Ty: tInt, S: SInt}
	fv.extraPrelude = extraPrelude
	if err := fv.Verify(); err != nil {
		r.Fns = append(r.Fns, FnReport{Key: fname, Reason: err.Error()})
		r.Obls = append(r.Obls, missingObligation(u, key, err.Error()))
		return
	}
	fv.vacuity()
	r.Fns = append(r.Fns, FnReport{Key: fname, Verified: true, NObl: len(fv.obls)})
	r.Obls = append(r.Obls, fv.obls...)
}
