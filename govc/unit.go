package main

// A Unit is one loaded Go package plus its contracts; it owns the type -> sort mapping.

import (
	"fmt"
	"go/ast"
	"go/printer"
	"go/token"
	"go/types"
	"io"
	"os"
	"sort"
	"strings"

	"golang.org/x/tools/go/packages"
)

func printerFprint(w io.Writer, fset *token.FileSet, n ast.Node) error {
	if fset == nil {
		fset = token.NewFileSet()
	}
	return printer.Fprint(w, fset, n)
}

const Stride = 4 // allocation stride: object r owns addresses r .. r+Stride-1 (sub-objects at r+k)

type Datatype struct {
	Name   string
	Fields []DTField
}
type DTField struct {
	Name string
	Sort Sort
	Ty   types.Type
}

type Unit struct {
	Name  string
	Pkg   *packages.Package
	Info  *types.Info
	Fset  *token.FileSet
	CS    *ContractSet
	Funcs map[string]*FuncInfo // by contract key

	heapStruct map[string]bool // named struct types that live in the heap (by origin type name)
	datatypes  map[string]*Datatype
	dtOrder    []string
	anonN      int
	anonNames  map[string]string

	Prelude     []string            // extra declarations (spec functions etc.)
	ExtraCells  map[string]Sort     // extra state cells known by name (for synthesised contracts)
	MaxUConst   bool                // the unit uses the symbolic bound maxU for the type parameter U
	Assumptions map[string]bool     // collected during translation
	Refused     map[string]string   // function key -> reason
	Provider    func(fv *FV, call *ast.CallExpr, cx *Cx) *CalleeSpec // synthesised contracts for special callees
	TrustedExt  map[string]*ExtSpec // assumed contracts of external functions
	mapKeySort  map[string]Sort
	SpecConsts  map[string]Sort // spec-level constants (declared by the unit's prelude)
	OpaquePreds map[string]bool // defpreds whose defining axiom is withheld in this unit
	NoSplit     map[string]bool // preds that are not split into per-conjunct obligations
	OpaqueExternals bool        // calls to functions outside the package without a contract are opaque user code
	SkipSMT     bool            // the raw SMT axioms of the contract file are withheld (closure units do not need the sequence theory)
	PanicIsExit bool            // an explicit panic ends the process (allowed) instead of being a safety violation
	defAxioms   string
	defAxiomsDone bool
	localTypes  map[string]*types.TypeName // struct types declared inside function bodies, by bare name (nil entry = ambiguous)
	OnNoReturn  func(fv *FV, cs *CalleeSpec, st *State)
	ListIters   map[string]*ListIter // "<type>.<method>" -> list iterator modelled by range-over-func (expr.go, ListIter)
}

type FuncInfo struct {
	Key     string
	Name    string
	Decl    *ast.FuncDecl
	Lit     *ast.FuncLit
	Sig     *types.Signature
	Body    *ast.BlockStmt
	Recv    *types.Var
	Outer   *FuncInfo // enclosing function for literals
	Pos     token.Pos
	RecvObj *types.Var
	SpecKey string // contract key used when no contract is keyed by Key: "<fn>.<param>" for a literal passed as that argument
}

func (f *FuncInfo) Type() *ast.FuncType {
	if f.Decl != nil {
		return f.Decl.Type
	}
	return f.Lit.Type
}

func LoadUnit(name, dir string, patterns []string, tags string) (*Unit, error) {
	cfg := &packages.Config{Mode: packages.LoadAllSyntax, Dir: dir, Env: os.Environ()}
	if tags != "" {
		cfg.BuildFlags = []string{"-tags=" + tags}
	}
	pkgs, err := packages.Load(cfg, patterns...)
	if err != nil {
		return nil, err
	}
	if len(pkgs) != 1 {
		return nil, fmt.Errorf("expected one package, got %d", len(pkgs))
	}
	p := pkgs[0]
	if len(p.Errors) > 0 {
		var sb strings.Builder
		for i, e := range p.Errors {
			if i > 5 {
				break
			}
			sb.WriteString(e.Error() + "; ")
		}
		return nil, fmt.Errorf("package does not type-check: %s", sb.String())
	}
	u := &Unit{Name: name, Pkg: p, Info: p.TypesInfo, Fset: p.Fset, CS: NewContractSet(), Funcs: map[string]*FuncInfo{},
		heapStruct: map[string]bool{}, datatypes: map[string]*Datatype{}, anonNames: map[string]string{},
		Assumptions: map[string]bool{}, Refused: map[string]string{}, ExtraCells: map[string]Sort{}, TrustedExt: map[string]*ExtSpec{}}
	u.CS.GhostVars = u.ExtraCells
	u.indexLocalTypes()
	u.classifyStructs()
	u.indexFuncs()
	return u, nil
}

// indexLocalTypes records the named types declared inside function bodies (`type element struct {...}` in tokens.AST), so
// that contracts can name them (binders `e * element`, cells `element.down`) like package-level types. A name declared
// more than once, or also at package level, is ambiguous and stays unresolvable.
func (u *Unit) indexLocalTypes() {
	u.localTypes = map[string]*types.TypeName{}
	for id, obj := range u.Info.Defs {
		tn, ok := obj.(*types.TypeName)
		if !ok || tn.Parent() == nil || tn.Parent() == u.Pkg.Types.Scope() {
			continue
		}
		if _, isTP := types.Unalias(tn.Type()).(*types.TypeParam); isTP {
			continue
		}
		if _, dup := u.localTypes[id.Name]; dup || u.Pkg.Types.Scope().Lookup(id.Name) != nil {
			u.localTypes[id.Name] = nil
			continue
		}
		u.localTypes[id.Name] = tn
	}
}

// typeByName: package-level type, or a type declared locally in one function body.
func (u *Unit) typeByName(name string) *types.TypeName {
	if obj, ok := u.Pkg.Types.Scope().Lookup(name).(*types.TypeName); ok {
		return obj
	}
	return u.localTypes[name]
}

// classifyStructs decides which named struct types are heap objects: those to which a pointer is
// stored or created other than as a method receiver.
func (u *Unit) classifyStructs() {
	mark := func(t types.Type) {
		if p, ok := t.(*types.Pointer); ok {
			if n, ok := p.Elem().(*types.Named); ok {
				if _, ok := n.Underlying().(*types.Struct); ok {
					u.heapStruct[n.Origin().Obj().Name()] = true
				}
			}
		}
	}
	for _, f := range u.Pkg.Syntax {
		ast.Inspect(f, func(n ast.Node) bool {
			switch n := n.(type) {
			case *ast.FuncDecl:
				// skip the receiver, look at params/results/body
				if n.Type.Params != nil {
					for _, fl := range n.Type.Params.List {
						if tv, ok := u.Info.Types[fl.Type]; ok {
							mark(tv.Type)
						}
					}
				}
				if n.Type.Results != nil {
					for _, fl := range n.Type.Results.List {
						if tv, ok := u.Info.Types[fl.Type]; ok {
							mark(tv.Type)
						}
					}
				}
			case *ast.StructType:
				for _, fl := range n.Fields.List {
					if tv, ok := u.Info.Types[fl.Type]; ok {
						mark(tv.Type)
					}
				}
			case *ast.UnaryExpr:
				if n.Op == token.AND {
					if tv, ok := u.Info.Types[n]; ok {
						mark(tv.Type)
					}
				}
			case *ast.ValueSpec:
				if n.Type != nil {
					if tv, ok := u.Info.Types[n.Type]; ok {
						mark(tv.Type)
					}
				}
			case *ast.CallExpr:
				if id, ok := n.Fun.(*ast.Ident); ok && id.Name == "new" {
					if tv, ok := u.Info.Types[n]; ok {
						mark(tv.Type)
					}
				}
			}
			return true
		})
	}
}

func (u *Unit) isHeapStruct(t types.Type) bool {
	if n, ok := types.Unalias(t).(*types.Named); ok {
		if _, ok := n.Underlying().(*types.Struct); ok {
			return u.heapStruct[n.Origin().Obj().Name()]
		}
	}
	return false
}

func typeName(t types.Type) string {
	if n, ok := types.Unalias(t).(*types.Named); ok {
		return n.Origin().Obj().Name()
	}
	return ""
}

func (u *Unit) indexFuncs() {
	for _, f := range u.Pkg.Syntax {
		for _, d := range f.Decls {
			fd, ok := d.(*ast.FuncDecl)
			if !ok || fd.Body == nil {
				continue
			}
			obj := u.Info.Defs[fd.Name].(*types.Func)
			sig := obj.Type().(*types.Signature)
			key := fd.Name.Name
			if sig.Recv() != nil {
				rt := sig.Recv().Type()
				if p, ok := rt.(*types.Pointer); ok {
					rt = p.Elem()
				}
				key = typeName(rt) + "." + fd.Name.Name
			}
			fi := &FuncInfo{Key: key, Name: fd.Name.Name, Decl: fd, Sig: sig, Body: fd.Body, Recv: sig.Recv(), Pos: fd.Pos()}
			u.Funcs[key] = fi
			// function literals bound exactly once to a name: closure group of fi
			u.indexLits(fi)
		}
	}
}

func (u *Unit) indexLits(outer *FuncInfo) {
	ast.Inspect(outer.Body, func(n ast.Node) bool {
		if call, ok := n.(*ast.CallExpr); ok {
			// function literal passed as the k-th argument of a call: "<outer>.$arg<k>"; when the callee is a function of this
			// package, the literal has to satisfy the contract of that function-typed parameter, keyed "<callee>.<param>"
			for k, a := range call.Args {
				fl, ok := a.(*ast.FuncLit)
				if !ok {
					continue
				}
				key := fmt.Sprintf("%s.$arg%d", outer.Name, k)
				if _, dup := u.Funcs[key]; dup {
					u.Refused[key] = "more than one function literal passed as argument " + fmt.Sprint(k)
					continue
				}
				fi := &FuncInfo{Key: key, Name: fmt.Sprintf("$arg%d", k), Lit: fl, Sig: u.Info.Types[fl].Type.(*types.Signature), Body: fl.Body, Outer: outer, Pos: fl.Pos()}
				if id, ok := unparen(call.Fun).(*ast.Ident); ok {
					if fn, ok := u.Info.Uses[id].(*types.Func); ok && fn.Pkg() == u.Pkg.Types {
						if sig := fn.Type().(*types.Signature); k < sig.Params().Len() && !sig.Variadic() {
							fi.SpecKey = fn.Name() + "." + sig.Params().At(k).Name()
						}
					}
				}
				u.Funcs[key] = fi
			}
			return true
		}
		as, ok := n.(*ast.AssignStmt)
		if !ok || len(as.Lhs) != len(as.Rhs) {
			return true
		}
		for i, r := range as.Rhs {
			if cl, ok := r.(*ast.CompositeLit); ok {
				if id, ok := as.Lhs[i].(*ast.Ident); ok {
					for k, el := range cl.Elts {
						if fl, ok := el.(*ast.FuncLit); ok {
							key := fmt.Sprintf("%s.$%s%d", outer.Name, strings.TrimPrefix(id.Name, "_"), k)
							sig := u.Info.Types[fl].Type.(*types.Signature)
							u.Funcs[key] = &FuncInfo{Key: key, Name: fmt.Sprintf("$%s%d", strings.TrimPrefix(id.Name, "_"), k), Lit: fl, Sig: sig, Body: fl.Body, Outer: outer, Pos: fl.Pos()}
						}
					}
				}
				continue
			}
			lit, ok := r.(*ast.FuncLit)
			if !ok {
				continue
			}
			var nm string
			switch l := as.Lhs[i].(type) {
			case *ast.Ident:
				nm = l.Name
			case *ast.SelectorExpr:
				nm = l.Sel.Name
			default:
				continue
			}
			key := outer.Name + "." + nm
			sig := u.Info.Types[lit].Type.(*types.Signature)
			if _, dup := u.Funcs[key]; dup {
				u.Refused[key] = "closure name bound more than once"
				continue
			}
			u.Funcs[key] = &FuncInfo{Key: key, Name: nm, Lit: lit, Sig: sig, Body: lit.Body, Outer: outer, Pos: lit.Pos()}
		}
		return true
	})
}

// ---------------------------------------------------------------------------------------------
// sorts

func (u *Unit) sortOf(t types.Type) Sort {
	t = types.Unalias(t)
	switch t := t.(type) {
	case *types.Basic:
		switch {
		case t.Info()&types.IsBoolean != 0:
			return SBool
		case t.Info()&types.IsInteger != 0:
			return SInt
		case t.Info()&types.IsString != 0:
			return SStr
		case t.Kind() == types.UntypedNil, t.Kind() == types.UnsafePointer:
			return SInt
		}
		panic(refuse("type %v outside the accepted subset", t))
	case *types.Pointer, *types.Signature, *types.Interface, *types.Map, *types.Chan:
		return SInt
	case *types.TypeParam:
		return SInt
	case *types.Slice:
		return "Slice"
	case *types.Array:
		return arr(SInt, u.sortOf(t.Elem()))
	case *types.Named:
		if st, ok := t.Underlying().(*types.Struct); ok {
			if u.isHeapStruct(t) {
				return SInt // represented by its address
			}
			return u.datatypeFor(t.Origin().Obj().Name(), st)
		}
		return u.sortOf(t.Underlying())
	case *types.Struct:
		key := t.String()
		nm, ok := u.anonNames[key]
		if !ok {
			u.anonN++
			nm = fmt.Sprintf("anon%d", u.anonN)
			u.anonNames[key] = nm
		}
		return u.datatypeFor(nm, t)
	case *types.Tuple:
		panic(refuse("tuple-typed expression"))
	}
	panic(refuse("type %v outside the accepted subset", t))
}

func (u *Unit) datatypeFor(name string, st *types.Struct) Sort {
	s := Sort("DT_" + name)
	if _, ok := u.datatypes[name]; ok {
		return s
	}
	dt := &Datatype{Name: name}
	u.datatypes[name] = dt // placeholder against recursion
	for i := 0; i < st.NumFields(); i++ {
		f := st.Field(i)
		dt.Fields = append(dt.Fields, DTField{Name: f.Name(), Sort: u.sortOf(f.Type()), Ty: f.Type()})
	}
	u.dtOrder = append(u.dtOrder, name)
	return s
}

func (u *Unit) dtOf(s Sort) *Datatype {
	return u.datatypes[strings.TrimPrefix(string(s), "DT_")]
}

func (u *Unit) zero(t types.Type) string {
	return u.zeroSort(u.sortOf(t))
}

func (u *Unit) zeroSort(s Sort) string {
	switch s {
	case SInt:
		return "0"
	case SBool:
		return "false"
	case SStr:
		return "str_empty"
	case "Slice":
		return "(mk_Slice 0 0 0 0)"
	}
	if dt := u.dtOf(s); dt != nil && strings.HasPrefix(string(s), "DT_") {
		args := []string{}
		for _, f := range dt.Fields {
			args = append(args, u.zeroSort(f.Sort))
		}
		if len(args) == 0 {
			return "mk_" + dt.Name
		}
		return sx("mk_"+dt.Name, args...)
	}
	if strings.HasPrefix(string(s), "(Array ") {
		// (Array K V) -> constant array of zero V
		k, v := splitArraySort(s)
		_ = k
		return sx("(as const "+string(s)+")", u.zeroSort(v))
	}
	panic(refuse("no zero value for sort %s", s))
}

func splitArraySort(s Sort) (Sort, Sort) {
	inner := strings.TrimSuffix(strings.TrimPrefix(string(s), "(Array "), ")")
	// split at top-level space
	depth := 0
	for i, c := range inner {
		switch c {
		case '(':
			depth++
		case ')':
			depth--
		case ' ':
			if depth == 0 {
				return Sort(inner[:i]), Sort(inner[i+1:])
			}
		}
	}
	panic("bad array sort " + string(s))
}

// intRange returns the inclusive range of an integer type; ok=false for untyped / unbounded.
func (u *Unit) intRange(t types.Type) (lo, hi string, ok bool) {
	t = types.Unalias(t)
	if tp, isTP := t.(*types.TypeParam); isTP {
		_ = tp
		u.MaxUConst = true
		return "0", "maxU", true
	}
	b, isB := t.Underlying().(*types.Basic)
	if !isB || b.Info()&types.IsInteger == 0 {
		return "", "", false
	}
	switch b.Kind() {
	case types.Int8:
		return "(- 128)", "127", true
	case types.Int16:
		return "(- 32768)", "32767", true
	case types.Int32:
		return "(- 2147483648)", "2147483647", true
	case types.Int, types.Int64:
		return "(- 9223372036854775808)", "9223372036854775807", true
	case types.Uint8:
		return "0", "255", true
	case types.Uint16:
		return "0", "65535", true
	case types.Uint32:
		return "0", "4294967295", true
	case types.Uint, types.Uint64, types.Uintptr:
		return "0", "18446744073709551615", true
	}
	return "", "", false
}

func (u *Unit) rangeFact(t types.Type, term string) string {
	lo, hi, ok := u.intRange(t)
	if !ok {
		return "true"
	}
	return and(sx("<=", lo, term), sx("<=", term, hi))
}

// preludeText renders sorts, datatypes and the fixed theory used by every obligation of the unit.
func (u *Unit) preludeText() string {
	// resolve every sort named by a spec function first, so that its datatype is declared below
	for _, n := range sortedKeys(u.CS.SpecFuncs) {
		sf := u.CS.SpecFuncs[n]
		if sf.Declared {
			continue
		}
		for _, p := range sf.Params {
			u.paramSort(p)
		}
		for _, r := range sf.Reads {
			u.cellSortByName(r)
		}
	}
	var sb strings.Builder
	sb.WriteString("(declare-sort Str 0)\n(declare-const str_empty Str)\n")
	sb.WriteString("(declare-datatypes ((Slice 0)) (((mk_Slice (sl_base Int) (sl_off Int) (sl_len Int) (sl_cap Int)))))\n")
	// element index of a slice: off + i behind an uninterpreted symbol, so that quantified clauses over
	// s[j] get arithmetic-free patterns
	sb.WriteString("(declare-fun sidx (Int Int) Int)\n(assert (forall ((o Int) (i Int)) (! (= (sidx o i) (+ o i)) :pattern ((sidx o i)))))\n")
	for _, n := range u.dtOrder {
		dt := u.datatypes[n]
		var fs []string
		for _, f := range dt.Fields {
			fs = append(fs, fmt.Sprintf("(%s %s)", sym(dt.Name+"_"+f.Name), f.Sort))
		}
		if len(fs) == 0 {
			fmt.Fprintf(&sb, "(declare-datatypes ((DT_%s 0)) (((mk_%s))))\n", dt.Name, dt.Name)
		} else {
			fmt.Fprintf(&sb, "(declare-datatypes ((DT_%s 0)) (((mk_%s %s))))\n", dt.Name, dt.Name, strings.Join(fs, " "))
		}
	}
	sb.WriteString("(declare-fun str_len (Str) Int)\n(declare-fun str_rlen (Str) Int)\n(declare-fun str_runes (Str) (Array Int Int))\n")
	sb.WriteString("(declare-fun str_of_runes ((Array Int Int) Int Int) Str)\n(declare-fun str_cat (Str Str) Str)\n(declare-fun str_lit (Int) Str)\n(declare-fun str_of_rune (Int) Str)\n")
	// substring by byte offsets (s[lo:hi]): its length is hi-lo when the bounds are in range
	sb.WriteString("(declare-fun str_sub (Str Int Int) Str)\n")
	sb.WriteString("(assert (forall ((s Str) (a Int) (b Int)) (! (=> (and (<= 0 a) (<= a b) (<= b (str_len s))) (= (str_len (str_sub s a b)) (- b a))) :pattern ((str_sub s a b)))))\n")
	sb.WriteString("(assert (forall ((s Str)) (! (and (>= (str_rlen s) 0) (>= (str_len s) (str_rlen s))) :pattern ((str_rlen s)))))\n")
	// byte length: never negative, 0 for the empty string, additive under concatenation
	sb.WriteString("(assert (= (str_len str_empty) 0))\n(assert (= (str_rlen str_empty) 0))\n")
	sb.WriteString("(assert (forall ((s Str)) (! (>= (str_len s) 0) :pattern ((str_len s)))))\n")
	sb.WriteString("(assert (forall ((a Str) (b Str)) (! (= (str_len (str_cat a b)) (+ (str_len a) (str_len b))) :pattern ((str_cat a b)))))\n")
	sb.WriteString("(assert (forall ((s Str) (i Int)) (! (and (<= 0 (select (str_runes s) i)) (<= (select (str_runes s) i) 1114111)) :pattern ((select (str_runes s) i)))))\n")
	if u.MaxUConst {
		sb.WriteString("(declare-const maxU Int)\n(assert (or (= maxU 255) (= maxU 65535) (= maxU 4294967295) (= maxU 18446744073709551615)))\n")
	}
	for _, p := range u.Prelude {
		sb.WriteString(p)
		sb.WriteString("\n")
	}
	for _, n := range sortedKeys(u.CS.SpecFuncs) {
		sf := u.CS.SpecFuncs[n]
		if sf.Declared {
			continue
		}
		var ps []string
		for _, p := range sf.Params {
			ps = append(ps, string(u.paramSort(p)))
		}
		for _, r := range sf.Reads {
			ps = append(ps, string(u.cellSortByName(r)))
		}
		rs := sf.Result
		switch rs {
		case "int":
			rs = "Int"
		case "bool":
			rs = "Bool"
		case "set":
			rs = "(Array Int Bool)"
		case "string":
			rs = "Str"
		}
		fmt.Fprintf(&sb, "(declare-fun %s (%s) %s)\n", sym(n), strings.Join(ps, " "), rs)
	}
	sb.WriteString(u.defPredAxioms())
	if !u.SkipSMT {
		for i, x := range u.CS.SMT {
			if g := u.CS.SMTGroup[i]; g != "" {
				sb.WriteString(";;GROUP " + g + " ")
			}
			sb.WriteString(x)
			sb.WriteString("\n")
		}
	}
	return sb.String()
}

type refusal struct{ msg string }

func refuse(format string, a ...any) refusal { return refusal{fmt.Sprintf(format, a...)} }

func sortedKeys[V any](m map[string]V) []string {
	var ks []string
	for k := range m {
		ks = append(ks, k)
	}
	sort.Strings(ks)
	return ks
}

func (u *Unit) paramSort(p ParamDecl) Sort {
	if p.Sort != "" {
		return p.Sort
	}
	if id, ok := p.Type.(*ast.Ident); ok {
		switch id.Name {
		case "bool":
			return SBool
		case "runes", "ints":
			return arr(SInt, SInt)
		case "tokarr":
			u.ensureSort("DT_token")
			return arr(SInt, "DT_token")
		case "string", "str":
			return SStr
		case "TLog":
			return "TLog"
		}
		if obj, ok := u.Pkg.Types.Scope().Lookup(id.Name).(*types.TypeName); ok {
			if _, isStruct := obj.Type().Underlying().(*types.Struct); isStruct && !u.isHeapStruct(obj.Type()) {
				return u.sortOf(obj.Type())
			}
		}
	}
	return SInt
}

// lookupTypeName finds a named type by its bare name: in the package itself, then in its direct imports (a heap struct of
// an imported package, such as the embedded *tree.Tree, is designated by its bare name in cell names).
func (u *Unit) lookupTypeName(name string) *types.TypeName {
	if obj := u.typeByName(name); obj != nil {
		return obj
	}
	for _, imp := range u.Pkg.Types.Imports() {
		if obj, ok := imp.Scope().Lookup(name).(*types.TypeName); ok && u.heapStruct[name] {
			return obj
		}
	}
	return nil
}

// cellSortByName: sort of the heap cell named Type.field (real or ghost field).
func (u *Unit) cellSortByName(name string) Sort {
	switch {
	case strings.HasPrefix(name, "Elems."):
		u.ensureSort(Sort(name[6:]))
		return arr(SInt, arr(SInt, Sort(name[6:])))
	case strings.HasPrefix(name, "MapDom."), strings.HasPrefix(name, "MapVal."):
		kv := name[7:]
		i := strings.Index(kv, "!")
		ks, vs := Sort(kv[:i]), Sort(kv[i+1:])
		u.ensureSort(ks)
		u.ensureSort(vs)
		if strings.HasPrefix(name, "MapDom.") {
			return arr(SInt, arr(ks, SBool))
		}
		return arr(SInt, arr(ks, vs))
	}
	k := strings.Index(name, ".")
	if gs, ok := u.CS.GhostFields[name]; ok {
		return arr(SInt, ghostSort(gs))
	}
	if strings.HasPrefix(name, "Ptr.") {
		return arr(SInt, Sort(name[4:])) // cells of pointers to basic types: Ptr.Bool, Ptr.Str, Ptr.Int
	}
	if k > 0 {
		if obj := u.lookupTypeName(name[:k]); obj != nil {
			if st, ok := obj.Type().Underlying().(*types.Struct); ok {
				for i := 0; i < st.NumFields(); i++ {
					if st.Field(i).Name() == name[k+1:] {
						return arr(SInt, u.sortOf(st.Field(i).Type()))
					}
				}
			}
		}
	}
	panic(refuse("unknown heap cell %s", name))
}

// defPredAxioms renders `forall args, cells. f(args, cells) == body` for every defpred.
func (u *Unit) defPredAxioms() string {
	if u.defAxioms != "" || u.defAxiomsDone {
		return u.defAxioms
	}
	u.defAxiomsDone = true
	var sb strings.Builder
	for _, n := range sortedKeys(u.CS.SpecFuncs) {
		sf := u.CS.SpecFuncs[n]
		if sf.Body == nil || u.OpaquePreds[n] {
			continue
		}
		fv := NewFV(u, &FuncInfo{Key: "defpred " + n}, nil)
		fv.dry = 1
		st := &State{pc: "true", vals: map[string]string{}}
		env := map[string]TV{}
		var binds, args []string
		for _, p := range sf.Params {
			b := sym(p.Name + "!d")
			var ty types.Type = tInt
			if p.Type != nil {
				ty = u.resolveTypeExpr(p.Type)
			}
			env[p.Name] = TV{T: b, Ty: ty, S: u.paramSort(p)}
			binds = append(binds, fmt.Sprintf("(%s %s)", b, u.paramSort(p)))
			args = append(args, b)
		}
		for _, r := range sf.Reads {
			cs := u.cellSortByName(r)
			b := sym(r + "!d")
			cell := "H!" + r
			switch {
			case strings.HasPrefix(r, "Elems."):
				cell = "E!" + r[6:]
			case strings.HasPrefix(r, "MapDom."):
				cell = "MD!" + r[7:]
			case strings.HasPrefix(r, "MapVal."):
				cell = "MV!" + r[7:]
			default:
				if _, ok := u.CS.GhostFields[r]; ok {
					cell = "G!" + r
				}
			}
			st.vals[cell] = b
			fv.cellSort[cell] = cs
			if strings.HasPrefix(r, "MapDom.") {
				if u.mapKeySort == nil {
					u.mapKeySort = map[string]Sort{}
				}
				kv := r[7:]
				u.mapKeySort[kv] = Sort(kv[:strings.Index(kv, "!")])
			}
			binds = append(binds, fmt.Sprintf("(%s %s)", b, cs))
			args = append(args, b)
		}
		fv.strict = true
		cx := &Cx{st: st, old: st, contract: true, noOb: true, env: env}
		body := fv.expr(sf.Body, cx).T
		app := sx(sym(n), args...)
		fmt.Fprintf(&sb, "(assert (forall (%s) (! (= %s %s) :pattern (%s))))\n", strings.Join(binds, " "), app, body, app)
	}
	u.defAxioms = sb.String()
	return u.defAxioms
}

func (u *Unit) resolveTypeExpr(e ast.Expr) types.Type {
	switch t := e.(type) {
	case *ast.StarExpr:
		return types.NewPointer(u.resolveTypeExpr(t.X))
	case *ast.Ident:
		if obj := u.typeByName(t.Name); obj != nil {
			return obj.Type()
		}
		if obj, ok := types.Universe.Lookup(t.Name).(*types.TypeName); ok {
			return obj.Type()
		}
	}
	return tInt
}

// ensureSort makes sure a datatype sort named in a contract ("DT_memoKey") is declared.
func (u *Unit) ensureSort(s Sort) {
	name := strings.TrimPrefix(string(s), "DT_")
	if name == string(s) {
		return
	}
	if _, ok := u.datatypes[name]; ok {
		return
	}
	if obj, ok := u.Pkg.Types.Scope().Lookup(name).(*types.TypeName); ok {
		u.sortOf(obj.Type())
	}
}
