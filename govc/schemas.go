package main

// The schema family of DESIGN.md section 5: every operator of the .peg language applied to operands
// drawn from a leaf alphabet, at nesting depth 1 (complete) and depth 2 (covering subset),
// generated deterministically.

import (
		"fmt"
	"math/rand"
	"os"
	"path/filepath"
	"strings"
)

type leaf struct {
	text     string
	nullable bool // can succeed without consuming
	name     string
	ef       bool // nullable with an empty first set (pure lookahead)
}

var schemaLeaves = []leaf{
	{"'a'", false, "chr", false},
	{"[b-d]", false, "rng", false},
	{".", false, "dot", false},
	{"\"e\"", false, "ci", false},
	{"[^f]", false, "neg", false},
	{"Rc", false, "rule-consuming", false},
	{"Rn", true, "rule-nullable-always", false},
	{"Rz", true, "rule-zero-width-fallible", true},
	{"Rr", false, "rule-recursive", false},
}

const schemaHelpers = `
Rc <- <'r'> 's'? {p.n += len(text)}
Rn <- 'n'*
Rz <- &'z'
Rr <- '(' Rr ')' / 'q'
`

type shape struct {
	text   string
	desc   string
	ef     bool // nullable with an empty first set
	hazard bool // contains a choice of >= 3 alternatives one of which has an empty first set (-switch known finding)
	alts   int  // number of top-level alternatives if the shape is a choice (the front end flattens a leading choice)
	efAlt  bool // some top-level alternative has an empty first set
	null   bool // may succeed without consuming
	nullAlt bool // some top-level alternative may succeed without consuming
}

func leafShape(l leaf) shape {
	s := shape{text: l.text, desc: l.name, ef: l.ef, null: l.nullable}
	if l.name == "ci" {
		s.alts = 2 // "e" is the choice 'e' / 'E'
	}
	return s
}

func par(s shape) string {
	for _, l := range schemaLeaves {
		if l.text == s.text {
			return s.text
		}
	}
	if s.text == "'z'" || ((strings.HasPrefix(s.text, "{") || strings.HasPrefix(s.text, "&{") || strings.HasPrefix(s.text, "!{")) && strings.HasSuffix(s.text, "}") && strings.Count(s.text, "{") == 1) {
		return s.text
	}
	return "(" + s.text + ")"
}

func mkSeq(desc string, parts ...shape) shape {
	out := shape{desc: desc, ef: true, null: true}
	var ts []string
	for _, p := range parts {
		ts = append(ts, par(p))
		out.ef = out.ef && p.ef
		out.null = out.null && p.null
		out.hazard = out.hazard || p.hazard
	}
	out.text = strings.Join(ts, " ")
	return out
}

func mkAlt(desc string, parts ...shape) shape {
	out := shape{desc: desc, ef: true}
	var ts []string
	total := 0
	nullNonLast := false
	for i, p := range parts {
		if i < len(parts)-1 {
			if i == 0 && p.alts > 0 {
				nullNonLast = nullNonLast || p.nullAlt
			} else {
				nullNonLast = nullNonLast || p.null
			}
		}
		if i == 0 && p.alts > 0 {
			out.nullAlt = out.nullAlt || p.nullAlt
		} else {
			out.nullAlt = out.nullAlt || p.null
		}
		ts = append(ts, par(p))
		out.ef = out.ef && p.ef
		out.null = out.null || p.null
		out.hazard = out.hazard || p.hazard
		if i == 0 && p.alts > 0 {
			total += p.alts
			out.efAlt = out.efAlt || p.efAlt
		} else {
			total++
			out.efAlt = out.efAlt || p.ef
		}
	}
	out.alts = total
	if total >= 3 && (out.efAlt || nullNonLast) {
		out.hazard = true // -switch known findings: empty first set ('<nil>' case label) / nullable alternative that is not the last
	}
	out.text = strings.Join(ts, " / ")
	return out
}

func mkUn(op string, x shape) shape {
	out := shape{desc: op + "(" + x.desc + ")", hazard: x.hazard, ef: x.ef, null: x.null}
	switch op {
	case "query":
		out.text, out.null = par(x)+"?", true
	case "star":
		out.text, out.null = par(x)+"*", true
	case "plus":
		out.text = par(x) + "+"
	case "peekfor":
		out.text, out.ef, out.null = "&"+par(x), true, true
	case "peeknot":
		out.text, out.ef, out.null = "!"+par(x), true, true
	case "push":
		out.text = "<" + x.text + ">"
	}
	return out
}

var unaryNames = []string{"query", "star", "plus", "peekfor", "peeknot", "push"}

// depth1Shapes: every operator over every leaf (all pairs for binary operators in the thorough tier, a
// covering quarter in the quick tier; sampled triples).
func depth1Shapes(rng *rand.Rand, full bool) []shape {
	var out []shape
	var L []shape
	for _, l := range schemaLeaves {
		L = append(L, leafShape(l))
	}
	action := shape{text: "{p.n += len(text)}", desc: "action", ef: true, null: true}
	pred := shape{text: "&{p.ok}", desc: "pred", ef: true, null: true}
	state := shape{text: "!{p.n++}", desc: "statechange", ef: true, null: true}
	for li, a := range L {
		if !full && li%2 == 1 && a.text != "Rc" {
			continue // quick tier: every other leaf (the families below carry the critical shapes)
		}
		for _, op := range unaryNames {
			if (op == "star" || op == "plus") && a.null {
				continue
			}
			out = append(out, mkUn(op, a))
		}
		out = append(out, mkSeq("seq-action", a, action), mkSeq("pred-seq", pred, a), mkSeq("statechange-seq", state, a))
		e := mkAlt("alt-empty-last", a)
		e.text += " /"
		e.alts++
		e.null = true
		if e.alts >= 3 {
			e.hazard = true // single-rune alternatives plus an empty last alternative: unused label under -switch
		}
		out = append(out, e)
	}
	for i, a := range L {
		for j, b := range L {
			if !full && (i*7+j*3)%12 != 0 {
				continue
			}
			out = append(out, mkSeq("seq2", a, b), mkAlt("alt2", a, b))
		}
	}
	triples := 6
	if full {
		triples = 120
	}
	for t := 0; t < triples; t++ {
		a, b, c := L[rng.Intn(len(L))], L[rng.Intn(len(L))], L[rng.Intn(len(L))]
		out = append(out, mkSeq("seq3", a, b, c), mkAlt("alt3", a, b, c))
		if t%3 == 0 {
			d := L[rng.Intn(len(L))]
			out = append(out, mkAlt("alt4", a, b, c, d))
		}
	}
	return out
}

// depth2Shapes: an operator applied to a depth-1 shape (and leaves for the n-ary operators).
func depth2Shapes(rng *rand.Rand, d1 []shape, count int) []shape {
	var out []shape
	var L []shape
	for _, l := range schemaLeaves {
		L = append(L, leafShape(l))
	}
	chrZ := shape{text: "'z'", desc: "chr"}
	for len(out) < count {
		in := d1[rng.Intn(len(d1))]
		switch rng.Intn(4) {
		case 0:
			op := unaryNames[rng.Intn(len(unaryNames))]
			if (op == "star" || op == "plus") && in.null {
				continue
			}
			out = append(out, mkUn(op, in))
		case 1:
			b := L[rng.Intn(len(L))]
			if rng.Intn(2) == 0 {
				out = append(out, mkSeq("seq("+in.desc+",leaf)", in, b))
			} else {
				out = append(out, mkSeq("seq(leaf,"+in.desc+")", b, in))
			}
		case 2:
			b := L[rng.Intn(len(L))]
			if rng.Intn(2) == 0 {
				out = append(out, mkAlt("alt("+in.desc+",leaf)", in, b))
			} else {
				out = append(out, mkAlt("alt(leaf,"+in.desc+")", b, in))
			}
		case 3:
			b, c := L[rng.Intn(len(L))], L[rng.Intn(len(L))]
			out = append(out, mkAlt("alt3(leaf,seq("+in.desc+",leaf),chr)", b, mkSeq("", in, c), chrZ))
		}
	}
	return out
}

// witnesses of the -switch defects found with this framework (all repaired by fix: commits)
var regressionShapes = []string{
	"(('b'* / 'a') 'c' / 'x' / [0-9])",
	"('a' / 'b'* / 'c') .*",
	"'x' / [a-c]* 'd' / [0-9]",
	"'x' / 'a'? 'a' 'd' / [0-9]",
	"[g-z] / ([a-d] 'x' / [c-f] 'y') / '1'",
	"[g-z] / [a-c]? 'd' / '1'",
	"[g-z] / 'a'* 'a' 'd' / '1'",
	"[g-z] / <[a-c]> 'x' / '1' / [d-f]+ 'y'",
	"'a' / Rz / 'b'",
	"Rn / Rr / 'a'",
}

// miscFamily: shapes suggested by seeded changes that the other families did not contain: predicates whose Go
// expression has a top-level binary operator (the emitter negates the expression text), lookaheads over a choice that
// -switch dispatches on and that records tokens (rule, capture, action) before being abandoned, and an optional /
// repetition / lookahead at the head of a dispatched alternative whose case covers several characters.
var miscFamily = []string{
	"&{p.ok || p.n > 0} 'a'", "&{p.ok && p.n == 0} 'a'", "&{p.n == 0} 'a'", "'a' &{p.n < 3 || p.ok} 'b' / 'a'",
	"&(Rc 'p' / <'a'> 'q' / 'b' {p.n += len(text)}) . 'z'",
	"!(Rc 'p' / <'a'> 'q' / 'b' {p.n += len(text)}) . 'z'",
	"&(Rc 'p' / <'a'> 'q' / 'b' {p.n += len(text)} / [d-f] Rc) . . 'z'",
	"(&(Rc / <'a'> / 'b' {p.n += len(text)}) [a-c])+ 'z'",
	"'-'? [0-9]+ / '(' 'x' ')' / [a-z]+",
	"[+\\-]? [0-9]+ / '(' 'x' ')' / [a-z]+",
	"[+\\-]* [0-9] / '(' 'x' ')' / [a-z]+",
	"&[0-9] [0-4]? [0-9] / '(' 'x' ')' / [a-z]+",
	"<[+\\-]?> [0-9]+ / '(' 'x' ')' / [a-z]+",
	"([+\\-] / 'e')? [0-9]+ / '(' 'x' ')' / [a-z]+",
	// ranges that end at the largest code point (the sentinel is above it), alone, last in a rule and under repetition
	"[\\0x80-\\0x10FFFF]", "'a' [\\0x80-\\0x10FFFF]", "([\\0x80-\\0x10FFFF] / [a-y])+ 'z'", "[^\\0x80-\\0x10FFFF] .", "[[\\0xE0-\\0x10FFFF]]*",
	// first sets assembled from separated ranges and a range that bridges them (what package set has to merge)
	"([a-f] / [x-z] / [g-w]) '1' / '{' 'x' '}' / [ -@] 'z'", "([x-z] / [a-c] / [b-y])+ '1' / '{' 'x' '}' / [ -@] 'z'", "[a-cx-zb-y] '1' / '{' 'x' '}' / [ -@]+",
	// captures inside captures (directly and through a rule that captures), with an action reading text afterwards
	"< 'x' <'y'+> 'z' > {p.n += len(text)}", "< 'a' < 'b' > > {p.n += len(text)} 'c'", "< Rc 'z' > {p.n += len(text)}",
	"< 'x' (<'y'> / 'w') 'z' > {p.n += len(text)}", "(< 'x' <'y'>? > {p.n += len(text)})+",
}

// switchFamily: three-way choices with disjoint first characters whose alternatives begin with every
// kind of prefix (lookahead of the same or another character, optional, repetition, capture, action,
// predicate, rule reference), in first and middle position, with and without an empty last alternative,
// next to small and large neighbour classes: the shapes the -switch optimiser dispatches on.
func switchFamily() []string {
	heads := []string{
		"'a' 'x'", "&'a' 'a' 'x'", "&'b' 'a' 'x'", "!'b' 'a' 'x'", "!'a' 'a' 'x'", "!(. 'b') 'a' 'x'", "&(. 'x') 'a' 'x'",
		"'a'? 'a' 'x'", "'q'? 'a' 'x'", "'q'* 'a' 'x'", "'a'+ 'x'", "<'a'> 'x'", "{p.n += len(text)} 'a' 'x'", "&{p.ok} 'a' 'x'",
		"Rc 'x'", "Rn 'a' 'x'", "[a-b] 'x'", "<[a-b]+> 'x'", "('a' 'x' / 'a' 'w')", "('a' / 'b') 'x'",
	}
	var out []string
	for _, h := range heads {
		out = append(out,
			h+" / [c-d] 'y' / [e-g] 'z'",
			"[c-d] 'y' / "+h+" / [e-g] 'z'",
			h+" / [c-d] 'y' / [e-g] 'z' /",
			h+" / [c-d] 'y' / [h-z] 'z'",
			"([c-d] 'y' / "+h+") / [h-z] 'z' / '1'")
	}
	return out
}

type SchemaFile struct {
	Name   string
	Path   string
	Shapes []shape
}

// writeSchemas writes the schema grammars for the tier into dir and returns them.
// Every shape rule is referenced from two groups so that -inline never removes its closure; the
// helper rules I<k> used by the depth-2 "inline" shapes are referenced exactly once.
func writeSchemas(dir, tier string, seed int) ([]*SchemaFile, error) {
	rng := rand.New(rand.NewSource(20260925))
	full := tier == "thorough"
	d1 := depth1Shapes(rng, full)
	n2 := 24
	if full {
		n2 = 400
	}
	d2 := depth2Shapes(rng, d1, n2)
	all := append(append([]shape{}, d1...), d2...)
	if !full {
		// quick tier: depth 1 completely, a seed-chosen part of depth 2 (already sampled above)
		_ = seed
	}
	perFile := 100
	var files []*SchemaFile
	_ = os.MkdirAll(dir, 0o755)
	var plain, hazards []shape
	for _, s := range all {
		if s.hazard {
			hazards = append(hazards, s)
		} else {
			plain = append(plain, s)
		}
	}
	prefix := "q"
	if full {
		prefix = "t"
	}
	emit := func(name string, shapes []shape) error {
		sf := &SchemaFile{Name: name, Shapes: shapes}
		var sb strings.Builder
		sb.WriteString("package main\n\ntype S Peg {\n n int\n ok bool\n}\n\n")
		// every shape rule is referenced from two groups (both sequences: the scaffolding adds no choice) and
		// every group twice (from Start and from Again), so that -inline removes no scaffolding closure;
		// every third shape additionally appears as a once-referenced rule I<k> inside a wrapper W<k>,
		// which is what -inline inlines.
		var groups []string
		var gtext strings.Builder
		var names []string
		for k := range shapes {
			names = append(names, fmt.Sprintf("T%d", k))
			if k%3 == 0 && len(shapes) > 1 {
				names = append(names, fmt.Sprintf("W%d", k))
			}
		}
		for g := 0; g*10 < len(names); g++ {
			var refs, rev []string
			for k := g * 10; k < g*10+10 && k < len(names); k++ {
				refs = append(refs, names[k])
				rev = append([]string{names[k]}, rev...)
			}
			groups = append(groups, fmt.Sprintf("Ga%d", g), fmt.Sprintf("Gb%d", g))
			fmt.Fprintf(&gtext, "Ga%d <- %s\nGb%d <- %s\n", g, strings.Join(refs, " "), g, strings.Join(rev, " "))
		}
		// chunks of at most 7 groups, each referenced twice from Start
		var chunks []string
		var ctext strings.Builder
		for c := 0; c*7 < len(groups); c++ {
			hi := c*7 + 7
			if hi > len(groups) {
				hi = len(groups)
			}
			chunks = append(chunks, fmt.Sprintf("C%d", c))
			fmt.Fprintf(&ctext, "C%d <- %s (%s)?\n", c, strings.Join(groups[c*7:hi], " "), strings.Join(groups[c*7:hi], " "))
		}
		fmt.Fprintf(&sb, "Start <- %s (%s)? !.\n%s", strings.Join(chunks, " "), strings.Join(chunks, " "), ctext.String())
		sb.WriteString(gtext.String())
		for k, s := range shapes {
			fmt.Fprintf(&sb, "T%d <- %s\n", k, s.text)
			if k%3 == 0 && len(shapes) > 1 {
				fmt.Fprintf(&sb, "W%d <- I%d 'w' / 'v'\nI%d <- %s\n", k, k, k, s.text)
			}
		}
		sb.WriteString(schemaHelpers)
		sf.Path = filepath.Join(dir, sf.Name+".peg")
		if err := os.WriteFile(sf.Path, []byte(sb.String()), 0o644); err != nil {
			return err
		}
		files = append(files, sf)
		return nil
	}
	for i := 0; i < len(plain); i += perFile {
		j := i + perFile
		if j > len(plain) {
			j = len(plain)
		}
		if err := emit(fmt.Sprintf("%s-schema%02d", prefix, len(files)), plain[i:j]); err != nil {
			return nil, err
		}
	}
	// shapes that hit defects of the -switch optimiser which have been repaired (known_findings.json:
	// F12, F13, F14, K02a-d) plus the witnesses of those defects: kept together in one file as a
	// regression family
	maxH := 30
	if full {
		maxH = 200
	}
	var hz []shape
	for i, h := range hazards {
		if i >= maxH {
			break
		}
		hz = append(hz, h)
	}
	for _, t := range regressionShapes {
		hz = append(hz, shape{text: t, desc: "regression witness"})
	}
	for _, t := range switchFamily() {
		hz = append(hz, shape{text: t, desc: "switch family"})
	}
	for _, t := range backtrackFamily() {
		hz = append(hz, shape{text: t, desc: "backtrack family"})
	}
	for _, t := range miscFamily {
		hz = append(hz, shape{text: t, desc: "misc family"})
	}
	for i := 0; i < len(hz); i += perFile {
		j := i + perFile
		if j > len(hz) {
			j = len(hz)
		}
		if err := emit(fmt.Sprintf("%s-hazards%02d", prefix, i/perFile), hz[i:j]); err != nil {
			return nil, err
		}
	}
	// mutually recursive rules (choices of three and more alternatives that reach each other, one of them
	// beginning with a reference back to a rule still being analysed by the -switch optimiser)
	for i, g := range recursiveGrammars {
		rec := filepath.Join(dir, fmt.Sprintf("%s-recursive%d.peg", prefix, i))
		if err := os.WriteFile(rec, []byte(recursiveHeader+g), 0o644); err != nil {
			return nil, err
		}
		files = append(files, &SchemaFile{Name: fmt.Sprintf("%s-recursive%d", prefix, i), Path: rec})
	}
	return files, nil
}

const recursiveHeader = `package main

type S Peg {
 n int
 ok bool
}

`

// Each grammar starts with the recursive rule itself, so that the -switch analysis meets the back
// reference while the rule is still in progress (a rule first reached from a finished context hides that).
var recursiveGrammars = []string{
	`Value <- '[' Items ']' / Num / Str
Items <- Row (';' Row)*
Row <- Value '=' Value / '-' / [a-z]+
Num <- <[0-9]+> {p.n += len(text)}
Str <- '"' (!'"' .)* '"'
`,
	`Expr <- Term ('+' Term)*
Term <- Factor ('*' Factor)*
Factor <- '(' Expr ')' / Num / [a-z]+ / '-' Factor
Num <- [0-9]+
`,
	`List <- '{' Elems? '}'
Elems <- Elem (',' Elem)*
Elem <- List '!' / Num / Str / [a-z]+ / '<' Elem '>'
Num <- [0-9]+
Str <- '"' (!'"' .)* '"'
`,
	`Start <- (Value / Expr / List) (Value / Expr / List)? !.
Value <- '[' Items ']' / Num / Str
Items <- Row (';' Row)*
Row <- Value '=' Value / '-' / [a-z]+
Num <- <[0-9]+> {p.n += len(text)}
Str <- '"' (!'"' .)* '"'
Expr <- Term ('+' Term)*
Term <- Factor ('*' Factor)*
Factor <- '(' Expr ')' / Num / [a-z]+ / '-' Factor
List <- '{' Elems? '}'
Elems <- Elem (',' Elem)*
Elem <- List / Num / Str / [a-z]+ / '<' Elem '>'
`,
	// once-referenced rules (what -inline expands in place) under every repetition and lookahead operator: an inlined
	// operand can fail after consuming input and adding tokens, which a called rule never shows to its caller
	`Start <- (P1 / P2 / P3 / P4 / P5 / P6 / P7) !.
P1 <- 'x' Inl1+ 'w'
Inl1 <- 'a' 'b'
P2 <- 'y' Inl2* 'a' 'w'
Inl2 <- <'a'> 'b' {p.n += len(text)}
P3 <- 'z' (Inl3 'c')+ 'a' 'b' 'w'
Inl3 <- 'a' Num 'b'
P4 <- 'u' Inl4? 'a' 'w'
Inl4 <- 'a' Num 'b'
P5 <- 'v' &Inl5 'a' Num 'w'
Inl5 <- 'a' Num 'b'
P6 <- 't' !Inl6 'a' Num 'w'
Inl6 <- 'a' Num 'b'
P7 <- 's' (Inl7 / 'a' Num 'w')
Inl7 <- 'a' Num 'b'
Num <- [0-9]+
`,
}

// backtrackFamily: operands that can match a prefix and then fail (so that position AND token index must be
// restored), under every backtracking operator and in the contexts that follow it, with and without
// tokens (rule calls, captures, actions) inside the part that is abandoned.
func backtrackFamily() []string {
	partial := []string{"'a' 'b'", "Rc 'b'", "<'a'> 'b'", "'a' {p.n += len(text)} 'b'", "('a' / 'r') 'b'", "'a'+ 'b'"}
	var out []string
	for _, q := range partial {
		out = append(out,
			"&("+q+") / 'a' 'c'",
			"&("+q+") 'a' 'b' / Rc 'c'",
			"!("+q+") 'a' 'c'",
			"!("+q+") Rc 'c' / 'a' 'b'",
			"("+q+")? 'a' 'c'",
			"("+q+")* 'a' 'c'",
			q+" / 'a' 'c' / Rc 'c'",
			"("+q+" / 'a') 'c' / 'a' 'd'",
			"<("+q+")?> 'a' 'c'")
	}
	return out
}
