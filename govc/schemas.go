package main

// The schema family of DESIGN.md section 5: every operator of the .peg language applied to operands
// drawn from a leaf alphabet, at nesting depth 1 (complete) and depth 2 (covering subset),
// generated deterministically.

import (
	"fmt"
	"math/rand"
	"os"
	"path/filepath"
	"strings"
)

type leaf struct {
	text     string
	nullable bool // can succeed without consuming
	name     string
}

var schemaLeaves = []leaf{
	{"'a'", false, "chr"},
	{"[b-d]", false, "rng"},
	{".", false, "dot"},
	{"\"e\"", false, "ci"},
	{"[^f]", false, "neg"},
	{"Rc", false, "rule-consuming"},
	{"Rn", true, "rule-nullable-always"},
	{"Rz", true, "rule-zero-width-fallible"},
	{"Rr", false, "rule-recursive"},
}

const schemaHelpers = `
Rc <- 'r' 's'?
Rn <- 'n'*
Rz <- &'z'
Rr <- '(' Rr ')' / 'q'
`

type shape struct {
	text string
	desc string
}

// depth1Shapes: every operator over every leaf (tuples for n-ary operators: all pairs, sampled triples).
func depth1Shapes(rng *rand.Rand, full bool) []shape {
	var out []shape
	L := schemaLeaves
	add := func(t, d string) { out = append(out, shape{t, d}) }
	for _, a := range L {
		add(a.text+"?", "query")
		if !a.nullable {
			add(a.text+"*", "star")
			add(a.text+"+", "plus")
		}
		add("&"+a.text, "peekfor")
		add("!"+a.text, "peeknot")
		add("<"+a.text+">", "push")
		add(a.text+" {p.n++}", "seq-action")
		add("&{p.ok} "+a.text, "pred-seq")
		add("!{p.n++} "+a.text, "statechange-seq")
		add(a.text+" /", "alt-empty-last")
	}
	pairs := 0
	for i, a := range L {
		for j, b := range L {
			if !full && (i*7+j*3)%4 != 0 {
				continue
			}
			pairs++
			add(a.text+" "+b.text, "seq2")
			add(a.text+" / "+b.text, "alt2")
		}
	}
	triples := 24
	if full {
		triples = 120
	}
	for t := 0; t < triples; t++ {
		a, b, c := L[rng.Intn(len(L))], L[rng.Intn(len(L))], L[rng.Intn(len(L))]
		add(a.text+" "+b.text+" "+c.text, "seq3")
		add(a.text+" / "+b.text+" / "+c.text, "alt3")
		if t%3 == 0 {
			d := L[rng.Intn(len(L))]
			add(a.text+" / "+b.text+" / "+c.text+" / "+d.text, "alt4")
		}
	}
	return out
}

var unaryOps = []struct{ pre, post, desc string }{
	{"(", ")?", "query"}, {"(", ")*", "star"}, {"(", ")+", "plus"}, {"&(", ")", "peekfor"}, {"!(", ")", "peeknot"}, {"<", ">", "push"},
}

func nullableShape(s string) bool {
	// conservative: anything ending in ? or * or containing only lookaheads/nullable rules
	t := strings.TrimSpace(s)
	return strings.HasSuffix(t, "?") || strings.HasSuffix(t, "*") || strings.HasSuffix(t, "/") || strings.HasPrefix(t, "&") || strings.HasPrefix(t, "!") ||
		strings.Contains(t, "Rn") || strings.Contains(t, "Rz") || strings.Contains(t, "{")
}

// depth2Shapes: an operator applied to a depth-1 shape (and a leaf for binary operators).
func depth2Shapes(rng *rand.Rand, d1 []shape, count int) []shape {
	var out []shape
	L := schemaLeaves
	for len(out) < count {
		in := d1[rng.Intn(len(d1))]
		inner := "(" + in.text + ")"
		switch rng.Intn(4) {
		case 0:
			op := unaryOps[rng.Intn(len(unaryOps))]
			if (op.desc == "star" || op.desc == "plus") && nullableShape(in.text) {
				continue
			}
			out = append(out, shape{op.pre + in.text + op.post, op.desc + "(" + in.desc + ")"})
		case 1:
			b := L[rng.Intn(len(L))]
			if rng.Intn(2) == 0 {
				out = append(out, shape{inner + " " + b.text, "seq(" + in.desc + ",leaf)"})
			} else {
				out = append(out, shape{b.text + " " + inner, "seq(leaf," + in.desc + ")"})
			}
		case 2:
			b := L[rng.Intn(len(L))]
			if rng.Intn(2) == 0 {
				out = append(out, shape{inner + " / " + b.text, "alt(" + in.desc + ",leaf)"})
			} else {
				out = append(out, shape{b.text + " / " + inner, "alt(leaf," + in.desc + ")"})
			}
		case 3:
			b, c := L[rng.Intn(len(L))], L[rng.Intn(len(L))]
			out = append(out, shape{b.text + " / " + inner + " " + c.text + " / 'z'", "alt3(leaf,seq(" + in.desc + ",leaf),chr)"})
		}
	}
	return out
}

type SchemaFile struct {
	Name   string
	Path   string
	Shapes []shape
}

// writeSchemas writes the schema grammars for the tier into dir and returns them.
// Every shape rule is referenced from two groups so that -inline never removes its closure; the
// helper rules I<k> used by the depth-2 "inline" shapes are referenced exactly once.
func writeSchemas(dir, tier string, seed int) ([]*SchemaFile, error) {
	rng := rand.New(rand.NewSource(20260925))
	full := tier == "thorough"
	d1 := depth1Shapes(rng, full)
	n2 := 60
	if full {
		n2 = 900
	}
	d2 := depth2Shapes(rng, d1, n2)
	all := append(append([]shape{}, d1...), d2...)
	if !full {
		// quick tier: depth 1 completely, a seed-chosen part of depth 2 (already sampled above)
		_ = seed
	}
	perFile := 150
	var files []*SchemaFile
	_ = os.MkdirAll(dir, 0o755)
	for i := 0; i < len(all); i += perFile {
		j := i + perFile
		if j > len(all) {
			j = len(all)
		}
		sf := &SchemaFile{Name: fmt.Sprintf("schema%02d", len(files)), Shapes: all[i:j]}
		var sb strings.Builder
		sb.WriteString("package main\n\ntype S Peg {\n n int\n ok bool\n}\n\n")
		// two groups referencing every shape rule
		var groups []string
		for g := 0; g*10 < len(sf.Shapes); g++ {
			var refs []string
			for k := g * 10; k < g*10+10 && k < len(sf.Shapes); k++ {
				refs = append(refs, fmt.Sprintf("T%d", k))
			}
			groups = append(groups, fmt.Sprintf("Ga%d", g), fmt.Sprintf("Gb%d", g))
			fmt.Fprintf(&sb, "Ga%d <- %s\nGb%d <- %s\n", g, strings.Join(refs, " / "), g, strings.Join(refs, " "))
		}
		// Start must come first
		text := "Start <- (" + strings.Join(groups, " / ") + ") !.\n" + sb.String()[strings.Index(sb.String(), "Ga0"):]
		head := sb.String()[:strings.Index(sb.String(), "Ga0")]
		var rules strings.Builder
		for k, s := range sf.Shapes {
			fmt.Fprintf(&rules, "T%d <- %s\n", k, s.text)
		}
		content := head + text + rules.String() + schemaHelpers
		sf.Path = filepath.Join(dir, sf.Name+".peg")
		if err := os.WriteFile(sf.Path, []byte(content), 0o644); err != nil {
			return nil, err
		}
		files = append(files, sf)
	}
	return files, nil
}
