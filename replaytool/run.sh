#!/bin/bash
# usage: run.sh <grammar.peg> "<peg options>" <RuleName> <input>   (AST modes)
# Builds peg from /repo's working tree, generates the parser, runs it on the input from the rule, prints
# verdict and tokens. Everything happens in a scratch directory that is removed afterwards.
set -e
export PATH=/opt/veriftools/go1.26.8/bin:$PATH GOFLAGS=-mod=mod GOPROXY=off GOSUMDB=off GOTOOLCHAIN=local CGO_ENABLED=0
REPO=${GOVC_REPO:-/repo}
D=$(mktemp -d /var/tmp/govc-replay-XXXXXX)
trap 'rm -rf "$D"' EXIT
(cd $REPO && go build -o $D/peg .)
mkdir -p $D/g && cd $D/g
$D/peg $2 -output $D/g/g.go "$1" 2>$D/peg.err || { echo "peg failed: $(cat $D/peg.err)"; exit 3; }
STRUCT=$(grep -E '^type [A-Za-z0-9_]+ Peg' "$1" | awk '{print $2}')
cat > main.go <<EOT
package main

import (
	"fmt"
	"os"
)

func main() {
	p := &${STRUCT}[uint32]{Buffer: os.Args[1]}
	_ = p.Init()
	err := p.Parse(int(rule$3))
	fmt.Println("accepted:", err == nil)
	if err == nil {
		for _, t := range p.Tokens() {
			fmt.Println(rul3s[t.pegRule], t.begin, t.end)
		}
	} else {
		fmt.Print(err)
	}
}
EOT
printf 'module m\n\ngo 1.26\n\nrequire github.com/pointlander/peg v0.0.0\n\nreplace github.com/pointlander/peg => %s\n' $REPO > go.mod
go build -o $D/parser . 2>$D/build.err || { echo "generated parser does not compile:"; head -5 $D/build.err; exit 4; }
$D/parser "$4"
