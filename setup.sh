#!/bin/bash
# Build govc offline from the vendored tree.
set -e
cd "$(dirname "$0")/govc"
export PATH=/opt/veriftools/go1.26.8/bin:$PATH GOFLAGS=-mod=vendor GOPROXY=off GOSUMDB=off GOTOOLCHAIN=local CGO_ENABLED=0
mkdir -p ../bin
go build -o ../bin/govc .
echo "govc built"
